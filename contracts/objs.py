"""Builders for symbolic instances of the repository's classes (arbitrary well-formed object states)."""
import z3

from pyvc.sym import Obj, DictObj, ListObj, SSeq, SBool, mk_bool, PyVal


def cls_of(E, mod, name):
    return E.loader.load(mod).ns[name]


def exc(E, name, mod="trie.exceptions"):
    return E.loader.load(mod).ns[name]


def hash32(E, base):
    h = E.fresh_seq(base, "bytes")
    E.assume(mk_bool(z3.Length(h.t) == 32))
    return h


def mk_hexary(E, pruning=None, root=None):
    """a HexaryTrie outside of any set/delete: _pending_prune_keys is None"""
    db = E.fresh_dict("db", "bytes", "bytes")
    if root is None:
        root = hash32(E, "root_hash")
    prune = E.fresh_bool("is_pruning") if pruning is None else pruning
    if E.decide(prune):
        rc = E.fresh_dict("ref_count", "bytes", "int", default=0)
        prune = True
    else:
        rc = None
        prune = False
    return Obj(cls_of(E, "trie.hexary", "HexaryTrie"),
               {"db": db, "root_hash": root, "is_pruning": prune, "_ref_count": rc, "_pending_prune_keys": None})


def mk_binary(E):
    db = E.fresh_dict("db", "bytes", "bytes")
    return Obj(cls_of(E, "trie.binary", "BinaryTrie"), {"db": db, "root_hash": hash32(E, "root_hash")})


def mk_smt(E):
    ks = E.fresh_int("key_size")
    E.assume(mk_bool(z3.And(ks.t >= 1, ks.t <= 32)))
    db = E.fresh_dict("db", "bytes", "bytes")
    default = E.fresh_seq("default", "bytes")
    from pyvc.sym import mk_int
    return Obj(cls_of(E, "trie.smt", "SparseMerkleTree"),
               {"_key_size": ks, "depth": mk_int(ks.t * 8), "_default": default, "db": db,
                "root_hash": hash32(E, "root_hash")})


def mk_smproof(E):
    key = E.fresh_seq("pkey", "bytes")
    value = E.fresh_seq("pvalue", "bytes")
    branch = E.fresh_seq("pbranch", "list", "bytes")
    from pyvc.sym import mk_int
    E.assume(mk_bool(z3.Length(branch.t) == 8 * z3.Length(key.t)))
    return Obj(cls_of(E, "trie.smt", "SparseMerkleProof"),
               {"_key": key, "_key_size": mk_int(z3.Length(key.t)), "_value": value, "_branch": ListObj(seq=branch),
                "_branch_size": mk_int(z3.Length(branch.t))})


def not_bytes(x):
    return z3.Not(PyVal.is_PBytes(x.t))


def bytes_of_len_other_than(x, n_term):
    return z3.And(PyVal.is_PBytes(x.t), z3.Length(PyVal.pbytes(x.t)) != n_term)
