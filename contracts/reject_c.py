"""C18: invalid arguments are rejected up front and change nothing.

For every public entry point the unit is the real function, run with *dynamically typed* arguments (any Python
value) under the precondition "some argument is ill-typed / ill-sized as the property states".  The contract has one
case: the call raises the stated exception class, and nothing reachable from the receiver -- fields, database,
reference counts -- is written (frame obligations; a write that is undone still counts as a write to a store).
An operation applied to an argument before its type has been established makes the unit leave the subset
("use before validation") and is reported as undecided, never as proved."""
import z3

from pyvc.sym import SSeq, SBool, SPy, mk_bool, PyVal, Obj
from pyvc.unit import Contract, Case
from contracts import objs


def _vt(E):
    return objs.exc(E, "ValidationError")


def enter_context(E, ctx, fn, argv):
    """unit-mode call of a @contextmanager function: enter it with an empty block"""
    from pyvc.modules import Wrapped
    base = fn
    while isinstance(base, Wrapped):
        base = base.func
    return E.call_func(base, argv, {}, yield_cb=lambda y: None)


def _mk(reg, qual, params, kinds, mk_self, bad, raises=_vt, props=("C18",), group="entrypoints", name="refused",
        pre=None, ctor=False, context=False):
    def setup(E):
        args = {}
        for p in params:
            k = kinds.get(p, "py")
            if p in ("self", "cls") and mk_self is not None:
                args[p] = mk_self(E)
            elif k == "py":
                args[p] = E.fresh_py(p)
            elif k == "bool":
                args[p] = E.fresh_bool(p)
            elif k == "int":
                args[p] = E.fresh_int(p)
            elif k == "tupleB":
                args[p] = E.fresh_seq(p, "tuple", "bytes")
            elif k == "bytes":
                args[p] = E.fresh_seq(p, "bytes")
            elif k == "db":
                args[p] = E.fresh_dict(p, "bytes", "bytes")
            elif callable(k):
                args[p] = k(E)
            else:
                raise ValueError(k)
        if pre is not None:
            pre(E, args)
        E.assume(mk_bool(bad(E, args)))
        return args

    def cases(E, ctx):
        cls = raises(E) if callable(raises) and not isinstance(raises, type) else raises
        # a constructor's receiver is the object under construction: it is discarded when __init__ raises
        return [Case(name, raises=cls, modifies=[ctx.self] if ctor else [])]
    reg.add(group, Contract(qual + "#" + name, params, cases, setup=setup, props=props, callee=False, target=qual,
                            body_model=enter_context if context else None))


def nb(p):
    return lambda E, a: objs.not_bytes(a[p])


def any_of(*fs):
    return lambda E, a: z3.Or(*[f(E, a) for f in fs])


def bad_len(p, size_of):
    return lambda E, a: objs.bytes_of_len_other_than(a[p], size_of(E, a))


def register(reg):
    H = "trie.hexary:HexaryTrie."
    for m in ("get", "exists", "get_proof", "delete", "__getitem__", "__contains__", "__delitem__"):
        _mk(reg, H + m, ["self", "key"], {}, objs.mk_hexary, nb("key"))
    for m in ("set", "__setitem__"):
        _mk(reg, H + m, ["self", "key", "value"], {}, objs.mk_hexary, any_of(nb("key"), nb("value")))
    # constructor: root hash must be bytes; a reference count may not be handed to a non-pruning trie
    def mk_blank_hexary(E):
        return Obj(objs.cls_of(E, "trie.hexary", "HexaryTrie"), {})
    _mk(reg, H + "__init__", ["self", "db", "root_hash", "prune", "ref_count"], {"db": "db", "prune": "bool"},
        mk_blank_hexary, nb("root_hash"), name="root-not-bytes", ctor=True)
    _mk(reg, H + "__init__", ["self", "db", "root_hash", "prune", "ref_count"],
        {"db": "db", "root_hash": "bytes", "prune": lambda E: False,
         "ref_count": lambda E: E.fresh_dict("ref_count", "bytes", "int")},
        mk_blank_hexary, lambda E, a: z3.BoolVal(True), raises=ValueError, name="ref-count-to-non-pruning-trie", ctor=True)
    # snapshot from a pruning trie
    _mk(reg, H + "at_root", ["self", "at_root_hash"], {}, lambda E: objs.mk_hexary(E, pruning=True),
        lambda E, a: z3.BoolVal(True), name="pruning-trie-refuses-snapshot", context=True)

    B = "trie.binary:BinaryTrie."
    for m in ("get", "exists", "delete", "delete_subtrie", "__getitem__", "__contains__", "__delitem__"):
        _mk(reg, B + m, ["self", "key"], {}, objs.mk_binary, nb("key"))
    for m in ("set", "__setitem__"):
        _mk(reg, B + m, ["self", "key", "value"], {}, objs.mk_binary, any_of(nb("key"), nb("value")))
    def mk_blank_binary(E):
        return Obj(objs.cls_of(E, "trie.binary", "BinaryTrie"), {})
    _mk(reg, B + "__init__", ["self", "db", "root_hash"], {"db": "db"}, mk_blank_binary, nb("root_hash"), ctor=True)

    S = "trie.smt:SparseMerkleTree."
    ksz = lambda E, a: a["self"].fields["_key_size"].t
    for m in ("get", "branch", "exists", "delete", "__getitem__", "__contains__", "__delitem__", "_get"):
        _mk(reg, S + m, ["self", "key"], {}, objs.mk_smt, any_of(nb("key"), bad_len("key", ksz)))
    for m in ("set", "__setitem__"):
        _mk(reg, S + m, ["self", "key", "value"], {}, objs.mk_smt,
            any_of(nb("key"), bad_len("key", ksz), nb("value")))
    def mk_blank_smt(E):
        return Obj(objs.cls_of(E, "trie.smt", "SparseMerkleTree"), {})
    _mk(reg, S + "__init__", ["self", "key_size", "default"], {"key_size": "int", "default": "bytes"}, mk_blank_smt,
        lambda E, a: z3.Or(a["key_size"].t < 1, a["key_size"].t > 32), name="key-size-out-of-range", ctor=True)

    # calc_root and SparseMerkleProof construction
    def bad_root_args(E, a):
        k = a["key"]
        return z3.Or(objs.not_bytes(k), objs.not_bytes(a["value"]),
                     z3.And(PyVal.is_PBytes(k.t), z3.Length(a["branch"].t) != 8 * z3.Length(PyVal.pbytes(k.t))))
    _mk(reg, "trie.smt:calc_root", ["key", "value", "branch"], {"branch": "tupleB"}, None, bad_root_args)
    def mk_blank_proof(E):
        return Obj(objs.cls_of(E, "trie.smt", "SparseMerkleProof"), {})
    _mk(reg, "trie.smt:SparseMerkleProof.__init__", ["self", "key", "value", "branch"], {"branch": "tupleB"},
        mk_blank_proof, bad_root_args, ctor=True)
    pksz = lambda E, a: a["self"].fields["_key_size"].t
    _mk(reg, "trie.smt:SparseMerkleProof.update", ["self", "key", "value", "node_updates"], {"node_updates": "tupleB"},
        objs.mk_smproof, any_of(nb("key"), bad_len("key", pksz)))

    # binary branch helpers
    Br = "trie.branches:"
    _mk(reg, Br + "check_if_branch_exist", ["db", "root_hash", "key_prefix"], {"db": "db", "root_hash": "bytes"}, None,
        nb("key_prefix"))
    _mk(reg, Br + "get_branch", ["db", "root_hash", "key"], {"db": "db", "root_hash": "bytes"}, None, nb("key"))
    _mk(reg, Br + "get_witness_for_key_prefix", ["db", "node_hash", "key"], {"db": "db", "node_hash": "bytes"}, None,
        nb("key"))

    # nibble paths handed to the traversal API and to the fog: a non-sequence is a TypeError, a sequence with an
    # element outside 0..15 a ValueError (Nibbles(...) comes first in each of these functions)
    def not_seq(p):
        return lambda E, a: z3.Not(z3.Or(PyVal.is_PTup(a[p].t), PyVal.is_PTupB(a[p].t)))

    def bad_nibble(p):
        def bad(E, a):
            from contracts.seqspec import allnib_of
            side = []
            ok = allnib_of(a[p].t, side)
            for f in side:
                E.assume(mk_bool(f))
            return z3.Not(ok)
        return bad
    int_tuple = lambda E: E.fresh_seq("nibbles", "tuple", "int")
    def mk_fog(E):
        from contracts.fog_c import mk_fog as _mk_fog
        return _mk_fog(E)
    for (qual, params, pname, mk_self) in (
            (H + "traverse", ["self", "trie_key_input"], "trie_key_input", objs.mk_hexary),
            (H + "traverse_from", ["self", "parent_node", "trie_key_input"], "trie_key_input", objs.mk_hexary),
            ("trie.fog:HexaryTrieFog.nearest_unknown", ["self", "key_input"], "key_input", mk_fog),
            ("trie.fog:HexaryTrieFog.nearest_right", ["self", "key_input"], "key_input", mk_fog),
            ("trie.fog:HexaryTrieFog.explore", ["self", "old_prefix_input", "foggy_sub_segments"], "old_prefix_input", mk_fog)):
        _mk(reg, qual, params, {}, mk_self, not_seq(pname), raises=TypeError, name="path-is-not-a-sequence")
        _mk(reg, qual, params, {pname: int_tuple}, mk_self, bad_nibble(pname), raises=ValueError, name="element-is-not-a-nibble")

    # get_from_proof: a key or a root hash that is not a byte string is refused (by the snapshot's get / constructor)
    def mk_proof_nodes(E):
        from contracts.hexary_c import ProofNodes
        E.ghost["hex_model"] = True
        return ProofNodes(E)
    hexcls = lambda E: objs.cls_of(E, "trie.hexary", "HexaryTrie")
    _mk(reg, H + "get_from_proof", ["cls", "root_hash", "key", "proof"],
        {"cls": hexcls, "root_hash": lambda E: objs.hash32(E, "root_hash"), "proof": mk_proof_nodes},
        None, nb("key"), name="key-not-bytes")
    _mk(reg, H + "get_from_proof", ["cls", "root_hash", "key", "proof"],
        {"cls": hexcls, "key": "bytes", "proof": mk_proof_nodes},
        None, nb("root_hash"), name="root-not-bytes")

    # the validators themselves
    _mk(reg, "trie.validation:validate_is_bytes", ["value"], {}, None, nb("value"), group="validation")
    def bad_length(E, a):
        return z3.Length(a["value"].t) != a["length"].t
    _mk(reg, "trie.validation:validate_length", ["value", "length"], {"value": "bytes", "length": "int"}, None,
        bad_length, group="validation")
