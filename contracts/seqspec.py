"""Spec predicates over Seq terms that are unfolded structurally by the contracts instead of being quantified.

allnib(s): every element of s is a nibble (0..15).  Defined by  allnib([]) , allnib([c]) <=> 0<=c<=15 ,
allnib(a ++ b) <=> allnib(a) /\\ allnib(b); on any other term it stays an uninterpreted atom.  The unfolding below is
exactly that definition applied to the constructors that occur; `allnib(s) => allnib(s[i:j])` is the one derived
fact used (a slice of a valid sequence is valid)."""
import z3

from pyvc.sym import SeqI, BoolS

allnib = z3.Function("allnib", SeqI, BoolS)


def allnib_of(t, side=None, b2n=None):
    f = _allnib_of_raw(t, side, b2n)
    if side is not None:
        side.append(allnib(z3.simplify(t)) == f)
    return f


def _allnib_of_raw(t, side=None, b2n=None):
    """formula for allnib(t) with constructors unfolded; implications for slices are appended to `side`"""
    t = z3.simplify(t)
    if z3.is_app(t):
        k = t.decl().kind()
        if k == z3.Z3_OP_SEQ_CONCAT:
            return z3.And(*[_allnib_of_raw(a, side, b2n) for a in t.children()])
        if k == z3.Z3_OP_SEQ_UNIT:
            c = t.arg(0)
            return z3.And(c >= 0, c <= 15)
        if k == z3.Z3_OP_SEQ_EMPTY:
            return z3.BoolVal(True)
        if k == z3.Z3_OP_ITE:
            return z3.If(t.arg(0), _allnib_of_raw(t.arg(1), side, b2n), _allnib_of_raw(t.arg(2), side, b2n))
        if k == z3.Z3_OP_SEQ_EXTRACT:
            if side is not None:
                side.append(z3.Implies(_allnib_of_raw(t.arg(0), side, b2n), allnib(t)))
                side.append(z3.Implies(z3.Length(t) == 0, allnib(t)))
            return allnib(t)
        if b2n is not None and t.decl().eq(b2n):
            return z3.BoolVal(True)
    return allnib(t)
