"""Contracts for trie/utils/db.py (ScratchDB) -- property C17, used by C04/C05.

State: W = self.wrapped_db (the wrapped store), C = self.cache (key -> value | DELETED).
Keys are byte strings; values are arbitrary Python values other than the DELETED sentinel."""
import z3

from pyvc import ops
from pyvc.interp import LoopSpec
from pyvc.sym import Obj, DictObj, SSeq, SPy, SBool, ExcObj, PyRaise, PyVal, SeqI, mk_bool, to_pyval
from pyvc.unit import Contract, Case, Is, NOTHING

MOD = "trie.utils.db"


def _cls(E):
    return E.loader.load(MOD).ns["ScratchDB"]


def _deleted(E):
    return E.loader.load(MOD).ns["DELETED"]


def _del_term(E):
    return to_pyval(_deleted(E))


def mk_self(E):
    W = E.fresh_dict("W", "bytes", "py")
    C = E.fresh_dict("C", "bytes", "py")
    o = Obj(_cls(E), {"wrapped_db": W, "cache": C})
    return o, W, C


def live(ctx, C, kt, E):
    """the latest buffered action for kt is a write"""
    return z3.And(z3.Select(ctx.old_has(C), kt), z3.Select(ctx.old_val(C), kt) != _del_term(E))


def setup_key(E):
    o, W, C = mk_self(E)
    return {"self": o, "key": E.fresh_seq("key", "bytes")}


def getitem_cases(E, ctx):
    s = ctx.self
    W, C = s.fields["wrapped_db"], s.fields["cache"]
    kt = ctx.key.t
    lv = live(ctx, C, kt, E)
    inW = z3.Select(ctx.old_has(W), kt)
    return [
        Case("buffered-write", when=mk_bool(lv),
             returns=lambda: SPy(z3.Select(ctx.old_val(C), kt))),
        Case("read-through", when=mk_bool(z3.And(z3.Not(lv), inW)),
             returns=lambda: SPy(z3.Select(ctx.old_val(W), kt))),
        Case("missing", when=mk_bool(z3.And(z3.Not(lv), z3.Not(inW))), raises=KeyError,
             exc=lambda e: [("key", ops.py_eq(e.args[0], ctx.key) if e.args else False)],
             make=lambda: ExcObj(KeyError, (ctx.key,))),
    ]


def contains_cases(E, ctx):
    s = ctx.self
    W, C = s.fields["wrapped_db"], s.fields["cache"]
    kt = ctx.key.t
    want = z3.Or(live(ctx, C, kt, E), z3.Select(ctx.old_has(W), kt))
    return [Case("answer", returns=lambda: mk_bool(want))]


def setup_set(E):
    d = setup_key(E)
    d["value"] = E.fresh_py("value")
    E.assume(mk_bool(d["value"].t != _del_term(E)))
    return d


def setitem_cases(E, ctx):
    C = ctx.self.fields["cache"]
    kt = ctx.key.t

    def post():
        return [("cache-has", mk_bool(C.has == z3.Store(ctx.old_has(C), kt, z3.BoolVal(True)))),
                ("cache-val", mk_bool(C.val == z3.Store(ctx.old_val(C), kt, to_pyval(ctx.value))))]
    return [Case("buffered", returns=lambda: None, post=post, modifies=[C])]


def delitem_cases(E, ctx):
    C = ctx.self.fields["cache"]
    kt = ctx.key.t

    def post():
        return [("cache-has", mk_bool(C.has == z3.Store(ctx.old_has(C), kt, z3.BoolVal(True)))),
                ("cache-val", mk_bool(C.val == z3.Store(ctx.old_val(C), kt, _del_term(E))))]
    return [Case("buffered-delete", returns=lambda: None, post=post, modifies=[C])]


def setup_init(E):
    W = E.fresh_dict("W", "bytes", "py")
    return {"self": Obj(_cls(E), {}), "wrapped_db": W}


def init_cases(E, ctx):
    s = ctx.self

    def post():
        c = s.fields.get("cache")
        empty = isinstance(c, DictObj) and (c.has is None or mk_bool(c.has == z3.K(SeqI, z3.BoolVal(False))))
        return [("wraps-the-argument", s.fields.get("wrapped_db") is ctx.wrapped_db),
                ("cache-empty", empty if isinstance(empty, (bool, SBool)) else bool(empty))]
    return [Case("init", returns=lambda: None, post=post, modifies=[(s, "wrapped_db"), (s, "cache")])]


# ---------------------------------------------------------------------------------------------------
# batch_commit: a context manager.  In unit mode the `with` body is client code: an arbitrary sequence of
# ScratchDB operations (every one of them modifies only the cache, by the contracts above) followed either by
# normal completion or by an exception.

class Boom(Exception):
    """stands for an arbitrary exception raised by the client block"""


def setup_commit(E):
    o, W, C = mk_self(E)
    return {"self": o, "do_deletes": E.fresh_bool("do_deletes")}


def commit_body_model(E, ctx, fn, argv):
    s = ctx.self
    C = s.fields["cache"]
    W = s.fields["wrapped_db"]
    ghost = E.ghost

    def body(_yielded):
        # the client block: any number of __setitem__/__delitem__/reads => the cache is arbitrary, W untouched
        E.havoc_obj(C)
        # buffered values are never the DELETED sentinel written as a value: nothing to assume, DELETED *is*
        # how a delete is recorded
        ghost["C_body"] = (C.has, C.val)
        ghost["W_at_body_end"] = (W.has, W.val, W.writes)
        if E.nondet(2) == 1:
            ghost["raised"] = ExcObj(Boom, ())
            raise PyRaise(ghost["raised"])
        ghost["raised"] = None
        return None
    base = fn
    from pyvc.modules import Wrapped
    while isinstance(base, Wrapped):
        base = base.func
    E.depth = 0
    return E.call_func(base, [s], {"do_deletes": ctx.do_deletes}, yield_cb=body)


def commit_cases(E, ctx):
    s = ctx.self
    W = s.fields["wrapped_db"]
    ghost = E.ghost
    raised = ghost.get("raised")
    Ch, Cv = ghost.get("C_body", (None, None))
    dd = ctx.do_deletes
    ddt = dd.t if isinstance(dd, SBool) else z3.BoolVal(bool(dd))
    dl = _del_term(E)

    def cache_empty():
        c = s.fields.get("cache")
        if not isinstance(c, DictObj):
            return False
        return True if c.has is None else mk_bool(c.has == z3.K(SeqI, z3.BoolVal(False)))

    def post_normal():
        k = z3.Const("k!post", SeqI)
        livek = z3.And(z3.Select(Ch, k), z3.Select(Cv, k) != dl)
        delk = z3.And(z3.Select(Ch, k), z3.Select(Cv, k) == dl)
        has_ok = z3.ForAll([k], z3.Select(W.has, k) == z3.If(livek, z3.BoolVal(True),
                                                             z3.If(z3.And(delk, ddt), z3.BoolVal(False),
                                                                   z3.Select(ctx.old_has(W), k))))
        val_ok = z3.ForAll([k], z3.Implies(livek, z3.Select(W.val, k) == z3.Select(Cv, k)))
        val_keep = z3.ForAll([k], z3.Implies(z3.Not(z3.Select(Ch, k)),
                                             z3.Select(W.val, k) == z3.Select(ctx.old_val(W), k)))
        wb = ghost.get("W_at_body_end")
        untouched = wb is not None and wb[2] == ctx.snap.writes[id(W)] and wb[0] is ctx.old_has(W)
        return [("no-write-while-open", bool(untouched)),
                ("writes-applied-last-wins", mk_bool(val_ok)),
                ("membership", mk_bool(has_ok)),
                ("untouched-keys-keep-value", mk_bool(val_keep)),
                ("buffer-empty", cache_empty())]

    def post_abort():
        return [("buffer-empty", cache_empty())]
    cases = []
    C_client = [o for o in ctx.snap.objs.values() if isinstance(o, DictObj) and o is not W]   # written by the client block
    if raised is None:
        cases.append(Case("commit", returns=lambda: NOTHING, post=post_normal, modifies=[W, (s, "cache")] + C_client))
    else:
        cases.append(Case("abort", raises=Boom, exc=lambda e: [("same-exception", e is raised)],
                          post=post_abort, modifies=[(s, "cache")] + C_client))
    return cases


def commit_inv(E, fr, P):
    s = fr.locals["self"]
    W, C = s.fields["wrapped_db"], s.fields["cache"]
    W0h, W0v = E.ghost["W_at_body_end"][0], E.ghost["W_at_body_end"][1]
    dd = fr.locals["do_deletes"]
    ddt = dd.t if isinstance(dd, SBool) else z3.BoolVal(bool(dd))
    dl = _del_term(E)
    k = z3.Const("k!inv", SeqI)
    done = z3.Select(P, k)
    livek = z3.And(done, z3.Select(C.val, k) != dl)
    delk = z3.And(done, z3.Select(C.val, k) == dl)
    has_ok = z3.ForAll([k], z3.Select(W.has, k) == z3.If(livek, z3.BoolVal(True),
                                                         z3.If(z3.And(delk, ddt), z3.BoolVal(False),
                                                               z3.Select(W0h, k))))
    val_ok = z3.ForAll([k], z3.Select(W.val, k) == z3.If(livek, z3.Select(C.val, k), z3.Select(W0v, k)))
    return [("membership", mk_bool(has_ok)), ("values", mk_bool(val_ok))]


def commit_as_context(E, f, args, kwargs, body_cb):
    """callee view of `with scratch.batch_commit(do_deletes=d): BODY` -- the block runs; if it completes, the
    buffered writes (and, when requested, deletes) are applied to the wrapped store and the buffer is emptied; if it
    raises, the wrapped store is untouched, the buffer is emptied and the exception propagates"""
    s = args[0]
    dd = kwargs.get("do_deletes", args[1] if len(args) > 1 else False)
    W = s.fields["wrapped_db"]
    try:
        body_cb(None)
    except PyRaise:
        s.fields["cache"] = DictObj(None, None, None, None, None, name=E.fresh_name("cache"))
        raise
    C = s.fields["cache"]
    if C.has is not None and E.ghost.get("db_write_faults") and E.nondet(2) == 1:
        # fault model of C04 / C05: a write of the wrapped store raises instead of writing; the writes before it
        # have been applied (a prefix of the buffered writes: the store has only grown / lost requested deletes)
        oldh, oldv = W.has, W.val
        E.havoc_obj(W)
        W.writes += 1
        k = z3.Const(E.fresh_name("k!fault"), SeqI)
        ddt0 = dd.t if isinstance(dd, SBool) else z3.BoolVal(bool(dd))
        E.assume(mk_bool(z3.ForAll([k], z3.Implies(z3.And(z3.Select(oldh, k), z3.Not(ddt0)),
                                                    z3.And(z3.Select(W.has, k), z3.Select(W.val, k) == z3.Select(oldv, k))),
                                   patterns=[z3.Select(W.has, k)])))
        s.fields["cache"] = DictObj(None, None, None, None, None, name=E.fresh_name("cache"))
        E.ghost["commit_failed"] = True
        raise PyRaise(ExcObj(OSError, ("database write failed",)))
    if C.has is not None:
        Ch, Cv = C.has, C.val
        oldh, oldv = W.has, W.val
        E.havoc_obj(W)
        W.writes += 1
        ddt = dd.t if isinstance(dd, SBool) else z3.BoolVal(bool(dd))
        dl = _del_term(E)
        k = z3.Const(E.fresh_name("k!commit"), SeqI)
        livek = z3.And(z3.Select(Ch, k), z3.Select(Cv, k) != dl)
        delk = z3.And(z3.Select(Ch, k), z3.Select(Cv, k) == dl)
        if C.vkind == "py" and W.vkind == "py":
            conv = lambda t: t
        elif C.vkind == "py" and W.vkind == "bytes":
            conv = lambda t: PyVal.pbytes(t)
        else:
            conv = lambda t: t
        E.assume(mk_bool(z3.ForAll([k], z3.Select(W.has, k) == z3.If(livek, z3.BoolVal(True), z3.If(z3.And(delk, ddt), z3.BoolVal(False), z3.Select(oldh, k))),
                                   patterns=[z3.Select(W.has, k)])))
        E.assume(mk_bool(z3.ForAll([k], z3.Select(W.val, k) == z3.If(livek, conv(z3.Select(Cv, k)), z3.Select(oldv, k)),
                                   patterns=[z3.Select(W.val, k)])))
    s.fields["cache"] = DictObj(None, None, None, None, None, name=E.fresh_name("cache"))


def register(reg):
    _register(reg)
    reg.contracts[MOD + ":ScratchDB.batch_commit"].as_context = commit_as_context
    for q, op in (("__getitem__", "getitem"), ("__contains__", "contains"), ("__setitem__", "setitem"),
                  ("__delitem__", "delitem"), ("batch_commit", "commit")):
        c = reg.contracts[MOD + ":ScratchDB." + q]
        c.witness = witness
        c.replay = make_replay(op)


def _register(reg):
    g = "scratchdb"
    reg.add(g, Contract(MOD + ":ScratchDB.__getitem__", ["self", "key"], getitem_cases, setup=setup_key, props=("C17",)))
    reg.add(g, Contract(MOD + ":ScratchDB.__contains__", ["self", "key"], contains_cases, setup=setup_key, props=("C17",)))
    reg.add(g, Contract(MOD + ":ScratchDB.__setitem__", ["self", "key", "value"], setitem_cases, setup=setup_set,
                        props=("C17", "C04")))
    reg.add(g, Contract(MOD + ":ScratchDB.__delitem__", ["self", "key"], delitem_cases, setup=setup_key,
                        props=("C17", "C04")))
    reg.add(g, Contract(MOD + ":ScratchDB.__init__", ["self", "wrapped_db"], init_cases, setup=setup_init, props=("C17",)))
    reg.add(g, Contract(MOD + ":ScratchDB.batch_commit", ["self", "do_deletes"], commit_cases, setup=setup_commit,
                        props=("C17", "C04", "C05"), body_model=commit_body_model,
                        loops={0: LoopSpec(commit_inv, havoc=lambda fr: [fr.locals["self"].fields["wrapped_db"]])}))


# ---------------------------------------------------------------------------------------------------
# counterexample -> concrete replay on the real ScratchDB

def _enc(v):
    if isinstance(v, bytes):
        return {"b": v.hex()}
    if isinstance(v, tuple) and v and v[0] == "<sentinel>":
        return {"deleted": True}
    if isinstance(v, (int, bool)) or v is None:
        return {"v": v}
    return {"v": repr(v)}


def _dec(j, DELETED):
    if "b" in j:
        return bytes.fromhex(j["b"])
    if j.get("deleted"):
        return DELETED
    return j["v"]


def witness(E, ctx, model):
    from pyvc import model as M
    s = ctx.self
    W = s.fields.get("wrapped_db") if "wrapped_db" in ctx.snap.fields.get(id(s), {}) else None
    snapf = ctx.snap.fields.get(id(s), {})
    W, C = snapf.get("wrapped_db"), snapf.get("cache")
    out = {}
    arrays, extra = [], []
    if hasattr(ctx, "key"):
        extra.append(ctx.key.t)
        out["key"] = M.value(model, ctx.key).hex()
    if hasattr(ctx, "value"):
        out["value"] = _enc(M.value(model, ctx.value))
    if hasattr(ctx, "do_deletes"):
        out["do_deletes"] = M.value(model, ctx.do_deletes)
    cb = E.ghost.get("C_body")
    dec = lambda m, t: _enc(M.pyval(m, t))
    if W is not None:
        arrays += [ctx.old_has(W), ctx.old_val(W)]
    if C is not None:
        arrays += [ctx.old_has(C), ctx.old_val(C)]
    if cb is not None:
        arrays += [cb[0], cb[1]]
    keys = M.interesting_keys(model, arrays, extra)
    if W is not None:
        out["W"] = {k.hex(): v for k, v in M.dict_at(model, ctx.old_has(W), ctx.old_val(W), keys, dec).items()}
    if C is not None:
        out["C"] = {k.hex(): v for k, v in M.dict_at(model, ctx.old_has(C), ctx.old_val(C), keys, dec).items()}
    if cb is not None:
        out["C_body"] = {k.hex(): v for k, v in M.dict_at(model, cb[0], cb[1], keys, dec).items()}
        out["raised"] = E.ghost.get("raised") is not None
    return out


def make_replay(op):
    def replay(model, clause):
        w = (model or {}).get("__witness__")
        if not w:
            return None
        from trie.utils.db import ScratchDB, DELETED
        Wd = {bytes.fromhex(k): _dec(v, DELETED) for k, v in w.get("W", {}).items()}
        Cd = {bytes.fromhex(k): _dec(v, DELETED) for k, v in w.get("C", {}).items()}
        before = dict(Wd)
        s = ScratchDB(Wd)
        s.cache = dict(Cd)
        key = bytes.fromhex(w["key"]) if "key" in w else None

        def live(k):
            return k in Cd and Cd[k] is not DELETED
        if op == "getitem":
            want = Cd[key] if live(key) else before.get(key, KeyError)
            try:
                got = s[key]
            except KeyError:
                got = KeyError
            if got != want or Wd != before:
                return "ScratchDB(W=%r, cache=%r)[%r] gave %r, required %r" % (before, Cd, key, got, want)
        elif op == "contains":
            want = live(key) or key in before
            got = key in s
            if got != want:
                return "%r in ScratchDB(W=%r, cache=%r) gave %r, required %r" % (key, before, Cd, got, want)
        elif op in ("setitem", "delitem"):
            if op == "setitem":
                val = _dec(w["value"], DELETED)
                s[key] = val
                Cd[key] = val
            else:
                del s[key]
                Cd[key] = DELETED
            if s.cache != Cd or Wd != before:
                return "after %s(%r): cache=%r wrapped=%r, required cache=%r wrapped=%r" % (op, key, s.cache, Wd, Cd, before)
        elif op == "commit":
            body = {bytes.fromhex(k): _dec(v, DELETED) for k, v in w.get("C_body", {}).items()}
            dd = bool(w.get("do_deletes"))

            class Boom(Exception):
                pass
            try:
                with s.batch_commit(do_deletes=dd):
                    s.cache = dict(body)
                    if w.get("raised"):
                        raise Boom()
                outcome = "normal"
            except Boom:
                outcome = "Boom"
            except Exception as e:
                outcome = "unexpected %r" % (e,)
            want = dict(before)
            if not w.get("raised"):
                for k, v in body.items():
                    if v is not DELETED:
                        want[k] = v
                    elif dd:
                        want.pop(k, None)
            want_outcome = "Boom" if w.get("raised") else "normal"
            if outcome != want_outcome or Wd != want or s.cache != {}:
                return ("batch_commit(do_deletes=%r) over W=%r with buffered %r, block %s: outcome %s, wrapped=%r, "
                        "buffer=%r; required outcome %s, wrapped=%r, buffer={}"
                        % (dd, before, body, "raises" if w.get("raised") else "completes", outcome, Wd, s.cache,
                           want_outcome, want))
        return None
    return replay
