"""Contracts for trie/utils/db.py (ScratchDB) -- property C17, used by C04/C05.

State: W = self.wrapped_db (the wrapped store), C = self.cache (key -> value | DELETED).
Keys are byte strings; values are arbitrary Python values other than the DELETED sentinel."""
import z3

from pyvc import ops
from pyvc.interp import LoopSpec
from pyvc.sym import Obj, DictObj, SSeq, SPy, SBool, ExcObj, PyRaise, PyVal, SeqI, mk_bool, to_pyval
from pyvc.unit import Contract, Case, Is, NOTHING

MOD = "trie.utils.db"


def _cls(E):
    return E.loader.load(MOD).ns["ScratchDB"]


def _deleted(E):
    return E.loader.load(MOD).ns["DELETED"]


def _del_term(E):
    return to_pyval(_deleted(E))


def mk_self(E):
    W = E.fresh_dict("W", "bytes", "py")
    C = E.fresh_dict("C", "bytes", "py")
    o = Obj(_cls(E), {"wrapped_db": W, "cache": C})
    return o, W, C


def live(ctx, C, kt, E):
    """the latest buffered action for kt is a write"""
    return z3.And(z3.Select(ctx.old_has(C), kt), z3.Select(ctx.old_val(C), kt) != _del_term(E))


def setup_key(E):
    o, W, C = mk_self(E)
    return {"self": o, "key": E.fresh_seq("key", "bytes")}


def getitem_cases(E, ctx):
    s = ctx.self
    W, C = s.fields["wrapped_db"], s.fields["cache"]
    kt = ctx.key.t
    lv = live(ctx, C, kt, E)
    inW = z3.Select(ctx.old_has(W), kt)
    return [
        Case("buffered-write", when=mk_bool(lv),
             returns=lambda: SPy(z3.Select(ctx.old_val(C), kt))),
        Case("read-through", when=mk_bool(z3.And(z3.Not(lv), inW)),
             returns=lambda: SPy(z3.Select(ctx.old_val(W), kt))),
        Case("missing", when=mk_bool(z3.And(z3.Not(lv), z3.Not(inW))), raises=KeyError,
             exc=lambda e: [("key", ops.py_eq(e.args[0], ctx.key) if e.args else False)],
             make=lambda: ExcObj(KeyError, (ctx.key,))),
    ]


def contains_cases(E, ctx):
    s = ctx.self
    W, C = s.fields["wrapped_db"], s.fields["cache"]
    kt = ctx.key.t
    want = z3.Or(live(ctx, C, kt, E), z3.Select(ctx.old_has(W), kt))
    return [Case("answer", returns=lambda: mk_bool(want))]


def setup_set(E):
    d = setup_key(E)
    d["value"] = E.fresh_py("value")
    E.assume(mk_bool(d["value"].t != _del_term(E)))
    return d


def setitem_cases(E, ctx):
    C = ctx.self.fields["cache"]
    kt = ctx.key.t

    def post():
        return [("cache-has", mk_bool(C.has == z3.Store(ctx.old_has(C), kt, z3.BoolVal(True)))),
                ("cache-val", mk_bool(C.val == z3.Store(ctx.old_val(C), kt, to_pyval(ctx.value))))]
    return [Case("buffered", returns=lambda: None, post=post, modifies=[C])]


def delitem_cases(E, ctx):
    C = ctx.self.fields["cache"]
    kt = ctx.key.t

    def post():
        return [("cache-has", mk_bool(C.has == z3.Store(ctx.old_has(C), kt, z3.BoolVal(True)))),
                ("cache-val", mk_bool(C.val == z3.Store(ctx.old_val(C), kt, _del_term(E))))]
    return [Case("buffered-delete", returns=lambda: None, post=post, modifies=[C])]


def setup_init(E):
    W = E.fresh_dict("W", "bytes", "py")
    return {"self": Obj(_cls(E), {}), "wrapped_db": W}


def init_cases(E, ctx):
    s = ctx.self

    def post():
        c = s.fields.get("cache")
        empty = isinstance(c, DictObj) and (c.has is None or mk_bool(c.has == z3.K(SeqI, z3.BoolVal(False))))
        return [("wraps-the-argument", s.fields.get("wrapped_db") is ctx.wrapped_db),
                ("cache-empty", empty if isinstance(empty, (bool, SBool)) else bool(empty))]
    return [Case("init", returns=lambda: None, post=post, modifies=[(s, "wrapped_db"), (s, "cache")])]


# ---------------------------------------------------------------------------------------------------
# batch_commit: a context manager.  In unit mode the `with` body is client code: an arbitrary sequence of
# ScratchDB operations (every one of them modifies only the cache, by the contracts above) followed either by
# normal completion or by an exception.

class Boom(Exception):
    """stands for an arbitrary exception raised by the client block"""


def setup_commit(E):
    o, W, C = mk_self(E)
    return {"self": o, "do_deletes": E.fresh_bool("do_deletes")}


def commit_body_model(E, ctx, fn, argv):
    s = ctx.self
    C = s.fields["cache"]
    W = s.fields["wrapped_db"]
    ghost = E.ghost

    def body(_yielded):
        # the client block: any number of __setitem__/__delitem__/reads => the cache is arbitrary, W untouched
        E.havoc_obj(C)
        # buffered values are never the DELETED sentinel written as a value: nothing to assume, DELETED *is*
        # how a delete is recorded
        ghost["C_body"] = (C.has, C.val)
        ghost["W_at_body_end"] = (W.has, W.val, W.writes)
        if E.nondet(2) == 1:
            ghost["raised"] = ExcObj(Boom, ())
            raise PyRaise(ghost["raised"])
        ghost["raised"] = None
        return None
    base = fn
    from pyvc.modules import Wrapped
    while isinstance(base, Wrapped):
        base = base.func
    E.depth = 0
    return E.call_func(base, [s], {"do_deletes": ctx.do_deletes}, yield_cb=body)


def commit_cases(E, ctx):
    s = ctx.self
    W = s.fields["wrapped_db"]
    ghost = E.ghost
    raised = ghost.get("raised")
    Ch, Cv = ghost.get("C_body", (None, None))
    dd = ctx.do_deletes
    ddt = dd.t if isinstance(dd, SBool) else z3.BoolVal(bool(dd))
    dl = _del_term(E)

    def cache_empty():
        c = s.fields.get("cache")
        if not isinstance(c, DictObj):
            return False
        return True if c.has is None else mk_bool(c.has == z3.K(SeqI, z3.BoolVal(False)))

    def post_normal():
        k = z3.Const("k!post", SeqI)
        livek = z3.And(z3.Select(Ch, k), z3.Select(Cv, k) != dl)
        delk = z3.And(z3.Select(Ch, k), z3.Select(Cv, k) == dl)
        has_ok = z3.ForAll([k], z3.Select(W.has, k) == z3.If(livek, z3.BoolVal(True),
                                                             z3.If(z3.And(delk, ddt), z3.BoolVal(False),
                                                                   z3.Select(ctx.old_has(W), k))))
        val_ok = z3.ForAll([k], z3.Implies(livek, z3.Select(W.val, k) == z3.Select(Cv, k)))
        val_keep = z3.ForAll([k], z3.Implies(z3.Not(z3.Select(Ch, k)),
                                             z3.Select(W.val, k) == z3.Select(ctx.old_val(W), k)))
        wb = ghost.get("W_at_body_end")
        untouched = wb is not None and wb[2] == ctx.snap.writes[id(W)] and wb[0] is ctx.old_has(W)
        return [("no-write-while-open", bool(untouched)),
                ("writes-applied-last-wins", mk_bool(val_ok)),
                ("membership", mk_bool(has_ok)),
                ("untouched-keys-keep-value", mk_bool(val_keep)),
                ("buffer-empty", cache_empty())]

    def post_abort():
        return [("buffer-empty", cache_empty())]
    cases = []
    C_client = [o for o in ctx.snap.objs.values() if isinstance(o, DictObj) and o is not W]   # written by the client block
    if raised is None:
        cases.append(Case("commit", returns=lambda: NOTHING, post=post_normal, modifies=[W, (s, "cache")] + C_client))
    else:
        cases.append(Case("abort", raises=Boom, exc=lambda e: [("same-exception", e is raised)],
                          post=post_abort, modifies=[(s, "cache")] + C_client))
    return cases


def commit_inv(E, fr, P):
    s = fr.locals["self"]
    W, C = s.fields["wrapped_db"], s.fields["cache"]
    W0h, W0v = E.ghost["W_at_body_end"][0], E.ghost["W_at_body_end"][1]
    dd = fr.locals["do_deletes"]
    ddt = dd.t if isinstance(dd, SBool) else z3.BoolVal(bool(dd))
    dl = _del_term(E)
    k = z3.Const("k!inv", SeqI)
    done = z3.Select(P, k)
    livek = z3.And(done, z3.Select(C.val, k) != dl)
    delk = z3.And(done, z3.Select(C.val, k) == dl)
    has_ok = z3.ForAll([k], z3.Select(W.has, k) == z3.If(livek, z3.BoolVal(True),
                                                         z3.If(z3.And(delk, ddt), z3.BoolVal(False),
                                                               z3.Select(W0h, k))))
    val_ok = z3.ForAll([k], z3.Select(W.val, k) == z3.If(livek, z3.Select(C.val, k), z3.Select(W0v, k)))
    return [("membership", mk_bool(has_ok)), ("values", mk_bool(val_ok))]


def register(reg):
    g = "scratchdb"
    reg.add(g, Contract(MOD + ":ScratchDB.__getitem__", ["self", "key"], getitem_cases, setup=setup_key, props=("C17",)))
    reg.add(g, Contract(MOD + ":ScratchDB.__contains__", ["self", "key"], contains_cases, setup=setup_key, props=("C17",)))
    reg.add(g, Contract(MOD + ":ScratchDB.__setitem__", ["self", "key", "value"], setitem_cases, setup=setup_set,
                        props=("C17", "C04")))
    reg.add(g, Contract(MOD + ":ScratchDB.__delitem__", ["self", "key"], delitem_cases, setup=setup_key,
                        props=("C17", "C04")))
    reg.add(g, Contract(MOD + ":ScratchDB.__init__", ["self", "wrapped_db"], init_cases, setup=setup_init, props=("C17",)))
    reg.add(g, Contract(MOD + ":ScratchDB.batch_commit", ["self", "do_deletes"], commit_cases, setup=setup_commit,
                        props=("C17", "C04", "C05"), body_model=commit_body_model,
                        loops={0: LoopSpec(commit_inv, havoc=lambda fr: [fr.locals["self"].fields["wrapped_db"]])}))
