"""Small lemmas of sequence theory, proved once each (both solvers do them in milliseconds in isolation) and used
as *instances* inside larger obligations, where the same solvers fail to find them by themselves."""
import z3

from pyvc.sym import SeqI, mk_bool
from pyvc.unit import Lemma


def tail(k, n):
    return z3.simplify(z3.Extract(k, n, z3.Length(k) - n))


def prefix_cons(a, b):
    return z3.Implies(z3.And(z3.Length(a) > 0, z3.Length(b) > 0, a[0] == b[0]),
                      z3.PrefixOf(a, b) == z3.PrefixOf(tail(a, 1), tail(b, 1)))


def prefix_head_differs(a, b):
    return z3.And(z3.Implies(z3.And(z3.Length(a) > 0, z3.Length(b) > 0, a[0] != b[0]), z3.Not(z3.PrefixOf(a, b))),
                  z3.Implies(z3.And(z3.Length(a) > 0, z3.Length(b) == 0), z3.Not(z3.PrefixOf(a, b))),
                  z3.Implies(z3.Length(a) == 0, z3.PrefixOf(a, b)))


def prefix_strip(p, a, b):
    return z3.Implies(z3.And(z3.PrefixOf(p, a), z3.PrefixOf(p, b)),
                      z3.PrefixOf(a, b) == z3.PrefixOf(tail(a, z3.Length(p)), tail(b, z3.Length(p))))


def prefix_excl(p, a, b):
    return z3.Implies(z3.And(z3.PrefixOf(p, a), z3.Not(z3.PrefixOf(p, b))), z3.Not(z3.PrefixOf(a, b)))


def prefix_trans(p, a, b):
    """a prefix of b and p prefix of a => p prefix of b;  b starts with a, a at least as long as p, p prefix of b
    => p prefix of a"""
    return z3.And(z3.Implies(z3.And(z3.PrefixOf(a, b), z3.PrefixOf(p, a)), z3.PrefixOf(p, b)),
                  z3.Implies(z3.And(z3.PrefixOf(a, b), z3.PrefixOf(p, b), z3.Length(p) <= z3.Length(a)), z3.PrefixOf(p, a)))


def eq_cons(a, b):
    return z3.Implies(z3.And(z3.Length(a) > 0, z3.Length(b) > 0),
                      (a == b) == z3.And(a[0] == b[0], tail(a, 1) == tail(b, 1)))


def eq_strip(p, a, b):
    return z3.Implies(z3.And(z3.PrefixOf(p, a), z3.PrefixOf(p, b)),
                      (a == b) == (tail(a, z3.Length(p)) == tail(b, z3.Length(p))))


def prefix_is_slice(p, a):
    return z3.PrefixOf(p, a) == z3.And(z3.Length(p) <= z3.Length(a), z3.Extract(a, 0, z3.Length(p)) == p)


def code_slice_eq(p, a):
    """a[:len(p)] == p exactly as the interpreter builds it for the Python expression (with slice clamping)"""
    from pyvc import ops
    from pyvc.sym import SSeq, mk_int
    return ops.seq_slice(SSeq(a, "bytes", "int"), None, mk_int(z3.Length(p))).t == p


def prefix_is_code_slice(p, a):
    return z3.PrefixOf(p, a) == code_slice_eq(p, a)


ALL = {
    "prefix_cons": (prefix_cons, 2), "prefix_head_differs": (prefix_head_differs, 2), "prefix_strip": (prefix_strip, 3),
    "prefix_excl": (prefix_excl, 3), "prefix_trans": (prefix_trans, 3), "eq_cons": (eq_cons, 2), "eq_strip": (eq_strip, 3),
    "prefix_is_slice": (prefix_is_slice, 2), "prefix_is_code_slice": (prefix_is_code_slice, 2),
}


def use(E, name, *terms):
    """add the instance of a proved lemma at the given terms"""
    fn, n = ALL[name]
    E.assume(mk_bool(z3.simplify(fn(*[z3.simplify(t) for t in terms]))))


def key_pair_facts(E, k, q, path=None):
    """everything the view obligations need to relate two keys k and q walking down the same node"""
    done = E.ghost.setdefault("key_pair_facts", [])
    sig = (k.get_id(), q.get_id(), path.get_id() if path is not None else 0)
    if sig in done:
        return
    done.append(sig)
    for (a, b) in ((k, q), (q, k)):
        use(E, "prefix_cons", a, b)
        use(E, "prefix_head_differs", a, b)
    use(E, "eq_cons", k, q)
    if path is not None:
        for (a, b) in ((k, q), (q, k)):
            use(E, "prefix_strip", path, a, b)
            use(E, "prefix_excl", path, a, b)
            use(E, "prefix_trans", path, a, b)
        use(E, "eq_strip", path, k, q)
        for x in (k, q):
            use(E, "prefix_is_slice", path, x)
            use(E, "prefix_is_code_slice", path, x)


def register(reg):
    def mk(name):
        fn, n = ALL[name]

        def run(E):
            cs = [z3.Const("%s!%d" % (name, i), SeqI) for i in range(n)]
            E.prove("seq/" + name, mk_bool(fn(*cs)), kind="lemma")
        return run
    for name in ALL:
        reg.add_lemma("seqlemmas", Lemma("lemma:seq/" + name, ("C12", "C13", "C01", "C08"), mk(name)))
