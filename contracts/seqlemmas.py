"""Small lemmas of sequence theory, proved once each (both solvers do them in milliseconds in isolation) and used
as *instances* inside larger obligations, where the same solvers fail to find them by themselves."""
import z3

from pyvc.sym import SeqI, mk_bool
from pyvc.unit import Lemma


def tail(k, n):
    return z3.simplify(z3.Extract(k, n, z3.Length(k) - n))


def prefix_cons(a, b):
    return z3.Implies(z3.And(z3.Length(a) > 0, z3.Length(b) > 0, a[0] == b[0]),
                      z3.PrefixOf(a, b) == z3.PrefixOf(tail(a, 1), tail(b, 1)))


def prefix_head_differs(a, b):
    return z3.And(z3.Implies(z3.And(z3.Length(a) > 0, z3.Length(b) > 0, a[0] != b[0]), z3.Not(z3.PrefixOf(a, b))),
                  z3.Implies(z3.And(z3.Length(a) > 0, z3.Length(b) == 0), z3.Not(z3.PrefixOf(a, b))),
                  z3.Implies(z3.Length(a) == 0, z3.PrefixOf(a, b)))


def prefix_strip(p, a, b):
    return z3.Implies(z3.And(z3.PrefixOf(p, a), z3.PrefixOf(p, b)),
                      z3.PrefixOf(a, b) == z3.PrefixOf(tail(a, z3.Length(p)), tail(b, z3.Length(p))))


def prefix_excl(p, a, b):
    return z3.Implies(z3.And(z3.PrefixOf(p, a), z3.Not(z3.PrefixOf(p, b))), z3.Not(z3.PrefixOf(a, b)))


def prefix_trans(p, a, b):
    """a prefix of b and p prefix of a => p prefix of b;  b starts with a, a at least as long as p, p prefix of b
    => p prefix of a"""
    return z3.And(z3.Implies(z3.And(z3.PrefixOf(a, b), z3.PrefixOf(p, a)), z3.PrefixOf(p, b)),
                  z3.Implies(z3.And(z3.PrefixOf(a, b), z3.PrefixOf(p, b), z3.Length(p) <= z3.Length(a)), z3.PrefixOf(p, a)))


def eq_cons(a, b):
    return z3.Implies(z3.And(z3.Length(a) > 0, z3.Length(b) > 0),
                      (a == b) == z3.And(a[0] == b[0], tail(a, 1) == tail(b, 1)))


def eq_strip(p, a, b):
    return z3.Implies(z3.And(z3.PrefixOf(p, a), z3.PrefixOf(p, b)),
                      (a == b) == (tail(a, z3.Length(p)) == tail(b, z3.Length(p))))


def prefix_is_slice(p, a):
    return z3.PrefixOf(p, a) == z3.And(z3.Length(p) <= z3.Length(a), z3.Extract(a, 0, z3.Length(p)) == p)


def split3(s, r):
    """a sequence is what precedes position r, the element at r, and what follows"""
    return z3.Implies(z3.And(r >= 0, r < z3.Length(s)),
                      z3.And(s == z3.Concat(z3.Extract(s, 0, r), z3.Unit(s[r]), tail(s, r + 1)),
                             z3.Length(z3.Extract(s, 0, r)) == r, z3.Length(tail(s, r + 1)) == z3.Length(s) - r - 1))


def split2(s, r):
    return z3.Implies(z3.And(r >= 0, r <= z3.Length(s)),
                      z3.And(s == z3.Concat(z3.Extract(s, 0, r), tail(s, r)), z3.Length(z3.Extract(s, 0, r)) == r,
                             z3.Length(tail(s, r)) == z3.Length(s) - r))


def tail_tail(s, a, b):
    return z3.Implies(z3.And(a >= 0, b >= 0, a + b <= z3.Length(s)), tail(tail(s, a), b) == tail(s, a + b))


def prefix_concat(p, x, s):
    """s starts with p ++ x  iff  s starts with p and the rest starts with x"""
    return z3.PrefixOf(z3.Concat(p, x), s) == z3.And(z3.PrefixOf(p, s), z3.PrefixOf(x, tail(s, z3.Length(p))))


def prefix_unit(c, s):
    return z3.PrefixOf(z3.Unit(c), s) == z3.And(z3.Length(s) > 0, s[0] == c)


def eq_concat(p, x, s):
    return (s == z3.Concat(p, x)) == z3.And(z3.PrefixOf(p, s), tail(s, z3.Length(p)) == x)


def slice_slice(s, m, r):
    """a prefix of a prefix, and an element of a prefix"""
    return z3.Implies(z3.And(r >= 0, r <= m, m <= z3.Length(s)),
                      z3.And(z3.Extract(z3.Extract(s, 0, m), 0, r) == z3.Extract(s, 0, r),
                             z3.Implies(r < m, z3.Extract(s, 0, m)[r] == s[r])))


def prefix_nth(p, s, i):
    return z3.Implies(z3.And(z3.PrefixOf(p, s), i >= 0, i < z3.Length(p)), p[i] == s[i])


def code_slice_props(s, n):
    """s[:n] as the interpreter builds it (clamped) is a prefix of s of length min(n, len s), for n >= 0"""
    from pyvc import ops
    from pyvc.sym import SSeq, mk_int
    sl = ops.seq_slice(SSeq(s, "bytes", "int"), None, mk_int(n)).t
    return z3.Implies(n >= 0, z3.And(z3.PrefixOf(sl, s), z3.Length(sl) == z3.If(n < z3.Length(s), n, z3.Length(s))))


def lcp_prefix(p, k, r):
    """what the length r of the longest common prefix says about prefix relations"""
    mn = z3.If(z3.Length(p) < z3.Length(k), z3.Length(p), z3.Length(k))
    hyp = z3.And(r >= 0, r <= mn, z3.Extract(p, 0, r) == z3.Extract(k, 0, r), z3.Implies(r < mn, p[r] != k[r]))
    return z3.Implies(hyp, z3.And((r == z3.Length(p)) == z3.PrefixOf(p, k), (r == z3.Length(k)) == z3.PrefixOf(k, p)))


def tail_concat(a, b, n):
    return z3.Implies(z3.And(n >= 0, n <= z3.Length(a)), tail(z3.Concat(a, b), n) == z3.Concat(tail(a, n), b))


def nth_concat(a, b):
    return z3.Implies(z3.Length(a) > 0, z3.Concat(a, b)[0] == a[0])


def prefix_concat_left(p, a, b):
    """p <= a  =>  p <= a ++ b ;   and if p is not a prefix of a but no longer than a, it is no prefix of a ++ b"""
    return z3.And(z3.Implies(z3.PrefixOf(p, a), z3.PrefixOf(p, z3.Concat(a, b))),
                  z3.Implies(z3.And(z3.Not(z3.PrefixOf(p, a)), z3.Length(p) <= z3.Length(a)),
                             z3.Not(z3.PrefixOf(p, z3.Concat(a, b)))))


def eq_concat_prefix(a, b, p):
    """a ++ b == p  =>  a is a prefix of p"""
    return z3.Implies(z3.Concat(a, b) == p, z3.PrefixOf(a, p))


def proper_prefix_blocks(a, b, p):
    """if a is a proper prefix of p then p is not a prefix of a ++ b unless ...: p <= a ++ b with |a| < |p| needs
    the rest of p to start b; the only use is: a ++ b == p => a <= p, and  p <= a => |p| <= |a|"""
    return z3.Implies(z3.PrefixOf(p, a), z3.Length(p) <= z3.Length(a))


def prefix_antisym(a, b):
    return z3.Implies(z3.And(z3.PrefixOf(a, b), z3.PrefixOf(b, a)), a == b)


def suffix_tail(K, rem, n):
    """a tail of a suffix of K is a suffix of K"""
    suf = lambda r: z3.And(z3.Length(r) <= z3.Length(K), tail(K, z3.Length(K) - z3.Length(r)) == r)
    return z3.Implies(z3.And(suf(rem), n >= 0, n <= z3.Length(rem)), suf(tail(rem, n)))


def concat_empty(a, b):
    return z3.Implies(z3.Length(a) == 0, z3.Concat(a, b) == b)


def code_slice_eq(p, a):
    """a[:len(p)] == p exactly as the interpreter builds it for the Python expression (with slice clamping)"""
    from pyvc import ops
    from pyvc.sym import SSeq, mk_int
    return ops.seq_slice(SSeq(a, "bytes", "int"), None, mk_int(z3.Length(p))).t == p


def prefix_is_code_slice(p, a):
    return z3.PrefixOf(p, a) == code_slice_eq(p, a)


ALL = {
    "prefix_cons": (prefix_cons, 2), "prefix_head_differs": (prefix_head_differs, 2), "prefix_strip": (prefix_strip, 3),
    "prefix_excl": (prefix_excl, 3), "prefix_trans": (prefix_trans, 3), "eq_cons": (eq_cons, 2), "eq_strip": (eq_strip, 3),
    "prefix_is_slice": (prefix_is_slice, 2), "prefix_is_code_slice": (prefix_is_code_slice, 2),
    "split3": (split3, "si"), "split2": (split2, "si"), "tail_tail": (tail_tail, "sii"),
    "concat_empty": (concat_empty, 2), "suffix_tail": (suffix_tail, "ssi"), "prefix_antisym": (prefix_antisym, 2), "lcp_prefix": (lcp_prefix, "ssi"), "tail_concat": (tail_concat, "ssi"), "nth_concat": (nth_concat, 2),
    "prefix_concat_left": (prefix_concat_left, 3), "eq_concat_prefix": (eq_concat_prefix, 3),
    "proper_prefix_blocks": (proper_prefix_blocks, 3),
    "slice_slice": (slice_slice, "sii"), "prefix_nth": (prefix_nth, "ssi"), "code_slice_props": (code_slice_props, "si"), "prefix_concat": (prefix_concat, 3), "prefix_unit": (prefix_unit, "is"), "eq_concat": (eq_concat, 3),
}


def use(E, name, *terms):
    """add the instance of a proved lemma at the given terms"""
    fn, n = ALL[name]
    E.assume(mk_bool(z3.simplify(fn(*[z3.simplify(t) for t in terms]))))


def key_pair_facts(E, k, q, path=None):
    """everything the view obligations need to relate two keys k and q walking down the same node"""
    done = E.ghost.setdefault("key_pair_facts", [])
    sig = (k.get_id(), q.get_id(), path.get_id() if path is not None else 0)
    if sig in done:
        return
    done.append(sig)
    for (a, b) in ((k, q), (q, k)):
        use(E, "prefix_cons", a, b)
        use(E, "prefix_head_differs", a, b)
    use(E, "eq_cons", k, q)
    if path is not None:
        for (a, b) in ((k, q), (q, k)):
            use(E, "prefix_strip", path, a, b)
            use(E, "prefix_excl", path, a, b)
            use(E, "prefix_trans", path, a, b)
        use(E, "eq_strip", path, k, q)
        for x in (k, q):
            use(E, "prefix_is_slice", path, x)
            use(E, "prefix_is_code_slice", path, x)


def split_point_facts(E, P, K, Q, r, Kp=None):
    """instances that let the solver reason about three keys around a divergence index r of P and K"""
    r = z3.simplify(r)
    for s_ in (P, K, Q):
        use(E, "split3", s_, r)
        use(E, "split2", s_, r)
        use(E, "tail_tail", s_, r, z3.IntVal(1))
    pre_p, pre_k = z3.simplify(z3.Extract(P, 0, r)), z3.simplify(z3.Extract(K, 0, r))
    tp, tk, tq = tail(P, r + 1), tail(K, r + 1), tail(Q, r + 1)
    # P <= Q and K == Q through the split
    for (X, pre, tx) in ((P, pre_p, tp), (K, pre_k, tk)):
        use(E, "prefix_concat", pre, z3.Concat(z3.Unit(X[r]), tx), Q)
        use(E, "prefix_concat", z3.Unit(X[r]), tx, tail(Q, r))
        use(E, "prefix_unit", X[r], tail(Q, r))
        use(E, "eq_concat", pre, z3.Concat(z3.Unit(X[r]), tx), Q)
        use(E, "eq_concat", z3.Unit(X[r]), tx, tail(Q, r))
        use(E, "prefix_is_code_slice", tx, tq)
        use(E, "prefix_is_code_slice", pre, Q)
        use(E, "prefix_is_code_slice", X, Q)
    use(E, "tail_tail", Q, r + 1, z3.Length(tp))
    use(E, "tail_tail", Q, r + 1, z3.Length(tk))
    E.assume(mk_bool(z3.simplify(z3.Implies(z3.And(r >= 0, r < z3.Length(Q)), tail(Q, r)[0] == Q[r]))))
    if Kp is not None:
        use(E, "slice_slice", K, z3.Length(Kp), r)
        use(E, "code_slice_props", K, z3.Length(P))
        use(E, "prefix_nth", Kp, K, r)


def register(reg):
    def mk(name):
        fn, n = ALL[name]

        def run(E):
            if isinstance(n, str):
                cs = [z3.Const("%s!%d" % (name, i), SeqI) if ch == "s" else z3.Int("%s!%d" % (name, i))
                      for i, ch in enumerate(n)]
            else:
                cs = [z3.Const("%s!%d" % (name, i), SeqI) for i in range(n)]
            E.prove("seq/" + name, mk_bool(fn(*cs)), kind="lemma")
        return run
    for name in ALL:
        reg.add_lemma("seqlemmas", Lemma("lemma:seq/" + name, ("C12", "C13", "C01", "C08"), mk(name)))
