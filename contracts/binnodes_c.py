"""Contracts for the binary-trie node encodings in trie/utils/nodes.py -- property C16, used by C12/C13."""
import z3

from pyvc import ops
from pyvc.sym import SSeq, SPy, SBool, PyVal, SeqI, mk_bool, to_pyval, PyRaise
from pyvc.unit import Contract, Case, Lemma, find_function
from contracts import objs
from contracts.binaries_c import KPE, KPD, kp_ok, allbit, allbit_of

MOD = "trie.utils.nodes"


def vt(E):
    return objs.exc(E, "ValidationError")


def inv_node(E):
    return objs.exc(E, "InvalidNode")


def pv(v):
    return to_pyval(v)


def is_bytes(v):
    return PyVal.is_PBytes(pv(v))


def pb(v):
    return PyVal.pbytes(pv(v))


# encode_leaf_node ---------------------------------------------------------------------------------
def leaf_setup(E):
    return {"value": E.fresh_py("value")}


def leaf_cases(E, ctx):
    if _adt(E, ctx):
        return leaf_cases_adt(E, ctx)
    v = ctx.value
    ok = z3.And(is_bytes(v), z3.Length(pb(v)) > 0)
    return [Case("not-bytes", when=mk_bool(z3.Not(is_bytes(v))), raises=vt(E)),
            Case("empty", when=mk_bool(z3.And(is_bytes(v), z3.Length(pb(v)) == 0)), raises=vt(E)),
            Case("encoded", when=mk_bool(ok),
                 returns=lambda: SSeq(z3.simplify(z3.Concat(z3.Unit(z3.IntVal(2)), pb(v))), "bytes", "int"))]


# encode_branch_node -------------------------------------------------------------------------------
def branch_setup(E):
    return {"left_child_node_hash": E.fresh_py("left"), "right_child_node_hash": E.fresh_py("right")}


def h32(v):
    return z3.And(is_bytes(v), z3.Length(pb(v)) == 32)


def branch_cases(E, ctx):
    if _adt(E, ctx):
        return branch_cases_adt(E, ctx)
    l, r = ctx.left_child_node_hash, ctx.right_child_node_hash
    ok = z3.And(h32(l), h32(r))
    return [Case("refused", when=mk_bool(z3.Not(ok)), raises=vt(E)),
            Case("encoded", when=mk_bool(ok),
                 returns=lambda: SSeq(z3.simplify(z3.Concat(z3.Unit(z3.IntVal(1)), pb(l), pb(r))), "bytes", "int"))]


# encode_kv_node -----------------------------------------------------------------------------------
def kv_setup(E):
    kp = E.fresh_py("keypath")
    # a key path handed to the encoder is a bit string (the callers pass encode_to_bin output and slices of it)
    E.assume(mk_bool(z3.Implies(is_bytes(kp), allbit(pb(kp)))))
    return {"keypath": kp, "child_node_hash": E.fresh_py("child")}


def kv_requires(E, ctx):
    kp = ctx.keypath
    side = []
    ok = allbit_of(pb(kp), side)
    for f in side:
        E.assume(mk_bool(f))
    return [("keypath-is-a-bit-string", mk_bool(z3.Implies(is_bytes(kp), ok)))]


def kv_cases(E, ctx):
    if _adt(E, ctx):
        return kv_cases_adt(E, ctx)
    kp, ch = ctx.keypath, ctx.child_node_hash
    ok = z3.And(is_bytes(kp), z3.Length(pb(kp)) > 0, h32(ch))

    def ret():
        e = KPE(pb(kp))
        E.assume(mk_bool(z3.And(kp_ok(e), KPD(e) == pb(kp), z3.Length(e) >= 1)))     # lemma keypath_roundtrip
        return SSeq(z3.simplify(z3.Concat(z3.Unit(z3.IntVal(0)), e, pb(ch))), "bytes", "int")
    return [Case("refused", when=mk_bool(z3.Not(ok)), raises=vt(E)),
            Case("encoded", when=mk_bool(ok), returns=ret)]


# parse_node ---------------------------------------------------------------------------------------
def parse_setup(E):
    return {"node": E.fresh_py("node")}


def parse_cases(E, ctx):
    if _adt(E, ctx):
        return parse_cases_adt(E, ctx)
    n = ctx.node
    t = pv(n)
    b = pb(n)
    ln = z3.Length(b)
    none_or_empty = z3.Or(PyVal.is_PNone(t), z3.And(PyVal.is_PBytes(t), ln == 0))
    isb = z3.And(PyVal.is_PBytes(t), ln > 0)
    ty = b[0]
    keyenc = z3.Extract(b, 1, ln - 33)
    child = z3.Extract(b, ln - 32, 32)
    cases = [
        Case("blank", when=mk_bool(none_or_empty), raises=inv_node(E)),
        Case("branch-bad-length", when=mk_bool(z3.And(isb, ty == 1, ln != 65)), raises=inv_node(E)),
        Case("branch", when=mk_bool(z3.And(isb, ty == 1, ln == 65)),
             returns=lambda: (1, SSeq(z3.Extract(b, 1, 32), "bytes"), SSeq(z3.Extract(b, 33, 32), "bytes"))),
        Case("kv-too-short", when=mk_bool(z3.And(isb, ty == 0, ln <= 33)), raises=inv_node(E)),
        Case("kv", when=mk_bool(z3.And(isb, ty == 0, ln > 33, kp_ok(keyenc))),
             returns=lambda: (0, SSeq(KPD(keyenc), "bytes", "int", rng=(0, 1)), SSeq(child, "bytes"))),
        Case("kv-malformed-keypath", when=mk_bool(z3.And(isb, ty == 0, ln > 33, z3.Not(kp_ok(keyenc)))), raises=Exception),
        Case("leaf-empty", when=mk_bool(z3.And(isb, ty == 2, ln == 1)), raises=inv_node(E)),
        Case("leaf", when=mk_bool(z3.And(isb, ty == 2, ln > 1)),
             returns=lambda: (2, None, SSeq(z3.Extract(b, 1, ln - 1), "bytes"))),
        Case("unknown-type", when=mk_bool(z3.And(isb, ty != 0, ty != 1, ty != 2)), raises=inv_node(E)),
    ]
    return cases


def parse_requires(E, ctx):
    # callers pass byte strings or None
    return [("bytes-or-none", mk_bool(z3.Or(PyVal.is_PNone(pv(ctx.node)), PyVal.is_PBytes(pv(ctx.node)))))]


# ---------------------------------------------------------------------------------------------------
# datatype view of the same four functions (used by the trie-level units; see contracts/binmodel.py)

def _adt(E, ctx):
    return bool(E.ghost.get("adt_nodes")) and not hasattr(ctx, "outcome")


def _bytes_term(v):
    return ops.seq_term_as(v, "int")


def leaf_cases_adt(E, ctx):
    from contracts import binmodel as BM
    v = _bytes_term(ctx.value)

    def ret():
        e = z3.Const(E.fresh_name("enc_leaf"), SeqI)
        E.assume(mk_bool(z3.And(BM.dec(e) == BM.BNode.BLeaf(v), z3.Length(e) >= 2)))
        E.ghost.setdefault("encoded", {})[e.get_id()] = ("leaf", v)
        return SSeq(e, "bytes", "int")
    return [Case("empty", when=mk_bool(z3.Length(v) == 0), raises=vt(E)),
            Case("encoded", when=mk_bool(z3.Length(v) > 0), returns=ret)]


def branch_cases_adt(E, ctx):
    from contracts import binmodel as BM
    l, r = _bytes_term(ctx.left_child_node_hash), _bytes_term(ctx.right_child_node_hash)
    ok = z3.And(z3.Length(l) == 32, z3.Length(r) == 32)

    def ret():
        e = z3.Const(E.fresh_name("enc_branch"), SeqI)
        E.assume(mk_bool(z3.And(BM.dec(e) == BM.BNode.BBranch(l, r), z3.Length(e) == 65)))
        E.ghost.setdefault("encoded", {})[e.get_id()] = ("branch", l, r)
        return SSeq(e, "bytes", "int")
    return [Case("refused", when=mk_bool(z3.Not(ok)), raises=vt(E)),
            Case("encoded", when=mk_bool(ok), returns=ret)]


def kv_cases_adt(E, ctx):
    from contracts import binmodel as BM
    p, c = _bytes_term(ctx.keypath), _bytes_term(ctx.child_node_hash)
    ok = z3.And(z3.Length(p) > 0, z3.Length(c) == 32)

    def ret():
        e = z3.Const(E.fresh_name("enc_kv"), SeqI)
        E.assume(mk_bool(z3.And(BM.dec(e) == BM.BNode.BKV(p, c), z3.Length(e) >= 34)))
        E.ghost.setdefault("encoded", {})[e.get_id()] = ("kv", p, c)
        return SSeq(e, "bytes", "int")
    return [Case("refused", when=mk_bool(z3.Not(ok)), raises=vt(E)),
            Case("encoded", when=mk_bool(ok), returns=ret)]


def parse_cases_adt(E, ctx):
    from contracts import binmodel as BM
    if ctx.node is None:
        return [Case("blank", raises=inv_node(E))]
    n = _bytes_term(ctx.node)
    D = BM.dec(n)
    N = BM.BNode
    return [Case("branch", when=mk_bool(N.is_BBranch(D)),
                 returns=lambda: (1, SSeq(N.bleft(D), "bytes"), SSeq(N.bright(D), "bytes"))),
            Case("kv", when=mk_bool(N.is_BKV(D)),
                 returns=lambda: (0, SSeq(N.bpath(D), "bytes", "int", rng=(0, 1)), SSeq(N.bchild(D), "bytes"))),
            Case("leaf", when=mk_bool(N.is_BLeaf(D)), returns=lambda: (2, None, SSeq(N.bval(D), "bytes"))),
            Case("not-a-node", when=mk_bool(N.is_BBad(D)), raises=Exception)]


def lemma_dec_of_encodings(E):
    """dec(encode_x_node(args)) = X(args): from the definition of dec and the byte-level contracts of the encoders"""
    from contracts import binmodel as BM
    enc_kv = find_function(E.loader, MOD + ":encode_kv_node")
    enc_br = find_function(E.loader, MOD + ":encode_branch_node")
    enc_lf = find_function(E.loader, MOD + ":encode_leaf_node")
    which = E.nondet(3)
    N = BM.BNode
    if which == 0:
        p = E.fresh_seq("p", "bytes")
        p.rng = (0, 1)
        E.assume(mk_bool(z3.And(allbit(p.t), z3.Length(p.t) > 0)))
        h = objs.hash32(E, "h")
        e = E.call(enc_kv, [p, h]).t
        E.assume(mk_bool(BM.dec(e) == BM.dec_definition(e)))        # reveal the definition at e
        E.prove("dec_of_encodings/kv", mk_bool(BM.dec(e) == N.BKV(p.t, h.t)), kind="lemma")
    elif which == 1:
        l, r = objs.hash32(E, "l"), objs.hash32(E, "r")
        e = E.call(enc_br, [l, r]).t
        E.assume(mk_bool(BM.dec(e) == BM.dec_definition(e)))
        E.prove("dec_of_encodings/branch", mk_bool(BM.dec(e) == N.BBranch(l.t, r.t)), kind="lemma")
    else:
        v = E.fresh_seq("v", "bytes")
        E.assume(mk_bool(z3.Length(v.t) > 0))
        e = E.call(enc_lf, [v]).t
        E.assume(mk_bool(BM.dec(e) == BM.dec_definition(e)))
        E.prove("dec_of_encodings/leaf", mk_bool(BM.dec(e) == N.BLeaf(v.t)), kind="lemma")


def lemma_parse_is_dec(E):
    """parse_node(n) returns the components of dec(n) (and raises exactly when dec(n) is BBad): the byte-level
    contract of parse_node against the definition of dec"""
    from contracts import binmodel as BM
    parse = find_function(E.loader, MOD + ":parse_node")
    n = E.fresh_seq("n", "bytes")
    E.assume(mk_bool(BM.dec(n.t) == BM.dec_definition(n.t)))
    N = BM.BNode
    D = BM.dec(n.t)
    try:
        got = E.call(parse, [n])
    except PyRaise:
        E.prove("parse_is_dec/raises-only-on-bad", mk_bool(N.is_BBad(D)), kind="lemma")
        return
    ty, a, b = got
    if ty == 1:
        E.prove("parse_is_dec/branch", mk_bool(D == N.BBranch(a.t, b.t)), kind="lemma")
    elif ty == 0:
        E.prove("parse_is_dec/kv", mk_bool(D == N.BKV(a.t, b.t)), kind="lemma")
    else:
        E.prove("parse_is_dec/leaf", mk_bool(z3.And(D == N.BLeaf(b.t), a is None)), kind="lemma")


def lemma_bin_node_roundtrip(E):
    """parse_node(encode_*_node(...)) gives the parts back; the three encodings start with different type bytes"""
    enc_kv = find_function(E.loader, MOD + ":encode_kv_node")
    enc_br = find_function(E.loader, MOD + ":encode_branch_node")
    enc_lf = find_function(E.loader, MOD + ":encode_leaf_node")
    parse = find_function(E.loader, MOD + ":parse_node")
    which = E.nondet(3)
    try:
        if which == 0:
            p = E.fresh_seq("p", "bytes")
            p.rng = (0, 1)
            E.assume(mk_bool(z3.And(allbit(p.t), z3.Length(p.t) > 0)))
            h = objs.hash32(E, "h")
            got = E.call(parse, [E.call(enc_kv, [p, h])])
            E.prove("bin_node_roundtrip/kv", ops_eq3(got, (0, p, h)), kind="lemma")
        elif which == 1:
            l, r = objs.hash32(E, "l"), objs.hash32(E, "r")
            got = E.call(parse, [E.call(enc_br, [l, r])])
            E.prove("bin_node_roundtrip/branch", ops_eq3(got, (1, l, r)), kind="lemma")
        else:
            v = E.fresh_seq("v", "bytes")
            E.assume(mk_bool(z3.Length(v.t) > 0))
            got = E.call(parse, [E.call(enc_lf, [v])])
            E.prove("bin_node_roundtrip/leaf", ops_eq3(got, (2, None, v)), kind="lemma")
    except PyRaise as pr:
        E.prove("bin_node_roundtrip/no-exception[%d]" % which, False, kind="lemma", detail="raised %r" % (pr.exc,))


def ops_eq3(got, want):
    from pyvc.unit import result_eq
    return result_eq(None, got, want)


def register(reg):
    g = "bin_nodes"
    reg.add(g, Contract(MOD + ":encode_leaf_node", ["value"], leaf_cases, setup=leaf_setup, props=("C16", "C12")))
    reg.add(g, Contract(MOD + ":encode_branch_node", ["left_child_node_hash", "right_child_node_hash"], branch_cases,
                        setup=branch_setup, props=("C16", "C12")))
    reg.add(g, Contract(MOD + ":encode_kv_node", ["keypath", "child_node_hash"], kv_cases, setup=kv_setup,
                        requires=kv_requires, props=("C16", "C12")))
    reg.add(g, Contract(MOD + ":parse_node", ["node"], parse_cases, setup=parse_setup, requires=parse_requires,
                        props=("C16", "C12", "C13")))
    reg.add_lemma(g, Lemma("lemma:bin_node_roundtrip", ("C16", "C12"), lemma_bin_node_roundtrip))
    reg.add_lemma(g, Lemma("lemma:dec_of_encodings", ("C12", "C13"), lemma_dec_of_encodings))
    reg.add_lemma(g, Lemma("lemma:parse_is_dec", ("C12", "C13"), lemma_parse_is_dec))
