"""Small accessors that the properties read their observations through: the attributes of the three traversal
exceptions (C07 / C08: `reports the truth` is stated on e.args in the raising units; these units tie the public
attribute names to those positions), HexaryTrie.ref_count, is_branch_node, ScratchDB.copy, NodeIterator.__init__."""
import z3

from pyvc import ops
from pyvc.sym import SSeq, SBool, Obj, ExcObj, ListObj, DictObj, SeqI, mk_bool, Unsupported
from pyvc.unit import Contract, Case, Is
from contracts import objs
from contracts import hexmodel as HM
from contracts import hexary_c as HC


def exc_setup(cls_name, nargs):
    def setup(E):
        args = []
        for i in range(nargs):
            args.append(E.fresh_seq("arg%d" % i, "bytes") if i != nargs - 1 else HM.nibs(E, "nibbles"))
        e = ExcObj(objs.exc(E, cls_name), tuple(args))
        return {"self": e}
    return setup


def arg_cases(i):
    def cases(E, ctx):
        return [Case("the-argument", returns=lambda: Is(ctx.self.args[i]) if not isinstance(ctx.self.args[i], (SSeq, bytes, tuple)) else ctx.self.args[i],
                     modifies=[])]
    return cases


def tpp_setup(E):
    e = ExcObj(objs.exc(E, "TraversedPartialPath"), (HM.nibs(E, "traversed"), None, HM.nibs(E, "tail")))
    sim = Obj(objs.cls_of(E, "trie.typing", "HexaryTrieNode"), {})
    e.fields["_simulated_node"] = sim
    return {"self": e}


def tpp_sim_cases(E, ctx):
    return [Case("the-simulated-node", returns=lambda: Is(ctx.self.fields["_simulated_node"]), modifies=[])]


def refcount_setup(pruning):
    def setup(E):
        return {"self": HM.mk_trie(E, pruning=pruning)}
    return setup


def refcount_cases(E, ctx):
    rc = ctx.self.fields["_ref_count"]
    if rc is None:
        return [Case("not-tracking", raises=Exception, modifies=[])]
    return [Case("the-counts", returns=lambda: Is(rc), modifies=[])]


def ibn_setup(E):
    k = E.nondet(2)
    if k == 0:
        return {"node": b""}
    D = z3.Const("n.D", HM.HNode)
    E.assume(mk_bool(z3.And(HM.hwfp(D), z3.Not(HM.HNode.is_HBlank(D)))))
    HM.unfold_wf(E, D)
    return {"node": HM.materialize(E, D)}


def ibn_cases(E, ctx):
    D = HM.alpha(ctx.node)
    return [Case("answer", returns=lambda: mk_bool(HM.HNode.is_HBranch(D)))]


def register(reg):
    g = "accessors"
    X = "trie.exceptions:"
    for (cls, name, idx, n) in (("MissingTrieNode", "missing_node_hash", 0, 4), ("MissingTrieNode", "root_hash", 1, 4),
                                ("MissingTrieNode", "requested_key", 2, 4), ("MissingTrieNode", "prefix", 3, 4),
                                ("MissingTraversalNode", "missing_node_hash", 0, 2),
                                ("MissingTraversalNode", "nibbles_traversed", 1, 2)):
        reg.add(g, Contract(X + "%s.%s" % (cls, name), ["self"], arg_cases(idx), setup=exc_setup(cls, n),
                            props=("C07",), callee=False))
    reg.add(g, Contract(X + "TraversedPartialPath.nibbles_traversed", ["self"], arg_cases(0), setup=tpp_setup,
                        props=("C08",), callee=False))
    reg.add(g, Contract(X + "TraversedPartialPath.untraversed_tail", ["self"], arg_cases(2), setup=tpp_setup,
                        props=("C08",), callee=False))
    reg.add(g, Contract(X + "TraversedPartialPath.simulated_node", ["self"], tpp_sim_cases, setup=tpp_setup,
                        props=("C08", "C09"), callee=False))
    H = "trie.hexary:HexaryTrie."
    reg.add(g, Contract(H + "ref_count#pruning", ["self"], refcount_cases, setup=refcount_setup(True), props=("C06",),
                        callee=False, target=H + "ref_count"))
    reg.add(g, Contract(H + "ref_count#not-pruning", ["self"], refcount_cases, setup=refcount_setup(False), props=("C06",),
                        callee=False, target=H + "ref_count"))
    reg.add(g, Contract("trie.utils.nodes:is_branch_node", ["node"], ibn_cases, setup=ibn_setup, props=("C16",),
                        callee=False))
    register2(reg)


# BinaryTrie.root_node (property) and NodeIterator.__init__ ---------------------------------------------------
def bin_root_setup(E):
    from contracts import binmodel as BM
    return {"self": BM.mk_trie(E)}


def bin_root_cases(E, ctx):
    from contracts import binmodel as BM
    s = ctx.self
    db = s.fields["db"]
    root = ops.seq_term_as(ctx.old_field(s, "root_hash"), "int")
    present = z3.Select(ctx.old_has(db), root)
    return [Case("body-of-the-root", when=mk_bool(present), returns=lambda: SSeq(BM.unk(root), "bytes"), modifies=[]),
            Case("root-missing", when=mk_bool(z3.Not(present)), raises=KeyError, modifies=[])]


def iter_init_cases(E, ctx):
    def post():
        return [("remembers-the-trie", ctx.self.fields.get("_trie") is ctx.trie)]
    return [Case("initialised", returns=lambda: None, post=post, modifies=[ctx.self])]


def register2(reg):
    g = "accessors"
    reg.add(g, Contract("trie.binary:BinaryTrie.root_node", ["self"], bin_root_cases, setup=bin_root_setup,
                        props=("C12",), callee=False))
    reg.add(g, Contract("trie.iter:NodeIterator.__init__", ["self", "trie"], iter_init_cases,
                        setup=lambda E: {"self": Obj(objs.cls_of(E, "trie.iter", "NodeIterator"), {}), "trie": HC.read_trie(E)},
                        props=("C10",), callee=False))
