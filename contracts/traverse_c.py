"""C08: the public traversal API -- annotate_node, HexaryTrie.traverse / traverse_from / root_node and the
TraversedPartialPath exception with its simulated node -- on top of the contracts of the walk (_traverse_from,
_traverse; contracts/hexary_c.py).

What `traverse(path)` must deliver (property C08), stated with the ghost continuation `ks` (arbitrary nibble tuple):

    returns a           hlk(alpha(a.raw), ks) == hlk(root node, path ++ ks)   -- a.raw is the node at that position
                        and a's fields are the annotation of a.raw (type, sub-segments, value, suffix)
    raises Partial      nibbles_traversed ++ untraversed_tail == path, tail non-empty, the attached node is a leaf or
                        an extension whose path the tail runs (properly, for an extension) into,
                        hlk(alpha(node.raw), tail ++ ks) == hlk(root node, path ++ ks), and the simulated node is
                        that node with the tail cut off its path: hlk(alpha(sim.raw), ks) == hlk(root node, path ++ ks)
    raises Missing      as for the walk (C07 clauses)
"""
import z3

from pyvc import ops
from pyvc.sym import SSeq, SBool, ListObj, Obj, ExcObj, SeqI, SeqSeqI, mk_bool, mk_int, Unsupported
from pyvc.unit import Contract, Case, Is
from contracts import objs
from contracts import hexmodel as HM
from contracts.hexmodel import HNode, HRef
from contracts import hexary_c as HC

NODES = "trie.utils.nodes"
HEX = "trie.hexary"


def node_cls(E):
    return objs.cls_of(E, "trie.typing", "HexaryTrieNode")


subsegs = z3.Function("subsegs", HNode, SeqSeqI)      # opaque; its definition is subsegs_body (revealed where needed)


def subsegs_of(E, D):
    """spec: the sub-segments of node D as a tuple of nibble tuples (opaque term)"""
    return subsegs(D)


def reveal_subsegs(E, D):
    E.assume(SBool(subsegs(D) == subsegs_body(E, D)))       # definition; not simplified (z3 would hoist 16 conditions)


def subsegs_body(E, D):
    """definition of subsegs(D)"""
    br = []
    for i in range(16):
        br.append(z3.If(z3.Not(HRef.is_RBlank(HM.child(D, i))), z3.Unit(z3.Unit(z3.IntVal(i))), z3.Empty(SeqSeqI)))
    return z3.If(HNode.is_HBranch(D), z3.Concat(*br),
                 z3.If(HNode.is_HExt(D), z3.Unit(HNode.epath(D)), z3.Empty(SeqSeqI)))


def first_child(E, D):
    """(index, reference) of the first occupied child slot of a branch"""
    idx, ref = z3.IntVal(15), HM.child(D, 15)
    for i in reversed(range(15)):
        occ = z3.Not(HRef.is_RBlank(HM.child(D, i)))
        idx = z3.If(occ, z3.IntVal(i), idx)
        ref = z3.If(occ, HM.child(D, i), ref)
    return idx, ref


def any_child(D):
    return z3.Or(*[z3.Not(HRef.is_RBlank(HM.child(D, i))) for i in range(16)])


def first_child_facts(E, D, k=None):
    """consequences of the definitions of first_child / subsegs_of / child_at at D (lemma first_child, proved once
    for an arbitrary node): the first occupied slot is a slot, its reference is occupied, it is what child_at selects,
    and the annotation's first sub-segment is that nibble (the extension path for an extension)"""
    fi, fr = first_child(E, D)
    ss = subsegs_of(E, D)
    out = [z3.And(fi >= 0, fi <= 15),
           z3.Implies(any_child(D), z3.And(HC.child_at(D, fi) == fr, z3.Not(HRef.is_RBlank(fr)))),
           z3.Implies(HNode.is_HExt(D), z3.And(z3.Length(ss) == 1, ss[0] == HNode.epath(D))),
           z3.Implies(z3.And(HNode.is_HBranch(D), any_child(D)), z3.PrefixOf(z3.Unit(z3.Unit(fi)), ss)),
           z3.Implies(HNode.is_HBranch(D), (z3.Length(ss) == 0) == z3.Not(any_child(D))),
           z3.Implies(z3.Or(HNode.is_HBlank(D), HNode.is_HLeaf(D)), z3.Length(ss) == 0)]
    return out


def lemma_first_child(E):
    D = z3.Const("D", HNode)
    reveal_subsegs(E, D)
    HC.reveal_child_at(E, D, first_child(E, D)[0])
    facts = first_child_facts(E, D)
    # fact 3 (the first sub-segment of a branch) and fact 4 (no sub-segment iff no child), by a chain over the suffixes
    # S_i = [ (i,) if slot i occupied ] ++ ... ++ [ (15,) if slot 15 occupied ] of the sub-segment tuple of a branch:
    #   P_i:  no occupied slot in i..15  =>  S_i = ()      and
    #         some occupied slot in i..15 =>  S_i starts with (first occupied slot >= i,)
    # P_16 is trivial; P_i follows from P_{i+1} by one case split on slot i.
    occ = [z3.Not(HRef.is_RBlank(HM.child(D, i))) for i in range(16)]
    unit = [z3.Unit(z3.Unit(z3.IntVal(i))) for i in range(16)]
    S = z3.Const("S16", SeqSeqI)                 # the suffixes are named (fresh constants defined by an equation),
    E.assume(mk_bool(S == z3.Empty(SeqSeqI)))    # so that each step sees its predecessor as an atom
    first = z3.Const("first16", z3.IntSort())
    E.assume(mk_bool(first == 15))
    some = z3.Const("some16", z3.BoolSort())
    E.assume(mk_bool(some == z3.BoolVal(False)))
    for i in reversed(range(16)):
        S2, f2, s2 = z3.Const("S%d" % i, SeqSeqI), z3.Const("first%d" % i, z3.IntSort()), z3.Const("some%d" % i, z3.BoolSort())
        E.assume(mk_bool(S2 == z3.Concat(z3.If(occ[i], unit[i], z3.Empty(SeqSeqI)), S)))
        E.assume(mk_bool(f2 == z3.If(occ[i], z3.IntVal(i), first)))
        E.assume(mk_bool(s2 == z3.Or(occ[i], some)))
        S, first, some = S2, f2, s2
        E.prove("first_child/chain%d" % i,
                mk_bool(z3.And(z3.Implies(z3.Not(some), S == z3.Empty(SeqSeqI)),
                               z3.Implies(some, z3.PrefixOf(z3.Unit(z3.Unit(first)), S)))), kind="lemma")
    br = z3.Concat(*[z3.If(occ[i], unit[i], z3.Empty(SeqSeqI)) for i in range(16)])
    E.prove("first_child/chain-is-the-branch-tuple", SBool(S == br), kind="lemma")     # not simplified (ite hoisting)
    E.prove("first_child/branch-tuple-is-subsegs", SBool(z3.Implies(HNode.is_HBranch(D), subsegs(D) == br)), kind="lemma")
    fi, fr = first_child(E, D)
    E.prove("first_child/chain-first-is-first_child", mk_bool(first == fi), kind="lemma")
    for n, f in enumerate(facts):
        E.prove("first_child/%d" % n, SBool(f), kind="lemma")


def lemma_prefix_first(E):
    """a tuple of tuples that starts with the one-element tuple (x,) is not empty and has x as its first element"""
    s_ = z3.Const("s", SeqSeqI)
    x = z3.Const("x", SeqI)
    E.prove("prefix_first", SBool(prefix_first_fact(x, s_)), kind="lemma")


def prefix_first_fact(x, s_):
    return z3.Implies(z3.PrefixOf(z3.Unit(x), s_), z3.And(z3.Length(s_) >= 1, s_[0] == x))


def value_of(D):
    return z3.If(HNode.is_HLeaf(D), HNode.lval(D), z3.If(HNode.is_HBranch(D), HNode.bval(D), z3.Empty(SeqI)))


def suffix_of_node(D):
    return z3.If(HNode.is_HLeaf(D), HNode.lpath(D), z3.Empty(SeqI))


def type_of(D):
    return z3.If(HNode.is_HBlank(D), 0, z3.If(HNode.is_HLeaf(D), 1, z3.If(HNode.is_HExt(D), 2, 3)))


def annotation_clauses(E, a, D, raw=None):
    """the annotated node `a` (HexaryTrieNode object) is the annotation of the node D"""
    if not isinstance(a, Obj) or "sub_segments" not in a.fields:
        return [("is-a-HexaryTrieNode", False)]
    f = a.fields
    out = []
    if E.unit is not None and E.unit.endswith(":annotate_node"):
        reveal_subsegs(E, D)          # only the unit that checks annotate_node itself looks at the definition
    elif HM.is_constructor(z3.simplify(D)) and z3.simplify(D).decl().name() in ("HLeaf", "HExt", "HBlank"):
        # a node built on this path (the simulated node of a partial traversal): the definition collapses
        E.assume(SBool(subsegs(D) == z3.simplify(subsegs_body(E, z3.simplify(D)))))
    try:
        out.append(("sub-segments", SBool(ops.seq_term(f["sub_segments"]) == subsegs_of(E, D))
                    if not (isinstance(f["sub_segments"], tuple) and len(f["sub_segments"]) == 0)
                    else mk_bool(subsegs_of(E, D) == z3.Empty(SeqSeqI))))
        out.append(("value", mk_bool(HM.bytes_of(f["value"]) == value_of(D))))
        out.append(("suffix", mk_bool(ops.seq_term_as(f["suffix"], "int") == suffix_of_node(D))))
        out.append(("node-type", mk_bool(ops.as_int(f["node_type"]) == type_of(D))
                    if hasattr(ops, "as_int") else mk_bool(_int_term(f["node_type"]) == type_of(D))))
    except Unsupported as e:
        return [("annotation-has-the-expected-shape (%s)" % e, False)]
    if raw is not None:
        out.append(("raw-is-the-node", f["raw"] is raw or (isinstance(raw, bytes) and f["raw"] == raw)))
    return out


def _int_term(v):
    from pyvc.sym import as_int_term
    return as_int_term(v)


def make_annotated(E, D, raw):
    """callee view of annotate_node(raw): a HexaryTrieNode whose fields are the spec functions of D"""
    o = Obj(node_cls(E))
    ss = E.fresh_seq("sub_segments", "tuple", "tuple")
    E.assume(SBool(ss.t == subsegs_of(E, D)))          # not simplified: z3 would hoist the 16 conditions
    E.ghost.setdefault("annotated_subsegs", []).append((z3.simplify(D), ss.t))
    for f in first_child_facts(E, D):          # instances of lemma first_child: length / first element of the tuple
        E.assume(SBool(f))
    fi, _fr = first_child(E, D)
    E.assume(SBool(prefix_first_fact(z3.Unit(fi), subsegs(D))))          # instance of lemma prefix_first
    from contracts.seqspec import allnib
    E.assume(SBool(allnib(z3.Unit(fi)) == z3.And(fi >= 0, fi <= 15)))    # definition of allnib on a one-element tuple
    o.fields["sub_segments"] = ss
    o.fields["value"] = SSeq(z3.simplify(value_of(D)), "bytes")
    o.fields["suffix"] = SSeq(z3.simplify(suffix_of_node(D)), "tuple", "int", rng=(0, 15))
    o.fields["raw"] = raw
    nt = E.fresh_int("node_type")
    E.assume(mk_bool(nt.t == type_of(D)))
    o.fields["node_type"] = nt
    o.fields["__fields__"] = ("sub_segments", "value", "suffix", "raw", "node_type")
    return o


# ---------------------------------------------------------------------------------------------------
# annotate_node

def annotate_setup(E):
    t = HC.read_trie(E)
    k = E.nondet(2)
    if k == 0:
        return {"node_body": b""}
    D = z3.Const("n.D", HNode)
    E.assume(mk_bool(z3.And(HM.hwfp(D), z3.Not(HNode.is_HBlank(D)))))
    HM.unfold_wf(E, D)
    return {"node_body": HM.materialize(E, D)}


def annotate_cases(E, ctx):
    raw = ctx.node_body
    D = HM.alpha(raw)
    unit_mode = hasattr(ctx, "outcome")
    return [Case("annotated", ensures=(lambda a: annotation_clauses(E, a, D, raw)) if unit_mode else None,
                 make=None if unit_mode else (lambda: make_annotated(E, D, raw)))]


# ---------------------------------------------------------------------------------------------------
# traverse / traverse_from / root_node

def partial_cls(E):
    return objs.exc(E, "TraversedPartialPath")


def partial_clauses(E, e, D0, K, ks):
    if len(e.args) < 3 or not isinstance(e.args[1], Obj):
        return [("exception-carries-prefix-node-tail", False)]
    try:
        used = ops.seq_term_as(e.args[0], "int")
        tail = ops.seq_term_as(e.args[2], "int")
        node = e.args[1]
        Dn = HM.alpha(node.fields["raw"])
        sim = e.fields.get("_simulated_node")
    except (Unsupported, KeyError) as ex:
        return [("exception-carries-prefix-node-tail (%s)" % ex, False)]
    HM.unfold_wf(E, Dn)
    path = z3.If(HNode.is_HLeaf(Dn), HNode.lpath(Dn), HNode.epath(Dn))
    out = [("pieces-make-up-the-path", mk_bool(z3.Concat(used, tail) == K)),
           ("tail-is-not-empty", mk_bool(z3.Length(tail) > 0)),
           ("enclosing-node-is-a-leaf-or-an-extension", mk_bool(z3.Or(HNode.is_HLeaf(Dn), HNode.is_HExt(Dn)))),
           ("tail-runs-into-its-path", mk_bool(z3.And(z3.PrefixOf(tail, path),
                                                      z3.Implies(HNode.is_HExt(Dn), tail != path)))),
           ("enclosing-node-view", mk_bool(HM.hlk(Dn, z3.Concat(tail, ks)) == HM.hlk(D0, z3.Concat(K, ks))))]
    out += [("enclosing-node/" + n, c) for (n, c) in annotation_clauses(E, node, Dn)]
    if not isinstance(sim, Obj):
        return out + [("has-a-simulated-node", False)]
    try:
        Ds = HM.alpha(sim.fields["raw"])
    except (Unsupported, KeyError) as ex:
        return out + [("simulated-node-has-a-raw-body (%s)" % ex, False)]
    from contracts import seqlemmas as SL
    HM.unfold_hlk(E, Ds, ks)
    HM.unfold_hlk(E, Dn, z3.Concat(tail, ks))
    SL.use(E, "prefix_concat_left", path, tail, ks)
    SL.use(E, "eq_concat_prefix", tail, ks, path)
    SL.use(E, "tail_concat", tail, ks, z3.Length(path))
    SL.use(E, "prefix_is_slice", tail, path)
    rest = HM.tail(path, z3.Length(tail))
    SL.use(E, "split2", path, z3.Length(tail)) if "split2" in SL.ALL else None
    want = z3.If(HNode.is_HLeaf(Dn), HNode.HLeaf(rest, HNode.lval(Dn)), HNode.HExt(rest, HNode.echild(Dn)))
    out += [("simulated-node-is-the-enclosing-node-with-the-tail-cut-off", mk_bool(Ds == want)),
            ("simulated-node-view", mk_bool(HM.hlk(Ds, ks) == HM.hlk(D0, z3.Concat(K, ks))))]
    out += [("simulated-node/" + n, c) for (n, c) in annotation_clauses(E, sim, Ds)]
    return out


def api_cases(E, ctx, D0, K):
    ks = E.ghost.get("ks")
    db = ctx.self.fields["db"]
    unit_mode = hasattr(ctx, "outcome")

    def ens(a):
        if not isinstance(a, Obj) or "raw" not in a.fields:
            return [("is-a-HexaryTrieNode", False)]
        Dn = HM.alpha(a.fields["raw"])
        return [("view", mk_bool(HM.hlk(Dn, ks) == HM.hlk(D0, z3.Concat(K, ks)))),
                ("one-hop-reaches-the-child", mk_bool(z3.Implies(HC.one_hop(D0, K), Dn == HC.hop_target(E, D0, K)))),
                ("well-formed", mk_bool(HM.hwfp(Dn)))] + annotation_clauses(E, a, Dn)

    def make():
        # callee view: the annotated node of some well-formed node Dn that is what the walk from D0 along K reaches
        Dn = z3.Const(E.fresh_name("reached.D"), HNode)
        E.assume(mk_bool(HM.hwfp(Dn)))
        HM.unfold_wf(E, Dn)
        E.assume(mk_bool(z3.Implies(HC.one_hop(D0, K), Dn == HC.hop_target(E, D0, K))))
        if ks is not None:
            E.assume(mk_bool(HM.hlk(Dn, ks) == HM.hlk(D0, z3.Concat(K, ks))))
        E.assume(mk_bool(HM.hlk(Dn, z3.Empty(SeqI)) == HM.hlk(D0, K)))
        E.ghost.setdefault("reached_rules", []).append((Dn, D0, K))
        return make_annotated(E, Dn, HM.materialize(E, Dn))

    def make_partial():
        return ExcObj(partial_cls(E), (HM.nibs(E, "traversed"), make_annotated(E, HNode.HBlank, b""), HM.nibs(E, "tail")))
    return [Case("node", ensures=ens if unit_mode else None, make=None if unit_mode else make),
            Case("partial", when=mk_bool(z3.Not(HC.one_hop(D0, K))), raises=partial_cls(E),
                 exc=lambda e: partial_clauses(E, e, D0, K, ks), make=None if unit_mode else make_partial),
            Case("missing-node", raises=HC.mtn_cls(E),
                 exc=lambda e: HC.missing_clauses(E, e, ctx.old_has(db), D0, K, ks),
                 make=None if unit_mode else HC.mtn_make(E, ctx.old_has(db), D0, K))]


def traverse_setup(E):
    t = HC.read_trie(E)
    E.ghost["ks"] = HM.nibs(E, "ks").t
    return {"self": t, "trie_key_input": HM.nibs(E, "trie_key_input")}


def traverse_cases(E, ctx):
    K = ops.seq_term_as(ctx.trie_key_input, "int")
    root = HM.bytes_of(ctx.old_field(ctx.self, "root_hash"))
    return api_cases(E, ctx, HC.node_of_root(E, root), K)


def tfrom_setup(E):
    t = HC.read_trie(E)
    E.ghost["ks"] = HM.nibs(E, "ks").t
    D = z3.Const("parent.D", HNode)
    E.assume(mk_bool(HM.hwfp(D)))
    HM.unfold_wf(E, D)
    raw = HM.materialize(E, D)
    parent = make_annotated(E, D, raw)
    E.ghost["D0"] = D
    return {"self": t, "parent_node": parent, "trie_key_input": HM.nibs(E, "trie_key_input")}


def tfrom_cases(E, ctx):
    K = ops.seq_term_as(ctx.trie_key_input, "int")
    if hasattr(ctx, "outcome"):
        return api_cases(E, ctx, E.ghost["D0"], K)
    return api_cases(E, ctx, HM.alpha(ctx.parent_node.fields["raw"]), K)


def tfrom_requires(E, ctx):
    from contracts.seqspec import allnib_of
    p = ctx.parent_node
    if not isinstance(p, Obj) or "raw" not in p.fields:
        return [("parent-is-an-annotated-node", False)]
    D = HM.alpha(p.fields["raw"])
    side = []
    ok = allnib_of(ops.seq_term_as(ctx.trie_key_input, "int"), side)
    for f in side:
        E.assume(mk_bool(f))
    return [("parent-well-formed", mk_bool(HM.hwfp(D))), ("path-is-nibbles", mk_bool(ok))]


def root_node_setup(E):
    t = HC.read_trie(E)
    E.ghost["ks"] = HM.nibs(E, "ks").t
    return {"self": t}


def root_node_cases(E, ctx):
    root = HM.bytes_of(ctx.old_field(ctx.self, "root_hash"))
    D0 = HC.node_of_root(E, root)
    db = ctx.self.fields["db"]
    ks = E.ghost["ks"]
    K = z3.Empty(SeqI)

    def ens(a):
        if not isinstance(a, Obj) or "raw" not in a.fields:
            return [("is-a-HexaryTrieNode", False)]
        Dn = HM.alpha(a.fields["raw"])
        return [("is-the-root-node", mk_bool(Dn == D0))] + annotation_clauses(E, a, Dn)
    return [Case("node", ensures=ens),
            Case("missing-node", raises=HC.mtn_cls(E),
                 exc=lambda e: HC.missing_clauses(E, e, ctx.old_has(db), D0, K, ks))]


def register(reg):
    from pyvc.unit import Lemma
    reg.add_lemma("hexary_traverse", Lemma("lemma:first_child", ("C08", "C10"), lemma_first_child))
    reg.add_lemma("hexary_traverse", Lemma("lemma:prefix_first", ("C08", "C10"), lemma_prefix_first))
    g = "hexary_traverse"
    reg.add(g, Contract(NODES + ":annotate_node", ["node_body"], annotate_cases, setup=annotate_setup, props=("C08", "C09")))
    H = HEX + ":HexaryTrie."
    reg.add(g, Contract(H + "traverse", ["self", "trie_key_input"], traverse_cases, setup=traverse_setup,
                        props=("C08", "C07", "C09"), callee=False))
    reg.add(g, Contract(H + "traverse_from", ["self", "parent_node", "trie_key_input"], tfrom_cases, setup=tfrom_setup,
                        props=("C08", "C07", "C09", "C10"), requires=tfrom_requires))
    reg.add(g, Contract(H + "root_node", ["self"], root_node_cases, setup=root_node_setup, props=("C08", "C07"),
                        callee=False))
