"""Ghost model of the binary trie (DESIGN 5.2), ideal-hash reading.

A node hash h denotes the node unkeccak(h) (A-HASH: the hash determines its pre-image), so what a root means does
not depend on the database; the database only decides which nodes are *available*.  Spec functions are
uninterpreted and unfolded one step by the contracts at the (hash, key) pairs that occur -- the unfolding is their
definition (structural recursion on the key), never an axiom schema the solver has to instantiate by itself.

  blk(h, k)    value stored under bit path k below h (PNone = absent)
  bavail(H, h, k)  every node a lookup of k below h dereferences is in the availability set H
  bpre(h, k)   some stored key below h starts with k
"""
import z3

from pyvc import ops, specfn
from pyvc.sym import SSeq, SBool, PyVal, SeqI, BoolS, IntS, mk_bool, seq_const
from contracts.binaries_c import KPD, kp_ok, allbit

blk = z3.Function("blk", SeqI, SeqI, PyVal)
bavail = z3.Function("bavail", z3.ArraySort(SeqI, BoolS), SeqI, SeqI, BoolS)
bpre = z3.Function("bpre", SeqI, SeqI, BoolS)
unk = specfn.unkeccak


def blank_hash(E):
    return seq_const(E.loader.load("trie.constants").ns["BLANK_HASH"])


class Parts:
    """the pieces parse_node returns for the node body n (same expressions as its contract)"""

    def __init__(self, n):
        self.n = n
        self.ln = z3.Length(n)
        self.ty = n[0]
        self.left = z3.Extract(n, 1, 32)
        self.right = z3.Extract(n, 33, 32)
        self.keyenc = z3.Extract(n, 1, self.ln - 33)
        self.path = KPD(self.keyenc)
        self.child = z3.Extract(n, self.ln - 32, 32)
        self.val = z3.Extract(n, 1, self.ln - 1)


def wfnode(n):
    """a well-formed node body (what the three encoders produce)"""
    p = Parts(n)
    return z3.And(p.ln >= 1,
                  z3.Or(z3.And(p.ty == 1, p.ln == 65),
                        z3.And(p.ty == 2, p.ln > 1),
                        z3.And(p.ty == 0, p.ln > 33, kp_ok(p.keyenc), z3.Length(p.path) > 0, allbit(p.path))))


def tail(k, n):
    return z3.Extract(k, n, z3.Length(k) - n)


def starts_with(k, p):
    """k[:len(p)] == p, written with the slicing function the interpreter uses"""
    return ops.seq_slice(SSeq(k, "bytes", "int"), None, SSeq_len(p)).t == p


def SSeq_len(p):
    from pyvc.sym import mk_int
    return mk_int(z3.Length(p))


def unfold_blk(E, h, k):
    """one definitional step of blk at (h, k)"""
    B = blank_hash(E)
    p = Parts(unk(h))
    lk = z3.Length(k)
    body = z3.If(h == B, PyVal.PNone,
                 z3.If(p.ty == 2, z3.If(lk == 0, PyVal.PBytes(p.val), PyVal.PNone),
                       z3.If(p.ty == 0,
                             z3.If(z3.And(lk > 0, starts_with(k, p.path)), blk(p.child, tail(k, z3.Length(p.path))),
                                   PyVal.PNone),
                             z3.If(lk == 0, PyVal.PNone,
                                   z3.If(k[0] == 0, blk(p.left, tail(k, 1)), blk(p.right, tail(k, 1)))))))
    E.assume(mk_bool(blk(h, k) == body))


def unfold_bavail(E, H, h, k):
    B = blank_hash(E)
    p = Parts(unk(h))
    lk = z3.Length(k)
    body = z3.If(h == B, z3.BoolVal(True),
                 z3.And(z3.Select(H, h),
                        z3.If(p.ty == 2, z3.BoolVal(True),
                              z3.If(p.ty == 0,
                                    z3.If(z3.And(lk > 0, starts_with(k, p.path)),
                                          bavail(H, p.child, tail(k, z3.Length(p.path))), z3.BoolVal(True)),
                                    z3.If(lk == 0, z3.BoolVal(True),
                                          z3.If(k[0] == 0, bavail(H, p.left, tail(k, 1)),
                                                bavail(H, p.right, tail(k, 1))))))))
    E.assume(mk_bool(bavail(H, h, k) == body))


class BinDbInvariant:
    """invariant of a binary-trie store: every entry is content-addressed and a well-formed node.
    Reading an entry yields these facts for that entry; every write must re-establish them (obligations)."""

    def on_read(self, E, d, kt, vt):
        E.assume(mk_bool(vt == unk(kt)))
        h = E.keccak(SSeq(vt, "bytes", "int"))
        E.assume(mk_bool(h.t == kt))
        E.assume(mk_bool(wfnode(vt)))

    def on_write(self, E, d, kt, vt):
        E.prove("store-write/content-addressed", mk_bool(kt == specfn.keccak(vt)), kind="frame",
                detail="db[k] = v is executed with k = keccak(v)")
        E.prove("store-write/well-formed-node", mk_bool(wfnode(vt)), kind="frame")


def mk_trie(E):
    from contracts import objs
    t = objs.mk_binary(E)
    t.fields["db"].hooks = BinDbInvariant()
    return t
