"""Ghost model of the binary trie (DESIGN 5.2), ideal-hash reading.

Nodes are an algebraic datatype; `dec` maps a node body (bytes) to the node it encodes (BBad if none).  dec is
*opaque* in the trie-level obligations: they use only `dec(encode_x_node(..)) = constructor(..)`, which is proved
from dec's definition and the byte-level contracts of the encoders (lemma dec_of_encodings), and
`parse_node(n)` = the components of dec(n) (definition of dec).  A node hash h denotes nd(h) = dec(unkeccak(h))
(A-HASH: the hash determines its pre-image), so what a root means does not depend on the database; the database only
decides which nodes are available.

Spec functions are uninterpreted and unfolded one step by the contracts at the (hash, key) pairs that occur -- the
unfolding is their definition (structural recursion on the key).

  blk(h, k)        value stored under bit path k below h (PNone = absent)
  bavail(H, h, k)  every node a lookup of k below h dereferences is in the availability set H
"""
import z3

from pyvc import ops, specfn
from pyvc.sym import SSeq, SBool, PyVal, SeqI, BoolS, IntS, mk_bool, mk_int, seq_const
from contracts.binaries_c import KPD, KPE, kp_ok, allbit

_B = z3.Datatype("BNode")
_B.declare("BBad")
_B.declare("BLeaf", ("bval", SeqI))
_B.declare("BKV", ("bpath", SeqI), ("bchild", SeqI))
_B.declare("BBranch", ("bleft", SeqI), ("bright", SeqI))
BNode = _B.create()

dec = z3.Function("bdec", SeqI, BNode)
blk = z3.Function("blk", SeqI, SeqI, PyVal)
bavail = z3.Function("bavail", z3.ArraySort(SeqI, BoolS), SeqI, SeqI, BoolS)
unk = specfn.unkeccak


def nd(h):
    return dec(unk(h))


def blank_hash(E):
    return seq_const(E.loader.load("trie.constants").ns["BLANK_HASH"])


def dec_definition(n):
    """definition of dec on a node body n, in terms of the pieces parse_node's byte-level contract returns"""
    ln = z3.Length(n)
    ty = n[0]
    keyenc = z3.Extract(n, 1, ln - 33)
    return z3.If(z3.And(ln >= 1, ty == 1, ln == 65), BNode.BBranch(z3.Extract(n, 1, 32), z3.Extract(n, 33, 32)),
                 z3.If(z3.And(ln >= 1, ty == 0, ln > 33, kp_ok(keyenc)), BNode.BKV(KPD(keyenc), z3.Extract(n, ln - 32, 32)),
                       z3.If(z3.And(ln > 1, ty == 2), BNode.BLeaf(z3.Extract(n, 1, ln - 1)), BNode.BBad)))


def wf(D, B):
    """well-formed (and locally canonical) node: what the trie writes"""
    return z3.Or(
        z3.And(BNode.is_BLeaf(D), z3.Length(BNode.bval(D)) > 0),
        z3.And(BNode.is_BKV(D), z3.Length(BNode.bpath(D)) > 0, allbit(BNode.bpath(D)),
               z3.Length(BNode.bchild(D)) == 32, BNode.bchild(D) != B),
        z3.And(BNode.is_BBranch(D), z3.Length(BNode.bleft(D)) == 32, z3.Length(BNode.bright(D)) == 32,
               BNode.bleft(D) != B, BNode.bright(D) != B))


def wfc(D, B):
    """canonical node: well formed, and a kv node never sits directly over another kv node (their paths would have
    been merged).  nd(child) is a function of the child *hash* (ideal-hash reading), so this is a local property of
    the node; a store in which every node has it holds only canonical tries."""
    return z3.And(wf(D, B), z3.Implies(BNode.is_BKV(D), z3.Not(BNode.is_BKV(nd(BNode.bchild(D))))))


def tail(k, n):
    return z3.simplify(z3.Extract(k, n, z3.Length(k) - n))


def starts_with(k, p):
    """k[:len(p)] == p, written with the slicing function the interpreter uses"""
    return ops.seq_slice(SSeq(k, "bytes", "int"), None, mk_int(z3.Length(p))).t == p


class Parts:
    def __init__(self, D):
        self.D = D
        self.is_leaf, self.is_kv, self.is_branch = BNode.is_BLeaf(D), BNode.is_BKV(D), BNode.is_BBranch(D)
        self.val, self.path, self.child = BNode.bval(D), BNode.bpath(D), BNode.bchild(D)
        self.left, self.right = BNode.bleft(D), BNode.bright(D)


def parts_of(E, h):
    """Parts of the node denoted by h; for a node built on this path (h = keccak(e) with e produced by one of the
    encoders) the pieces are the encoder's arguments themselves"""
    h = z3.simplify(h)
    if z3.is_app(h) and h.decl().eq(specfn.keccak):
        rec = E.ghost.get("encoded", {}).get(h.arg(0).get_id())
        if rec is not None:
            p = Parts(dec(h.arg(0)))
            kind = rec[0]
            t, f = z3.BoolVal(True), z3.BoolVal(False)
            p.is_leaf = t if kind == "leaf" else f
            p.is_kv = t if kind == "kv" else f
            p.is_branch = t if kind == "branch" else f
            if kind == "leaf":
                p.val = rec[1]
            elif kind == "kv":
                p.path, p.child = rec[1], rec[2]
            else:
                p.left, p.right = rec[1], rec[2]
            return p
        return Parts(dec(h.arg(0)))
    return Parts(nd(h))


def apply_rules_at(E, h, q):
    """instantiate, at key q, the view rules recorded for the node h (as result or as source of a callee)"""
    h = z3.simplify(h)
    for (hr, fn, src) in E.ghost.get("view_rules", []):
        if hr.eq(h) or z3.simplify(src).eq(h):
            E.assume(mk_bool(fn(q)))


def is_known_node(E, c):
    c = z3.simplify(c)
    if z3.is_app(c) and c.decl().eq(specfn.keccak):
        return True
    for o in E.ghost.get("opened", []):
        if o.eq(c):
            return True
    return False


def unfold_blk(E, h, k, depth=2):
    """definitional step of blk at (h, k); then the view rules recorded by callee contracts are instantiated at the
    lookup atoms that occur, and atoms over nodes built or opened on this path are unfolded in turn"""
    h, k = z3.simplify(h), z3.simplify(k)
    done = E.ghost.setdefault("blk_unfolded", [])
    for (h2, k2) in done:
        if h2.eq(h) and k2.eq(k):
            return
    done.append((h, k))
    B = blank_hash(E)
    p = parts_of(E, h)
    lk = z3.Length(k)
    kv_tail = z3.simplify(tail(k, z3.Length(p.path)))
    br_tail = z3.simplify(tail(k, 1))
    body = z3.If(h == B, PyVal.PNone,
                 z3.If(p.is_leaf, z3.If(lk == 0, PyVal.PBytes(p.val), PyVal.PNone),
                       z3.If(p.is_kv,
                             z3.If(z3.And(lk > 0, starts_with(k, p.path)), blk(p.child, kv_tail), PyVal.PNone),
                             z3.If(p.is_branch,
                                   z3.If(lk == 0, PyVal.PNone, z3.If(k[0] == 0, blk(p.left, br_tail), blk(p.right, br_tail))),
                                   PyVal.PNone))))
    E.assume(mk_bool(blk(h, k) == body))
    decompose(E, k, p.path)
    pp = z3.simplify(p.path)
    if z3.is_app(pp) and pp.decl().kind() == z3.Z3_OP_SEQ_CONCAT and pp.num_args() == 2:
        # a merged key path a ++ b: walking it is walking a and then b
        from contracts import seqlemmas as SL
        a, b = pp.arg(0), pp.arg(1)
        SL.use(E, "prefix_concat", a, b, k)
        SL.use(E, "tail_tail", k, z3.Length(a), z3.Length(b))
        SL.use(E, "prefix_is_code_slice", pp, k)
        SL.use(E, "prefix_is_code_slice", a, k)
        SL.use(E, "prefix_is_code_slice", b, tail(k, z3.Length(a)))
    for (c, kk) in ((p.child, kv_tail), (p.left, br_tail), (p.right, br_tail)):
        c = z3.simplify(c)
        for (hr, fn, src) in E.ghost.get("view_rules", []):
            # a rule relates the views of an old node `src` and of the node `hr` a callee returned for it; it is
            # instantiated at kk when either of the two is looked up at kk
            if hr.eq(c) or z3.simplify(src).eq(c):
                E.assume(mk_bool(fn(kk)))
                if depth > 0:
                    unfold_blk(E, src, kk, depth - 1)
                    unfold_blk(E, hr, kk, depth - 1)
        if depth > 0 and is_known_node(E, c):
            unfold_blk(E, c, kk, depth - 1)


def decompose(E, k, path):
    """valid facts about the key k that spare the sequence solver the work: a non-empty k is its head followed by
    its tail, and a k that starts with `path` is `path` followed by the rest (prefix elimination, DESIGN 4.6)"""
    done = E.ghost.setdefault("decomposed", [])
    lk = z3.Length(k)
    if not any(x.eq(k) for x in done):
        done.append(k)
        E.assume(mk_bool(z3.Implies(lk > 0, k == z3.Concat(z3.Unit(k[0]), tail(k, 1)))))
        # definition of allbit on a non-empty sequence
        E.assume(mk_bool(z3.Implies(z3.And(lk > 0, allbit(k)), z3.And(z3.Or(k[0] == 0, k[0] == 1), allbit(tail(k, 1))))))
    key = z3.simplify(z3.Concat(k, path))
    if not any(x.eq(key) for x in done):
        done.append(key)
        E.assume(mk_bool(z3.Implies(starts_with(k, path), k == z3.Concat(path, tail(k, z3.Length(path))))))
        E.assume(mk_bool(z3.Implies(k == z3.Concat(path, tail(k, z3.Length(path))), starts_with(k, path))))


brefuse = z3.Function("brefuse", IntS, SeqI, SeqI, BoolS)
# brefuse(mode, h, k): an update of mode (0 insert, 1 delete, 2 delete-subtrie) at bit path k below h is refused
# with NodeOverrideError.  Defined by the walk down the trie (structural recursion on k):
#   insert          : a leaf is reached with key left (k extends a stored key), or the key ends at / inside an
#                     interior node (k is a proper prefix of a stored key)
#   delete          : a leaf is reached with key left, or the key ends exactly at an interior node
#   delete-subtrie  : a leaf is reached with key left


def unfold_brefuse(E, mode, h, k):
    h, k = z3.simplify(h), z3.simplify(k)
    done = E.ghost.setdefault("brefuse_unfolded", [])
    for (m2, h2, k2) in done:
        if m2 == mode and h2.eq(h) and k2.eq(k):
            return
    done.append((mode, h, k))
    B = blank_hash(E)
    p = parts_of(E, h)
    lk = z3.Length(k)
    m = z3.IntVal(mode)
    kv_tail = z3.simplify(tail(k, z3.Length(p.path)))
    br_tail = z3.simplify(tail(k, 1))
    ends_here = z3.BoolVal(mode in (0, 1))
    diverges = z3.PrefixOf(k, p.path) if mode == 0 else z3.BoolVal(False)
    if mode == 2:
        kv_case = z3.If(lk == 0, z3.BoolVal(False),
                        z3.If(z3.PrefixOf(p.path, k), brefuse(m, p.child, kv_tail), z3.BoolVal(False)))
    else:
        kv_case = z3.If(lk == 0, ends_here, z3.If(z3.PrefixOf(p.path, k), brefuse(m, p.child, kv_tail), diverges))
    body = z3.If(h == B, z3.BoolVal(False),
                 z3.If(p.is_leaf, lk > 0,
                       z3.If(p.is_kv, kv_case,
                             z3.If(p.is_branch,
                                   z3.If(lk == 0, ends_here if mode != 2 else z3.BoolVal(False),
                                         z3.If(k[0] == 0, brefuse(m, p.left, br_tail), brefuse(m, p.right, br_tail))),
                                   z3.BoolVal(False)))))
    E.assume(mk_bool(brefuse(m, h, k) == body))


def unfold_bavail(E, H, h, k):
    B = blank_hash(E)
    p = parts_of(E, h)
    lk = z3.Length(k)
    body = z3.If(h == B, z3.BoolVal(True),
                 z3.And(z3.Select(H, h),
                        z3.If(p.is_kv,
                              z3.If(z3.And(lk > 0, starts_with(k, p.path)),
                                    bavail(H, p.child, tail(k, z3.Length(p.path))), z3.BoolVal(True)),
                              z3.If(z3.And(p.is_branch, lk > 0),
                                    z3.If(k[0] == 0, bavail(H, p.left, tail(k, 1)), bavail(H, p.right, tail(k, 1))),
                                    z3.BoolVal(True)))))
    E.assume(mk_bool(bavail(H, h, k) == body))


class BinDbInvariant:
    """invariant of a binary-trie store: every entry is content-addressed and encodes a well-formed node -- and, for
    the store of a BinaryTrie (canonical=True), a canonical one (C12: the trie under every root is the canonical trie
    of its contents).  Reading an entry yields these facts for that entry; every write must re-establish them
    (obligations)."""

    def __init__(self, canonical=True):
        self.canonical = canonical

    def on_read(self, E, d, kt, vt):
        E.ghost.setdefault("opened", []).append(z3.simplify(kt))
        E.assume(mk_bool(vt == unk(kt)))
        E.assume(mk_bool(specfn.keccak(unk(kt)) == kt))
        E.assume(mk_bool((wfc if self.canonical else wf)(nd(kt), blank_hash(E))))
        return unk(kt)          # the value read *is* the denoted body: use that term (it equals vt by the first fact)

    def on_write(self, E, d, kt, vt):
        # the invariant, instantiated at the key being written (an entry already there is content-addressed)
        E.assume(mk_bool(z3.Implies(z3.Select(d.has, kt), z3.Select(d.val, kt) == unk(kt))))
        E.prove("store-write/content-addressed", mk_bool(kt == specfn.keccak(vt)), kind="frame",
                detail="db[k] = v is executed with k = keccak(v)")
        E.prove("store-write/well-formed-node", mk_bool(wf(dec(vt), blank_hash(E))), kind="frame")
        if self.canonical:
            Dw = dec(vt)
            E.prove("store-write/canonical-node", mk_bool(z3.Implies(BNode.is_BKV(Dw), z3.Not(BNode.is_BKV(nd(BNode.bchild(Dw)))))),
                    kind="frame", detail="a kv node is never written directly over another kv node")
        E.prove("store-write/existing-entry-unchanged", mk_bool(z3.Implies(z3.Select(d.has, kt), z3.Select(d.val, kt) == vt)),
                kind="frame", detail="a write to an existing key stores the value that is already there")


def mk_trie(E):
    from contracts import objs
    t = objs.mk_binary(E)
    t.fields["db"].hooks = BinDbInvariant()
    E.ghost["adt_nodes"] = True          # node encoders / parser are used through their datatype view
    return t
