"""Contracts for trie/utils/binaries.py -- property C16 (bit strings, key-path packing), used by C12/C13.

A bit string is a `bytes` object whose elements are 0/1.  encode_to_bin / decode_from_bin are verified
element-wise in the array encoding; callers use the uninterpreted BITS / UNBITS with the inverse lemmas proved
here.  The key-path round trip is proved by executing the two real functions one after the other."""
import z3

from pyvc import ops
from pyvc.interp import LoopSpec
from pyvc.sym import ASeq, SSeq, SInt, SBool, IntS, SeqI, BoolS, mk_bool, mk_int, as_int_term
from pyvc.unit import Contract, Case, Lemma, find_function
from contracts.nibbles_c import fresh_aseq, forall_idx

MOD = "trie.utils.binaries"

BITS = z3.Function("bits", SeqI, SeqI)        # bytes -> bit string (8 per byte, MSB first)
UNBITS = z3.Function("unbits", SeqI, SeqI)    # bit string of length 8k -> bytes
allbit = z3.Function("allbit", SeqI, BoolS)   # every element is 0 or 1 (unfolded structurally like allnib)


def allbit_of(t, side=None):
    """formula for allbit(t) with the constructors unfolded; `side` receives the definitional equation
    allbit(t) == <unfolding> and the slice implications"""
    f = _allbit_of_raw(t, side)
    if side is not None:
        side.append(allbit(z3.simplify(t)) == f)
    return f


def _allbit_of_raw(t, side=None):
    t = z3.simplify(t)
    if z3.is_app(t):
        k = t.decl().kind()
        if k == z3.Z3_OP_SEQ_CONCAT:
            return z3.And(*[_allbit_of_raw(a, side) for a in t.children()])
        if k == z3.Z3_OP_SEQ_UNIT:
            c = t.arg(0)
            return z3.Or(c == 0, c == 1)
        if k == z3.Z3_OP_SEQ_EMPTY:
            return z3.BoolVal(True)
        if k == z3.Z3_OP_ITE:
            return z3.If(t.arg(0), _allbit_of_raw(t.arg(1), side), _allbit_of_raw(t.arg(2), side))
        if k == z3.Z3_OP_SEQ_EXTRACT:
            if side is not None:
                side.append(z3.Implies(_allbit_of_raw(t.arg(0), side), allbit(t)))
                side.append(z3.Implies(z3.Length(t) == 0, allbit(t)))
            return allbit(t)
        if t.decl().eq(BITS):
            return z3.BoolVal(True)
    return allbit(t)


def bit_weight(e):
    return 2 ** (7 - e)


def bits_pointwise(v, r):
    out = [("length", mk_bool(r.n == 8 * v.n))]
    for e in range(8):
        out.append(("bit%d" % e, mk_bool(forall_idx("j!b%d" % e, v.n, lambda j, e=e: z3.Select(r.arr, 8 * j + e) ==
                                                    (z3.Select(v.arr, j) / bit_weight(e)) % 2))))
    return out


def e2b_setup(E):
    return {"value": fresh_aseq(E, "value", "bytes", 0, 255)}


def s_bits(E, v):
    t = ops.seq_term_as(v, "int")
    r = z3.Const(E.fresh_name("bits"), SeqI)
    E.assume(mk_bool(r == BITS(t)))
    E.assume(mk_bool(z3.Length(r) == 8 * z3.Length(t)))
    E.assume(mk_bool(allbit(r)))
    E.assume(mk_bool(UNBITS(r) == t))                  # lemma bits_roundtrip/unbits.bits
    return SSeq(r, "bytes", "int", rng=(0, 1))


def e2b_cases(E, ctx):
    v = ctx.value
    if isinstance(v, ASeq):
        return [Case("bits", ensures=lambda r: ([("bytes", isinstance(r, ASeq) and r.kind == "bytes")] +
                                                (bits_pointwise(v, r) if isinstance(r, ASeq) else [])))]
    return [Case("bits", returns=lambda: s_bits(E, v))]


def e2b_inv(E, fr, i):
    v = fr.locals["value"]
    out = fr.gen_out.val
    it = as_int_term(i)
    res = [("length", mk_bool(out.n == 8 * it))]
    for e in range(8):
        res.append(("bit%d" % e, mk_bool(forall_idx("j!i%d" % e, it, lambda j, e=e: z3.Select(out.arr, 8 * j + e) ==
                                                    (z3.Select(v.arr, j) / bit_weight(e)) % 2))))
    return res


def unbits_pointwise(b, r):
    def val(j):
        s = 0
        for e in range(8):
            s = s + z3.Select(b.arr, 8 * j + e) * bit_weight(e)
        return s
    return [("length", mk_bool(8 * r.n == b.n)),
            ("packed", mk_bool(forall_idx("j!u", r.n, lambda j: z3.Select(r.arr, j) == val(j))))]


def d2b_setup(E):
    b = fresh_aseq(E, "input_bin", "bytes", 0, 1)
    E.assume(mk_bool(b.n % 8 == 0))
    return {"input_bin": b}


def d2b_requires(E, ctx):
    b = ctx.input_bin
    if isinstance(b, ASeq):
        return [("length-multiple-of-8", mk_bool(b.n % 8 == 0))]
    t = ops.seq_term_as(b, "int")
    side = []
    ok = allbit_of(t, side)
    for f in side:
        E.assume(mk_bool(f))
    return [("length-multiple-of-8", mk_bool(z3.Length(t) % 8 == 0)), ("bits", mk_bool(ok))]


def d2b_cases(E, ctx):
    b = ctx.input_bin
    if isinstance(b, ASeq):
        return [Case("bytes", ensures=lambda r: ([("bytes", isinstance(r, ASeq) and r.kind == "bytes")] +
                                                 (unbits_pointwise(b, r) if isinstance(r, ASeq) else [])))]
    t = ops.seq_term_as(b, "int")

    def ret():
        r = z3.Const(E.fresh_name("unbits"), SeqI)
        E.assume(mk_bool(r == UNBITS(t)))
        E.assume(mk_bool(8 * z3.Length(r) == z3.Length(t)))
        E.assume(mk_bool(BITS(r) == t))                # lemma bits_roundtrip/bits.unbits
        return SSeq(r, "bytes", "int")
    return [Case("bytes", returns=ret)]


def d2b_inv(E, fr, i):
    b = fr.locals["input_bin"]
    out = fr.gen_out.val
    it = as_int_term(i)

    def val(j):
        s = 0
        for e in range(8):
            s = s + z3.Select(b.arr, 8 * j + e) * bit_weight(e)
        return s
    return [("length", mk_bool(out.n == it)),
            ("packed", mk_bool(forall_idx("j!p", it, lambda j: z3.Select(out.arr, j) == val(j))))]


def lemma_bits_unbits(E):
    """bits(unbits(b)) = b for a bit string b whose length is a multiple of 8 (instances at the byte holding bit k)"""
    b = fresh_aseq(E, "b", "bytes")
    E.assume(mk_bool(b.n % 8 == 0))
    k = z3.Int("k!sk")
    E.assume(mk_bool(z3.And(k >= 0, k < b.n)))
    q = k / 8
    byte = z3.Int("byte!q")
    s = 0
    for e in range(8):
        x = z3.Select(b.arr, 8 * q + e)
        E.assume(mk_bool(z3.Or(x == 0, x == 1)))
        s = s + x * bit_weight(e)
    E.assume(mk_bool(byte == s))                                     # decode_from_bin's contract at q
    r = fresh_aseq(E, "r", "bytes")
    for e in range(8):
        E.assume(mk_bool(z3.Select(r.arr, 8 * q + e) == (byte / bit_weight(e)) % 2))    # encode_to_bin's contract at q
    E.prove("bits_roundtrip/bits(unbits(b)):pointwise", mk_bool(z3.Select(r.arr, k) == z3.Select(b.arr, k)), kind="lemma")
    E.prove("bits_roundtrip/unbits-is-a-byte", mk_bool(z3.And(byte >= 0, byte <= 255)), kind="lemma")


def lemma_unbits_bits(E):
    """unbits(bits(v)) = v for a byte string v"""
    v = z3.Int("v!k")
    E.assume(mk_bool(z3.And(v >= 0, v <= 255)))
    s = 0
    for e in range(8):
        bit = (v / bit_weight(e)) % 2
        s = s + bit * bit_weight(e)
    E.prove("bits_roundtrip/unbits(bits(v)):pointwise", mk_bool(s == v), kind="lemma")


# ---------------------------------------------------------------------------------------------------
# key-path packing

KPE = z3.Function("keypath_enc", SeqI, SeqI)
KPD = z3.Function("keypath_dec", SeqI, SeqI)


def kp_setup(E):
    b = E.fresh_seq("input_bin", "bytes", "int")
    b.rng = (0, 1)
    E.assume(mk_bool(allbit(b.t)))
    return {"input_bin": b}


def kpe_cases(E, ctx):
    t = ops.seq_term_as(ctx.input_bin, "int")

    def ret():
        r = z3.Const(E.fresh_name("kpe"), SeqI)
        E.assume(mk_bool(r == KPE(t)))
        E.assume(mk_bool(KPD(r) == t))                 # lemma keypath_roundtrip
        E.assume(mk_bool(z3.Length(r) >= 1))
        return SSeq(r, "bytes", "int")
    return [Case("packed", returns=ret)]


def kpe_requires(E, ctx):
    t = ops.seq_term_as(ctx.input_bin, "int")
    side = []
    ok = allbit_of(t, side)
    for f in side:
        E.assume(mk_bool(f))
    return [("bits", mk_bool(ok))]


kp_ok = z3.Function("keypath_dec_ok", SeqI, BoolS)


def kpd_setup(E):
    return {"path": E.fresh_seq("path", "bytes")}


def kpd_cases(E, ctx):
    """decode_to_bin_keypath is a pure function of its argument: it either returns KPD(path) or raises (one of
    IndexError / AssertionError / ValueError), and which of the two is the predicate kp_ok(path)"""
    t = ops.seq_term_as(ctx.path, "int")

    def ret():
        r = z3.Const(E.fresh_name("kpd"), SeqI)
        E.assume(mk_bool(r == KPD(t)))
        E.assume(mk_bool(allbit(r)))
        return SSeq(r, "bytes", "int", rng=(0, 1))
    return [Case("decoded", when=mk_bool(kp_ok(t)), returns=ret),
            Case("malformed", when=mk_bool(z3.Not(kp_ok(t))), raises=Exception)]


def lemma_keypath_roundtrip(E):
    """decode_to_bin_keypath(encode_from_bin_keypath(b)) == b for every bit string b: the two real functions are
    executed one after the other (their calls to encode_to_bin / decode_from_bin go through the contracts)"""
    b = E.fresh_seq("b", "bytes", "int")
    b.rng = (0, 1)
    E.assume(mk_bool(allbit(b.t)))
    # case split on |b| mod 8 with an explicit quotient, so that the length obligations below are linear
    m = z3.Int("m!len")
    c = E.choose([mk_bool(z3.Length(b.t) % 8 == r) for r in range(8)])
    E.assume(mk_bool(z3.And(m >= 0, z3.Length(b.t) == 8 * m + c)))
    enc_f = find_function(E.loader, MOD + ":encode_from_bin_keypath")
    dec_f = find_function(E.loader, MOD + ":decode_to_bin_keypath")
    E.inline = {MOD + ":encode_from_bin_keypath", MOD + ":decode_to_bin_keypath"}
    from pyvc.sym import PyRaise
    try:
        enc = E.call(enc_f, [b])
        E.prove("keypath_roundtrip/encoding-nonempty", mk_bool(z3.Length(enc.t) >= 1), kind="lemma")
        dec = E.call(dec_f, [enc])
        E.prove("keypath_roundtrip/decoded-is-a-bit-string", mk_bool(allbit_of(dec.t) if isinstance(dec, SSeq) else False),
                kind="lemma")
    except PyRaise as pr:
        E.prove("keypath_roundtrip/no-exception", False, kind="lemma", detail="raised %r" % (pr.exc,))
        return
    E.prove("keypath_roundtrip/no-exception", True, kind="lemma")
    E.prove("keypath_roundtrip/identity", ops.py_eq(dec, b), kind="lemma")


def register(reg):
    g = "binaries"
    reg.add(g, Contract(MOD + ":encode_to_bin", ["value"], e2b_cases, setup=e2b_setup, props=("C16", "C12")))
    reg.loops[(MOD + ":encode_to_bin", 0)] = LoopSpec(e2b_inv, fresh={"__yield__": ("aseq", "bytes")})
    reg.add(g, Contract(MOD + ":decode_from_bin", ["input_bin"], d2b_cases, setup=d2b_setup, requires=d2b_requires,
                        props=("C16", "C12")))
    reg.loops[(MOD + ":decode_from_bin", 0)] = LoopSpec(d2b_inv, fresh={"__yield__": ("aseq", "bytes")})
    reg.add_lemma(g, Lemma("lemma:bits_roundtrip/bits.unbits", ("C16",), lemma_bits_unbits))
    reg.add_lemma(g, Lemma("lemma:bits_roundtrip/unbits.bits", ("C16",), lemma_unbits_bits))
    reg.add_lemma(g, Lemma("lemma:keypath_roundtrip", ("C16", "C12"), lemma_keypath_roundtrip))
    # callee-only views of the two key-path functions: pure functions of their argument (KPE / KPD), inverse to
    # each other by the lemma above
    def kpe_cases2(E, ctx):
        t = ops.seq_term_as(ctx.input_bin, "int")

        def ret():
            r = z3.Const(E.fresh_name("kpe"), SeqI)
            E.assume(mk_bool(r == KPE(t)))
            E.assume(mk_bool(z3.And(kp_ok(r), KPD(r) == t)))     # lemma keypath_roundtrip
            E.assume(mk_bool(z3.Length(r) >= 1))
            return SSeq(r, "bytes", "int")
        return [Case("packed", returns=ret)]
    reg.add(g, Contract(MOD + ":encode_from_bin_keypath", ["input_bin"], kpe_cases2, requires=kpe_requires,
                        props=("C16",), verify=False, justified_by="lemma:keypath_roundtrip (the function is pure)"))
    reg.add(g, Contract(MOD + ":decode_to_bin_keypath", ["path"], kpd_cases, props=("C16",), verify=False,
                        justified_by="purity of the function; lemma:keypath_roundtrip for encoded paths"))
