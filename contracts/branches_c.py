"""C13: if_branch_valid is unforgeable (ideal-hash reading).

if_branch_valid(branch, root_hash, key, value) rebuilds a database from the nodes it is handed and looks the key up
below root_hash.  Whatever well-formed nodes are offered -- nodes of this trie, of another trie, reordered,
truncated, duplicated --, when the call returns True the claimed value is the value the root really denotes for the
key:  blk(root_hash, bits(key)) == value.   (Nodes altered into *malformed* bodies are outside this unit: the
bounded tier covers them.)"""
import z3

from pyvc import ops, specfn
from pyvc.interp import LoopSpec
from pyvc.sym import SSeq, SBool, SPy, PyVal, ExcObj, SeqI, SeqSeqI, IntS, mk_bool, mk_int, to_pyval
from pyvc.unit import Contract, Case
from contracts import objs
from contracts import binmodel as BM

MOD = "trie.branches"
bel = z3.Function("branch_node", IntS, SeqI)        # the i-th node of the offered branch


class BranchNodes:
    """the `branch` argument: an arbitrary finite sequence of well-formed node bodies"""
    kind = "tuple"

    def __init__(self, E):
        self.n = E.fresh_int("len(branch)")
        E.assume(mk_bool(self.n.t >= 0))
        i = z3.Int("i!branch")
        E.assume(mk_bool(z3.ForAll([i], BM.wf(BM.dec(bel(i)), BM.blank_hash(E)), patterns=[bel(i)])))
        # A-HASH at the offered nodes (the engine states it for every hash it computes; here the hash is computed
        # under a quantifier)
        E.assume(mk_bool(z3.ForAll([i], z3.And(specfn.unkeccak(specfn.keccak(bel(i))) == bel(i),
                                               z3.Length(specfn.keccak(bel(i))) == 32),
                                   patterns=[specfn.keccak(bel(i))])))

    def py_iter_len(self, E):
        return self.n

    def py_iter_elem(self, E, i):
        return SSeq(bel(i.t if hasattr(i, "t") else i), "bytes")

    def py_truth(self):
        return mk_bool(self.n.t > 0)


def ibv_setup(E):
    E.ghost["adt_nodes"] = True
    key = E.fresh_seq("key", "bytes")
    value = E.fresh_py("value")
    E.assume(mk_bool(z3.Or(PyVal.is_PNone(value.t), PyVal.is_PBytes(value.t))))

    def hook(E2, d, i, n, kt, vt):
        # the database rebuilt from the branch satisfies the store invariant of the binary trie (content addressed,
        # well-formed nodes): proved here once, then assumed on reads like for any other binary-trie store
        x = z3.Const("x!inv", SeqI)
        E2.prove("rebuilt-database/store-invariant",
                 mk_bool(z3.ForAll([x], z3.Implies(z3.Select(d.has, x), z3.And(
                     z3.Select(d.val, x) == BM.unk(x), specfn.keccak(BM.unk(x)) == x,
                     BM.wf(BM.nd(x), BM.blank_hash(E2)))))), kind="contract")
        d.hooks = BM.BinDbInvariant(canonical=False)
    E.ghost["dictcomp_hook"] = hook
    return {"branch": BranchNodes(E), "root_hash": objs.hash32(E, "root_hash"), "key": key, "value": value}


def ibv_cases(E, ctx):
    from contracts.binary_c import key_bits
    root = ops.seq_term_as(ctx.root_hash, "int")

    def ens(res):
        kb = key_bits(E, ctx.key).t
        return [("answers-true", res is True),
                ("the-claimed-value-is-what-the-root-denotes", mk_bool(BM.blk(root, kb) == to_pyval(ctx.value)))]
    return [Case("validated", ensures=ens),
            Case("rejected-assertion", raises=AssertionError),
            Case("rejected-missing-node", raises=KeyError),
            Case("rejected-invalid-node", raises=objs.exc(E, "ValidationError")),
            Case("rejected-unparsable-node", raises=objs.exc(E, "InvalidNode")),
            Case("rejected-empty-node", raises=IndexError)]


def register(reg):
    register_exist(reg)
    register_nodes(reg)
    register_get_branch(reg)
    register_witness(reg)
    reg.add("binary_branches", Contract(MOD + ":if_branch_valid", ["branch", "root_hash", "key", "value"], ibv_cases,
                                        setup=ibv_setup, props=("C13",), callee=False,
                                        loops={0: LoopSpec(lambda E, fr, i: [], fresh={"node": "unbound"})}))


# ---------------------------------------------------------------------------------------------------
# check_if_branch_exist / _check_if_branch_exist: the function against its specification bexists
#
#   bexists(h, p)   the trie under h has a key that starts with the bit string p:
#       blank: no;   leaf: p is empty;   kv(path, c): p is empty, or p is a proper prefix of path, or path is a prefix
#       of p and bexists(c, rest);   branch(l, r): p is empty, or bexists(l / r chosen by the first bit, rest)
# (uninterpreted, unfolded at the node visited).  That bexists(h, p) <=> exists k. blk(h, k) != None and p is a prefix
# of k is a lemma about the two definitions on canonical tries (every non-blank node holds a key) -- not a pyvc
# obligation.

bexists = z3.Function("bexists", SeqI, SeqI, z3.BoolSort())


def unfold_bexists(E, h, p):
    P = BM.parts_of(E, h)
    lp, lpath = z3.Length(p), z3.Length(P.path)
    kv = z3.If(lp == 0, True,
               z3.If(lp < lpath, z3.PrefixOf(p, P.path),
                     z3.And(z3.PrefixOf(P.path, p), bexists(P.child, BM.tail(p, lpath)))))
    br = z3.If(lp == 0, True, z3.If(p[0] == 0, bexists(P.left, BM.tail(p, 1)), bexists(P.right, BM.tail(p, 1))))
    body = z3.If(h == BM.blank_hash(E), False,
                 z3.If(P.is_leaf, lp == 0, z3.If(P.is_kv, kv, z3.If(P.is_branch, br, False))))
    E.assume(mk_bool(bexists(h, p) == body))


def cbe_setup(E):
    from contracts.binary_c import bits
    E.ghost["adt_nodes"] = True
    db = E.fresh_dict("db", "bytes", "bytes")
    db.hooks = BM.BinDbInvariant()
    return {"db": db, "node_hash": objs.hash32(E, "node_hash"), "key_prefix": bits(E, "key_prefix")}


def cbe_requires(E, ctx):
    from contracts.binaries_c import allbit_of
    side = []
    ok = allbit_of(ops.seq_term_as(ctx.key_prefix, "int"), side)
    for f in side:
        E.assume(mk_bool(f))
    return [("hash-is-32-bytes", mk_bool(z3.Length(ops.seq_term_as(ctx.node_hash, "int")) == 32)),
            ("prefix-is-a-bit-string", mk_bool(ok))]


def cbe_cases(E, ctx):
    h = ops.seq_term_as(ctx.node_hash, "int")
    p = ops.seq_term_as(ctx.key_prefix, "int")
    unfold_bexists(E, h, p)
    from contracts import seqlemmas as SL
    P = BM.parts_of(E, h)
    SL.use(E, "prefix_is_slice", P.path, p)
    SL.use(E, "prefix_is_slice", p, P.path)
    return [Case("answer", returns=lambda: mk_bool(bexists(h, p))),
            Case("missing-node", raises=KeyError)]


def cbe_api_setup(E):
    E.ghost["adt_nodes"] = True
    db = E.fresh_dict("db", "bytes", "bytes")
    db.hooks = BM.BinDbInvariant()
    return {"db": db, "root_hash": objs.hash32(E, "root_hash"), "key_prefix": E.fresh_seq("key_prefix", "bytes")}


def cbe_api_cases(E, ctx):
    from contracts.binary_c import key_bits
    root = ops.seq_term_as(ctx.root_hash, "int")
    kb = key_bits(E, ctx.key_prefix).t
    return [Case("answer", returns=lambda: mk_bool(bexists(root, kb))),
            Case("missing-node", raises=KeyError)]


def register_exist(reg):
    g = "binary_branches"
    reg.add(g, Contract(MOD + ":_check_if_branch_exist", ["db", "node_hash", "key_prefix"], cbe_cases, setup=cbe_setup,
                        requires=cbe_requires, props=("C13",)))
    reg.add(g, Contract(MOD + ":check_if_branch_exist", ["db", "root_hash", "key_prefix"], cbe_api_cases,
                        setup=cbe_api_setup, props=("C13",), callee=False))


# ---------------------------------------------------------------------------------------------------
# get_trie_nodes / _get_trie_nodes: the function against its specification bnodes
#
#   bnodes(H, h)  the bodies of the nodes reachable from h that are available in H, parents first, left before right:
#       h not in H: ();  kv: (body,) ++ bnodes(child);  branch: (body,) ++ bnodes(left) ++ bnodes(right);  leaf: (body,)

bnodes = z3.Function("bnodes", z3.ArraySort(SeqI, z3.BoolSort()), SeqI, SeqSeqI)


def unfold_bnodes(E, H, h):
    P = BM.parts_of(E, h)
    me = z3.Unit(BM.unk(h))
    body = z3.If(z3.Select(H, h),
                 z3.If(P.is_kv, z3.Concat(me, bnodes(H, P.child)),
                       z3.If(P.is_branch, z3.Concat(me, bnodes(H, P.left), bnodes(H, P.right)), me)),
                 z3.Empty(SeqSeqI))
    E.assume(mk_bool(bnodes(H, h) == body))


def gtn_setup(E):
    E.ghost["adt_nodes"] = True
    db = E.fresh_dict("db", "bytes", "bytes")
    db.hooks = BM.BinDbInvariant()
    return {"db": db, "node_hash": objs.hash32(E, "node_hash")}


def gtn_cases(E, ctx):
    H = ctx.old_has(ctx.db)
    h = ops.seq_term_as(ctx.node_hash, "int")
    unfold_bnodes(E, H, h)
    return [Case("nodes", returns=lambda: SSeq(bnodes(H, h), "tuple", "bytes"))]


def gtn_requires(E, ctx):
    return [("hash-is-32-bytes", mk_bool(z3.Length(ops.seq_term_as(ctx.node_hash, "int")) == 32))]


def register_nodes(reg):
    g = "binary_branches"
    reg.add(g, Contract(MOD + ":get_trie_nodes", ["db", "node_hash"], gtn2_cases, setup=gtn_setup, requires=gtn_requires,
                        props=("C13",)))


# ---------------------------------------------------------------------------------------------------
# get_branch / _get_branch against their specification
#
#   brok(h, k)   get_branch accepts the key: it is not cut short inside the trie and does not run past a leaf
#   bbr(h, k)    the node bodies on the path of k below h, root first
# and:  a refused key is not stored  (blk(h, k) = None whenever not brok(h, k))

brok = z3.Function("brok", SeqI, SeqI, z3.BoolSort())
bbr = z3.Function("bbr", SeqI, SeqI, SeqSeqI)


def unfold_branch_spec(E, h, k):
    P = BM.parts_of(E, h)
    lk = z3.Length(k)
    me = z3.Unit(BM.unk(h))
    through = z3.PrefixOf(P.path, k)
    rest = BM.tail(k, z3.Length(P.path))
    nxt = z3.If(k[0] == 0, P.left, P.right)
    blank = h == BM.blank_hash(E)
    ok = z3.If(blank, True,
               z3.If(P.is_leaf, lk == 0,
                     z3.If(P.is_kv, z3.And(lk > 0, z3.Implies(through, brok(P.child, rest))),
                           z3.And(lk > 0, brok(nxt, BM.tail(k, 1))))))
    seq = z3.If(blank, z3.Empty(SeqSeqI),
                z3.If(P.is_leaf, me,
                      z3.If(P.is_kv, z3.If(through, z3.Concat(me, bbr(P.child, rest)), me),
                            z3.Concat(me, bbr(nxt, BM.tail(k, 1))))))
    E.assume(mk_bool(brok(h, k) == ok))
    E.assume(mk_bool(z3.Implies(brok(h, k), bbr(h, k) == seq)))


allin = z3.Function("allin", z3.ArraySort(SeqI, z3.BoolSort()), SeqSeqI, z3.BoolSort())   # every body of the tuple has its hash in H
HG = z3.Const("HG!ghost", z3.ArraySort(SeqI, z3.BoolSort()))     # ghost: an arbitrary set of available hashes


def unfold_allin(E, H, first, rest):
    """definition of allin on a tuple given as first-body ++ rest (and on the empty tuple)"""
    E.assume(mk_bool(allin(H, z3.Empty(SeqSeqI))))
    E.assume(mk_bool(allin(H, z3.Unit(first)) == z3.Select(H, specfn.keccak(first))))
    E.assume(mk_bool(allin(H, z3.Concat(z3.Unit(first), rest)) == z3.And(z3.Select(H, specfn.keccak(first)), allin(H, rest))))


def gb_setup(E):
    from contracts.binary_c import bits
    E.ghost["adt_nodes"] = True
    db = E.fresh_dict("db", "bytes", "bytes")
    db.hooks = BM.BinDbInvariant()
    return {"db": db, "node_hash": objs.hash32(E, "node_hash"), "keypath": bits(E, "keypath")}


def gb_requires(E, ctx):
    from contracts.binaries_c import allbit_of
    side = []
    ok = allbit_of(ops.seq_term_as(ctx.keypath, "int"), side)
    for f in side:
        E.assume(mk_bool(f))
    return [("hash-is-32-bytes", mk_bool(z3.Length(ops.seq_term_as(ctx.node_hash, "int")) == 32)),
            ("key-is-a-bit-string", mk_bool(ok))]


def gb_cases(E, ctx):
    h = ops.seq_term_as(ctx.node_hash, "int")
    k = ops.seq_term_as(ctx.keypath, "int")
    unfold_branch_spec(E, h, k)
    BM.unfold_blk(E, h, k)
    from contracts import seqlemmas as SL
    P = BM.parts_of(E, h)
    SL.use(E, "prefix_is_slice", P.path, k)
    unit_mode = hasattr(ctx, "outcome")
    ike = objs.exc(E, "InvalidKeyError")

    def refused_clause(e):
        return [("a-refused-key-is-not-stored", mk_bool(BM.blk(h, k) == PyVal.PNone))]

    def make_refused():
        E.assume(mk_bool(BM.blk(h, k) == PyVal.PNone))
        return ExcObj(ike, ("refused",))
    def sufficient(r):
        # the branch suffices to answer the key: in any store H that has the yielded nodes, the lookup of k below h
        # finds every node it dereferences (ghost H arbitrary)
        me = BM.unk(h)
        for c, rest in ((P.child, BM.tail(k, z3.Length(P.path))), (P.left, BM.tail(k, 1)), (P.right, BM.tail(k, 1))):
            unfold_allin(E, HG, me, bbr(c, rest))
        BM.unfold_bavail(E, HG, h, k)
        return [("the-branch-suffices-for-the-lookup", mk_bool(z3.Implies(allin(HG, bbr(h, k)), BM.bavail(HG, h, k))))]

    def make_branch():
        E.assume(mk_bool(z3.Implies(allin(HG, bbr(h, k)), BM.bavail(HG, h, k))))
        return SSeq(bbr(h, k), "tuple", "bytes")
    return [Case("branch", when=mk_bool(brok(h, k)), returns=(lambda: SSeq(bbr(h, k), "tuple", "bytes")) if unit_mode else None,
                 ensures=sufficient if unit_mode else None, make=None if unit_mode else make_branch),
            Case("refused", when=mk_bool(z3.Not(brok(h, k))), raises=ike, exc=refused_clause,
                 make=None if unit_mode else make_refused),
            Case("missing-node", raises=KeyError)]


def gb_api_setup(E):
    E.ghost["adt_nodes"] = True
    db = E.fresh_dict("db", "bytes", "bytes")
    db.hooks = BM.BinDbInvariant()
    return {"db": db, "root_hash": objs.hash32(E, "root_hash"), "key": E.fresh_seq("key", "bytes")}


def gb_api_cases(E, ctx):
    from contracts.binary_c import key_bits
    root = ops.seq_term_as(ctx.root_hash, "int")
    kb = key_bits(E, ctx.key).t
    ike = objs.exc(E, "InvalidKeyError")
    return [Case("branch", when=mk_bool(brok(root, kb)), returns=lambda: SSeq(bbr(root, kb), "tuple", "bytes")),
            Case("refused", when=mk_bool(z3.Not(brok(root, kb))), raises=ike,
                 exc=lambda e: [("a-refused-key-is-not-stored", mk_bool(BM.blk(root, kb) == PyVal.PNone))]),
            Case("missing-node", raises=KeyError)]


def register_get_branch(reg):
    g = "binary_branches"
    reg.add(g, Contract(MOD + ":_get_branch", ["db", "node_hash", "keypath"], gb_cases, setup=gb_setup,
                        requires=gb_requires, props=("C13",)))
    reg.add(g, Contract(MOD + ":get_branch", ["db", "root_hash", "key"], gb_api_cases, setup=gb_api_setup,
                        props=("C13",), callee=False))


# ---------------------------------------------------------------------------------------------------
# get_trie_nodes suffices for every lookup below its root; get_witness_for_key_prefix
#
# Ghost: HG (an arbitrary set of available hashes, above) and KG (an arbitrary bit string).

KG = z3.Const("KG!ghost", SeqI)


def gtn_sufficient_clause(E, H, h, k=None):
    """if the store H holds every node the lookup of k below h dereferences, and HG holds (the hashes of) all the
    bodies get_trie_nodes(H, h) returns, then HG holds every node that lookup dereferences"""
    k = KG if k is None else k
    return z3.Implies(z3.And(BM.bavail(H, h, k), allin(HG, bnodes(H, h))), BM.bavail(HG, h, k))


def unfold_allin_concat(E, H, a, b):
    """allin distributes over concatenation (definition of allin: every element)"""
    E.assume(mk_bool(allin(H, z3.Concat(a, b)) == z3.And(allin(H, a), allin(H, b))))


def gtn2_cases(E, ctx):
    H = ctx.old_has(ctx.db)
    h = ops.seq_term_as(ctx.node_hash, "int")
    unfold_bnodes(E, H, h)
    unit_mode = hasattr(ctx, "outcome")
    P = BM.parts_of(E, h)

    def ens(r):
        me = BM.unk(h)
        BM.unfold_bavail(E, H, h, KG)
        BM.unfold_bavail(E, HG, h, KG)
        rest_kv = BM.tail(KG, z3.Length(P.path))
        unfold_allin(E, HG, me, bnodes(H, P.child))
        unfold_allin(E, HG, me, z3.Concat(bnodes(H, P.left), bnodes(H, P.right)))
        unfold_allin_concat(E, HG, bnodes(H, P.left), bnodes(H, P.right))
        for (H2, h2) in E.ghost.get("gtn_rules", []):
            for kk in (rest_kv, BM.tail(KG, 1)):                     # the callee's clause, at the rest of the key
                E.assume(mk_bool(gtn_sufficient_clause(E, H2, h2, k=kk)))
        return [("nodes-suffice-for-every-lookup-below", mk_bool(gtn_sufficient_clause(E, H, h)))]

    def make():
        # callee view: the same clause at the keys a caller continues with (rule, instantiated on demand)
        E.ghost.setdefault("gtn_rules", []).append((H, h))
        E.assume(mk_bool(gtn_sufficient_clause(E, H, h)))
        return SSeq(bnodes(H, h), "tuple", "bytes")
    return [Case("nodes", returns=(lambda: SSeq(bnodes(H, h), "tuple", "bytes")) if unit_mode else None,
                 ensures=ens if unit_mode else None, make=None if unit_mode else make)]


def unfold_allin_term(E, H, t, depth=6):
    """definition of allin along the structure of the tuple term t (concatenations, one-element tuples, conditionals)"""
    t = z3.simplify(t)
    if depth <= 0 or not z3.is_app(t):
        return
    k = t.decl().kind()
    if k == z3.Z3_OP_SEQ_CONCAT:
        parts = t.children()
        E.assume(mk_bool(allin(H, t) == z3.And(*[allin(H, p) for p in parts])))
        for p in parts:
            unfold_allin_term(E, H, p, depth - 1)
    elif k == z3.Z3_OP_SEQ_UNIT:
        E.assume(mk_bool(allin(H, t) == z3.Select(H, specfn.keccak(t.arg(0)))))
    elif k == z3.Z3_OP_SEQ_EMPTY:
        E.assume(mk_bool(allin(H, t)))
    elif k == z3.Z3_OP_ITE:
        E.assume(mk_bool(allin(H, t) == z3.If(t.arg(0), allin(H, t.arg(1)), allin(H, t.arg(2)))))
        unfold_allin_term(E, H, t.arg(1), depth - 1)
        unfold_allin_term(E, H, t.arg(2), depth - 1)


def gw_setup(E):
    from contracts.binary_c import bits
    E.ghost["adt_nodes"] = True
    db = E.fresh_dict("db", "bytes", "bytes")
    db.hooks = BM.BinDbInvariant()
    kp = bits(E, "keypath")
    E.assume(mk_bool(z3.PrefixOf(kp.t, KG)))          # the ghost key is any key that starts with the prefix
    return {"db": db, "node_hash": objs.hash32(E, "node_hash"), "keypath": kp}


def gw_cases(E, ctx):
    H = ctx.old_has(ctx.db)
    h = ops.seq_term_as(ctx.node_hash, "int")
    p = ops.seq_term_as(ctx.keypath, "int")
    unit_mode = hasattr(ctx, "outcome")
    P = BM.parts_of(E, h)
    ike = objs.exc(E, "InvalidKeyError")

    def clause(W, k):
        return z3.Implies(z3.And(z3.PrefixOf(p, k), BM.bavail(H, h, k), allin(HG, W)), BM.bavail(HG, h, k))

    def ens(r):
        from pyvc import interp as _I
        if isinstance(r, _I._GenOutIter):
            r = r.seq
        elif isinstance(r, _I.GenIter):
            r = tuple(r.items)
        W = ops.seq_term(r) if not isinstance(r, tuple) or r else z3.Empty(SeqSeqI)
        unfold_allin_term(E, HG, W)
        BM.unfold_bavail(E, H, h, KG)
        BM.unfold_bavail(E, HG, h, KG)
        from contracts import seqlemmas as SL
        SL.use(E, "prefix_is_slice", P.path, KG)
        SL.use(E, "prefix_is_slice", P.path, p)
        SL.use(E, "prefix_trans", p, P.path, KG) if "prefix_trans" in SL.ALL else None
        rest_kv, rest_1 = BM.tail(KG, z3.Length(P.path)), BM.tail(KG, 1)
        for (H2, h2) in E.ghost.get("gtn_rules", []):
            for kk in (KG, rest_kv, rest_1):
                E.assume(mk_bool(gtn_sufficient_clause(E, H2, h2, k=kk)))
        for (W2, H2, h2, p2) in E.ghost.get("gw_rules", []):
            for kk in (rest_kv, rest_1):
                E.assume(mk_bool(z3.Implies(z3.And(z3.PrefixOf(p2, kk), BM.bavail(H2, h2, kk), allin(HG, W2)),
                                            BM.bavail(HG, h2, kk))))
        return [("the-witness-suffices-for-every-key-below-the-prefix", mk_bool(clause(W, KG)))]

    def make():
        W = E.fresh_seq("witness", "tuple", "bytes")
        E.ghost.setdefault("gw_rules", []).append((W.t, H, h, p))
        return W
    return [Case("witness", ensures=ens if unit_mode else None, make=None if unit_mode else make),
            Case("refused", raises=ike), Case("missing-node", raises=KeyError)]


def gw_requires(E, ctx):
    from contracts.binaries_c import allbit_of
    side = []
    ok = allbit_of(ops.seq_term_as(ctx.keypath, "int"), side)
    for f in side:
        E.assume(mk_bool(f))
    return [("hash-is-32-bytes", mk_bool(z3.Length(ops.seq_term_as(ctx.node_hash, "int")) == 32)),
            ("prefix-is-a-bit-string", mk_bool(ok))]


def register_witness(reg):
    reg.add("binary_branches", Contract(MOD + ":_get_witness_for_key_prefix", ["db", "node_hash", "keypath"], gw_cases,
                                        setup=gw_setup, requires=gw_requires, props=("C13",)))
