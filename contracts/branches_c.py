"""C13: if_branch_valid is unforgeable (ideal-hash reading).

if_branch_valid(branch, root_hash, key, value) rebuilds a database from the nodes it is handed and looks the key up
below root_hash.  Whatever well-formed nodes are offered -- nodes of this trie, of another trie, reordered,
truncated, duplicated --, when the call returns True the claimed value is the value the root really denotes for the
key:  blk(root_hash, bits(key)) == value.   (Nodes altered into *malformed* bodies are outside this unit: the
bounded tier covers them.)"""
import z3

from pyvc import ops, specfn
from pyvc.interp import LoopSpec
from pyvc.sym import SSeq, SBool, SPy, PyVal, SeqI, IntS, mk_bool, mk_int, to_pyval
from pyvc.unit import Contract, Case
from contracts import objs
from contracts import binmodel as BM

MOD = "trie.branches"
bel = z3.Function("branch_node", IntS, SeqI)        # the i-th node of the offered branch


class BranchNodes:
    """the `branch` argument: an arbitrary finite sequence of well-formed node bodies"""
    kind = "tuple"

    def __init__(self, E):
        self.n = E.fresh_int("len(branch)")
        E.assume(mk_bool(self.n.t >= 0))
        i = z3.Int("i!branch")
        E.assume(mk_bool(z3.ForAll([i], BM.wf(BM.dec(bel(i)), BM.blank_hash(E)), patterns=[bel(i)])))
        # A-HASH at the offered nodes (the engine states it for every hash it computes; here the hash is computed
        # under a quantifier)
        E.assume(mk_bool(z3.ForAll([i], z3.And(specfn.unkeccak(specfn.keccak(bel(i))) == bel(i),
                                               z3.Length(specfn.keccak(bel(i))) == 32),
                                   patterns=[specfn.keccak(bel(i))])))

    def py_iter_len(self, E):
        return self.n

    def py_iter_elem(self, E, i):
        return SSeq(bel(i.t if hasattr(i, "t") else i), "bytes")

    def py_truth(self):
        return mk_bool(self.n.t > 0)


def ibv_setup(E):
    E.ghost["adt_nodes"] = True
    key = E.fresh_seq("key", "bytes")
    value = E.fresh_py("value")
    E.assume(mk_bool(z3.Or(PyVal.is_PNone(value.t), PyVal.is_PBytes(value.t))))

    def hook(E2, d, i, n, kt, vt):
        # the database rebuilt from the branch satisfies the store invariant of the binary trie (content addressed,
        # well-formed nodes): proved here once, then assumed on reads like for any other binary-trie store
        x = z3.Const("x!inv", SeqI)
        E2.prove("rebuilt-database/store-invariant",
                 mk_bool(z3.ForAll([x], z3.Implies(z3.Select(d.has, x), z3.And(
                     z3.Select(d.val, x) == BM.unk(x), specfn.keccak(BM.unk(x)) == x,
                     BM.wf(BM.nd(x), BM.blank_hash(E2)))))), kind="contract")
        d.hooks = BM.BinDbInvariant(canonical=False)
    E.ghost["dictcomp_hook"] = hook
    return {"branch": BranchNodes(E), "root_hash": objs.hash32(E, "root_hash"), "key": key, "value": value}


def ibv_cases(E, ctx):
    from contracts.binary_c import key_bits
    root = ops.seq_term_as(ctx.root_hash, "int")

    def ens(res):
        kb = key_bits(E, ctx.key).t
        return [("answers-true", res is True),
                ("the-claimed-value-is-what-the-root-denotes", mk_bool(BM.blk(root, kb) == to_pyval(ctx.value)))]
    return [Case("validated", ensures=ens),
            Case("rejected-assertion", raises=AssertionError),
            Case("rejected-missing-node", raises=KeyError),
            Case("rejected-invalid-node", raises=objs.exc(E, "ValidationError")),
            Case("rejected-unparsable-node", raises=objs.exc(E, "InvalidNode")),
            Case("rejected-empty-node", raises=IndexError)]


def register(reg):
    reg.add("binary_branches", Contract(MOD + ":if_branch_valid", ["branch", "root_hash", "key", "value"], ibv_cases,
                                        setup=ibv_setup, props=("C13",), callee=False,
                                        loops={0: LoopSpec(lambda E, fr, i: [], fresh={"node": "unbound"})}))
