"""C10: NodeIterator -- _get_next_key and next() without a key.

Spec functions over the hexary model (uninterpreted, unfolded one step at the nodes that occur):
    khas(D)   the node D holds at least one key ...
    kmin(D)   ... and this is the first one in key order: a leaf's path; () at a branch with a value; otherwise the
              path / the first occupied nibble followed by the first key of that child
The contract of _get_next_key: it returns traversed ++ kmin(D) when khas(D), None otherwise; kmin(D) is a key that D
really stores (hlk(D, kmin(D)) is not empty).  That kmin(D) is the *least* stored key is the order lemma of the
model (Lean, F.lean order lemmas) -- not a pyvc obligation."""
import z3

from pyvc import ops
from pyvc.sym import SSeq, SBool, Obj, ExcObj, SeqI, SeqSeqI, mk_bool, mk_int, Unsupported
from pyvc.unit import Contract, Case
from contracts import objs
from contracts import hexmodel as HM
from contracts.hexmodel import HNode, HRef
from contracts import hexary_c as HC
from contracts import traverse_c as TC
from contracts import seqlemmas as SL

MOD = "trie.iter"
khas = z3.Function("khas", HNode, z3.BoolSort())
kmin = z3.Function("kmin", HNode, SeqI)


from contracts.traverse_c import first_child, any_child, first_child_facts, prefix_first_fact


def unit_first_fact(s_, x):
    return z3.Implies(s_ == z3.Unit(x), z3.And(z3.Length(s_) == 1, s_[0] == x))


def lemma_unit_first(E):
    """a one-element tuple (x,) has length 1 and first element x"""
    E.prove("unit_first", SBool(unit_first_fact(z3.Const("s", SeqI), z3.Int("x"))), kind="lemma")


def lemma_branch_step(E):
    """the definitional unfolding of hlk at a branch, specialised to a key that starts with the first occupied
    nibble: the lookup continues in that child (spares every user the 16-way case split)"""
    D = z3.Const("D", HNode)
    k = z3.Const("k", SeqI)
    HM.unfold_hlk(E, D, k, depth=0)
    fi, fr = first_child(E, D)
    E.prove("branch_step", mk_bool(z3.Implies(z3.And(HNode.is_HBranch(D), z3.Length(k) > 0, k[0] == fi, any_child(D)),
                                              HM.hlk(D, k) == HM.hlk(HM.deref(E, fr), HM.tail(k, 1)))), kind="lemma")


def branch_step_fact(E, D, k):
    fi, fr = first_child(E, D)
    return z3.Implies(z3.And(HNode.is_HBranch(D), z3.Length(k) > 0, k[0] == fi, any_child(D)),
                      HM.hlk(D, k) == HM.hlk(HM.deref(E, fr), HM.tail(k, 1)))


def unfold_k(E, D):
    """definitional step of khas / kmin at D"""
    D = z3.simplify(D)
    done = E.ghost.setdefault("k_unfolded", [])
    if any(d.eq(D) for d in done):
        return
    done.append(D)
    fi, fr = first_child(E, D)
    ext_c = HM.deref(E, HNode.echild(D))
    br_c = HM.deref(E, fr)
    has_val = z3.Length(HNode.bval(D)) > 0
    E.assume(mk_bool(khas(D) == z3.If(HNode.is_HBlank(D), False,
                                      z3.If(HNode.is_HLeaf(D), True,
                                            z3.If(HNode.is_HExt(D), khas(ext_c),
                                                  z3.Or(has_val, z3.And(any_child(D), khas(br_c))))))))
    E.assume(mk_bool(kmin(D) == z3.If(HNode.is_HLeaf(D), HNode.lpath(D),
                                      z3.If(HNode.is_HExt(D), z3.Concat(HNode.epath(D), kmin(ext_c)),
                                            z3.If(z3.And(HNode.is_HBranch(D), z3.Not(has_val)),
                                                  z3.Concat(z3.Unit(fi), kmin(br_c)), z3.Empty(SeqI))))))
    for f in first_child_facts(E, D):                 # instances of lemma first_child (not simplified: ite hoisting)
        E.assume(SBool(f))
    from contracts.seqspec import allnib
    E.assume(mk_bool(allnib(z3.Unit(fi)) == z3.And(fi >= 0, fi <= 15)))      # definition of allnib on a unit
    ss = TC.subsegs_of(E, D)
    for t in [ss] + [f for (Dx, f) in E.ghost.get("annotated_subsegs", []) if Dx.eq(D)]:
        E.assume(SBool(prefix_first_fact(z3.Unit(fi), t)))                   # instances of lemma prefix_first
        E.assume(SBool(z3.Implies(z3.And(HNode.is_HBranch(D), any_child(D)), z3.PrefixOf(z3.Unit(z3.Unit(fi)), t))))
        E.assume(SBool(z3.Implies(HNode.is_HExt(D), z3.And(z3.Length(t) == 1, t[0] == HNode.epath(D)))))


# ---- order facts --------------------------------------------------------------------------------------------------
lexlt = None


def _lexlt():
    from pyvc import specfn
    return specfn.lexlt


def unfold_lexlt(E, x, y):
    """definition of the lexicographic order (Python tuple order; Lean: Fog.lt) at (x, y)"""
    lt = _lexlt()
    lx, ly = z3.Length(x), z3.Length(y)
    E.assume(mk_bool(lt(x, y) == z3.If(lx == 0, ly > 0,
                                       z3.If(ly == 0, False,
                                             z3.Or(x[0] < y[0], z3.And(x[0] == y[0], lt(HM.tail(x, 1), HM.tail(y, 1))))))))


def lt_irrefl_fact(x):
    """instance of Lean theorem Fog.lt_irrefl"""
    return z3.Not(_lexlt()(x, x))


def lt_append_left_fact(p, x, y):
    """instance of Lean theorem Fog.lt_append_left"""
    lt = _lexlt()
    return lt(z3.Concat(p, x), z3.Concat(p, y)) == lt(x, y)


def lemma_first_is_first(E):
    """no occupied slot lies before the first occupied slot"""
    D = z3.Const("D", HNode)
    j = z3.Int("j")
    HC.reveal_child_at(E, D, j)
    fi, fr = first_child(E, D)
    E.prove("first_is_first", SBool(first_is_first_fact(E, D, j)), kind="lemma")


def first_is_first_fact(E, D, j):
    fi, fr = first_child(E, D)
    return z3.Implies(z3.And(j >= 0, j <= 15, z3.Not(HRef.is_RBlank(HC.child_at(D, j)))), z3.And(any_child(D), fi <= j))


QN = z3.Const("qn!probe", SeqI)        # ghost: an arbitrary nibble key (the `least` clause is proved for it)


def least_clause(D, q):
    return z3.Implies(z3.Length(HM.hlk(D, q)) > 0, z3.Not(_lexlt()(q, kmin(D))))


def mk_iter(E):
    t = HC.read_trie(E)
    return Obj(objs.cls_of(E, MOD, "NodeIterator"), {"_trie": t})


def gnk_setup(E):
    it = mk_iter(E)
    D = z3.Const("node.D", HNode)
    E.assume(mk_bool(HM.hwfp(D)))
    HM.unfold_wf(E, D)
    raw = HM.materialize(E, D)
    node = TC.make_annotated(E, D, raw)
    E.ghost["gnk_D"] = D
    return {"self": it, "node": node, "traversed": HM.nibs(E, "traversed")}


def gnk_requires(E, ctx):
    n = ctx.node
    if not isinstance(n, Obj) or "raw" not in n.fields:
        return [("node-is-an-annotated-node", False)]
    D = HM.alpha(n.fields["raw"])
    HM.unfold_wf(E, D)
    return [("node-well-formed", mk_bool(HM.hwfp(D)))] + \
           [("node-annotation/" + k, c) for (k, c) in TC.annotation_clauses(E, n, D)]


def gnk_cases(E, ctx):
    unit_mode = hasattr(ctx, "outcome")
    D = E.ghost["gnk_D"] if unit_mode else HM.alpha(ctx.node.fields["raw"])
    T = ops.seq_term_as(ctx.traversed, "int")
    trie = ctx.self.fields["_trie"]
    db = trie.fields["db"]
    unfold_k(E, D)

    def ens_key(r):
        if r is None:
            return [("returns-a-key", False)]
        km = kmin(D)
        HM.unfold_hlk(E, D, km, depth=1)
        E.assume(mk_bool(branch_step_fact(E, D, km)))             # instance of lemma branch_step
        fi, fr = first_child(E, D)
        br_c, ext_c = HM.deref(E, fr), HM.deref(E, HNode.echild(D))
        unfold_k(E, br_c)
        unfold_k(E, ext_c)
        # walking the first key: the step over the first nibble / the extension path leaves the child's first key
        SL.use(E, "tail_concat", z3.Unit(fi), kmin(br_c), z3.IntVal(1))
        SL.use(E, "nth_concat", z3.Unit(fi), kmin(br_c))
        SL.use(E, "tail_concat", HNode.epath(D), kmin(ext_c), z3.Length(HNode.epath(D)))
        SL.use(E, "prefix_concat_left", HNode.epath(D), HNode.epath(D), kmin(ext_c))
        for (Dn, D0, K) in E.ghost.get("reached_rules", []):
            unfold_k(E, Dn)
            HM.unfold_hlk(E, Dn, kmin(Dn), depth=0)
            SL.use(E, "tail_concat", K, kmin(Dn), z3.Length(K))
            SL.use(E, "prefix_concat_left", K, K, kmin(Dn))
            SL.use(E, "nth_concat", K, kmin(Dn))
        aux = []
        is_br = z3.And(HNode.is_HBranch(D), z3.Length(HNode.bval(D)) == 0)
        for (Dn, D0, K) in E.ghost.get("reached_rules", []):
            # stepping stones (proved in this order, each available to the next): which segment was followed, which
            # node that reaches, and what is left of the first key after the step
            E.assume(SBool(unit_first_fact(K, fi)))            # instance of lemma unit_first
            aux += [("step/segment-followed", mk_bool(z3.And(z3.Implies(is_br, K == z3.Unit(fi)),
                                                                z3.Implies(HNode.is_HExt(D), K == HNode.epath(D))))),
                    ("step/one-hop", mk_bool(z3.Implies(z3.Or(is_br, HNode.is_HExt(D)), HC.one_hop(D, K)))),
                    ("step/slot-followed", mk_bool(z3.Implies(is_br, HC.child_at(D, K[0]) == fr))),
                    ("step/node-reached", mk_bool(z3.And(z3.Implies(is_br, Dn == br_c), z3.Implies(HNode.is_HExt(D), Dn == ext_c)))),
                    ("step/rest-of-the-first-key", mk_bool(z3.And(
                        z3.Implies(is_br, HM.tail(km, 1) == kmin(br_c)),
                        z3.Implies(HNode.is_HExt(D), HM.tail(km, z3.Length(HNode.epath(D))) == kmin(ext_c)))))]
        # ---- kmin(D) is the least stored key: for the arbitrary probe QN, stored(QN) => not QN < kmin(D)
        ep = HNode.epath(D)
        stored = z3.Length(HM.hlk(D, QN)) > 0
        HM.unfold_hlk(E, D, QN, depth=1)
        E.assume(mk_bool(branch_step_fact(E, D, QN)))                       # instance of lemma branch_step
        HC.reveal_child_at(E, D, QN[0])
        E.assume(SBool(first_is_first_fact(E, D, QN[0])))                   # instance of lemma first_is_first
        unfold_lexlt(E, QN, km)
        E.assume(mk_bool(lt_irrefl_fact(QN)))                               # Lean Fog.lt_irrefl
        restq = HM.tail(QN, z3.Length(ep))
        E.assume(mk_bool(lt_append_left_fact(ep, restq, kmin(ext_c))))      # Lean Fog.lt_append_left
        SL.use(E, "prefix_is_slice", ep, QN)
        SL.use(E, "split2", QN, z3.Length(ep)) if "split2" in SL.ALL else None
        SL.use(E, "tail_concat", z3.Unit(fi), kmin(br_c), z3.IntVal(1))
        least = []
        for (Dn, D0, K) in E.ghost.get("reached_rules", []):
            # the callee's `least` clause (proved for an arbitrary probe) at the rest of this probe
            for qq in (HM.tail(QN, 1), restq):
                E.assume(mk_bool(least_clause(Dn, qq)))
            least += [("least/a-stored-key-starts-at-or-after-the-first-slot",
                       mk_bool(z3.Implies(z3.And(is_br, stored), z3.And(z3.Length(QN) > 0, QN[0] >= fi)))),
                      ("least/below-an-extension-the-key-runs-through-it",
                       mk_bool(z3.Implies(z3.And(HNode.is_HExt(D), stored), z3.And(z3.PrefixOf(ep, QN), QN == z3.Concat(ep, restq)))))]
        least.append(("the-first-key-is-the-least-stored-key", mk_bool(least_clause(D, QN))))
        return aux + [("is-traversed-plus-the-first-key", mk_bool(ops.seq_term_as(r, "int") == z3.Concat(T, km))),
                      ("the-first-key-is-stored", mk_bool(z3.Length(HM.hlk(D, km)) > 0))] + least

    def make_key():
        E.assume(mk_bool(z3.Length(HM.hlk(D, kmin(D))) > 0))
        E.assume(mk_bool(least_clause(D, QN)))
        return SSeq(z3.simplify(z3.Concat(T, kmin(D))), "tuple", "int", rng=(0, 15))
    return [Case("first-key", when=mk_bool(khas(D)), ensures=ens_key if unit_mode else None,
                 make=None if unit_mode else make_key),
            Case("no-key", when=mk_bool(z3.Not(khas(D))), returns=lambda: None),
            Case("missing-node", raises=HC.mtn_cls(E),
                 make=None if unit_mode else (lambda: ExcObj(HC.mtn_cls(E), (objs.hash32(E, "missing"), HM.nibs(E, "t")))))]


def register(reg):
    from pyvc.unit import Lemma
    reg.add_lemma("iter", Lemma("lemma:branch_step", ("C10",), lemma_branch_step))
    reg.add_lemma("iter", Lemma("lemma:unit_first", ("C10",), lemma_unit_first))
    reg.add_lemma("iter", Lemma("lemma:first_is_first", ("C10",), lemma_first_is_first))

    g = "iter"
    N = MOD + ":NodeIterator."
    reg.add(g, Contract(N + "_get_next_key", ["self", "node", "traversed"], gnk_cases, setup=gnk_setup,
                        requires=gnk_requires, props=("C10",)))
    register_next(reg)


# next() without a key: the first key of the trie -----------------------------------------------------------------
def next_setup(E):
    return {"self": mk_iter(E), "key_bytes": None}


def next_cases(E, ctx):
    from contracts.nibbles_c import B2N
    from contracts.seqspec import allnib
    trie = ctx.self.fields["_trie"]
    root = HM.bytes_of(ctx.old_field(trie, "root_hash"))
    D0 = HC.node_of_root(E, root)
    unfold_k(E, D0)
    km = kmin(D0)
    fine = z3.And(allnib(km), z3.Length(km) % 2 == 0)

    def ens(r):
        if r is None:
            return [("returns-a-key", False)]
        rt = ops.seq_term_as(r, "int")
        return [("its-nibbles-are-the-first-key", mk_bool(B2N(rt) == km)),
                ("it-is-a-stored-key", mk_bool(z3.Length(HM.hlk(D0, B2N(rt))) > 0)),
                # for an arbitrary nibble key QN: if it is stored it is not smaller (Lean Fog.nibs_lt: the order of byte
                # keys is the order of their nibble sequences)
                ("no-stored-key-is-smaller", mk_bool(z3.Implies(z3.Length(HM.hlk(D0, QN)) > 0,
                                                                z3.Not(_lexlt()(QN, B2N(rt))))))]
    return [Case("first-key", when=mk_bool(z3.And(khas(D0), fine)), ensures=ens, modifies=[]),
            Case("empty-trie", when=mk_bool(z3.Not(khas(D0))), returns=lambda: None, modifies=[]),
            Case("first-key-is-not-a-byte-string", when=mk_bool(z3.And(khas(D0), z3.Not(fine))),
                 raises=objs.exc(E, "InvalidNibbles"), modifies=[]),
            Case("missing-node", raises=HC.mtn_cls(E), modifies=[])]


def register_next(reg):
    N = MOD + ":NodeIterator."
    reg.add("iter", Contract(N + "next#first-key", ["self", "key_bytes"], next_cases, setup=next_setup, props=("C10",),
                             callee=False, target=N + "next"))
