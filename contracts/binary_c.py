"""Contracts for trie/binary.py -- property C12 (and the read path C13 relies on)."""
import z3

from pyvc import ops
from pyvc.sym import SSeq, SPy, SBool, PyVal, SeqI, mk_bool, to_pyval, ExcObj
from pyvc.unit import Contract, Case, Lemma, find_function, NOTHING
from contracts import objs
from contracts import binmodel as BM
from contracts.binaries_c import allbit

MOD = "trie.binary"


def bits(E, base):
    k = E.fresh_seq(base, "bytes", "int")
    k.rng = (0, 1)
    E.assume(mk_bool(allbit(k.t)))
    return k


# _get -----------------------------------------------------------------------------------------------
def get_setup(E):
    return {"self": BM.mk_trie(E), "node_hash": objs.hash32(E, "node_hash"), "keypath": bits(E, "keypath")}


def get_requires(E, ctx):
    return [("hash-is-32-bytes", mk_bool(z3.Length(ops.seq_term_as(ctx.node_hash, "int")) == 32))]


def get_cases(E, ctx):
    db = ctx.self.fields["db"]
    H = ctx.old_has(db)
    h = ops.seq_term_as(ctx.node_hash, "int")
    k = ops.seq_term_as(ctx.keypath, "int")
    BM.unfold_blk(E, h, k)
    BM.unfold_bavail(E, H, h, k)
    av = BM.bavail(H, h, k)
    return [Case("lookup", when=mk_bool(av), returns=lambda: E.from_pyval(BM.blk(h, k))),
            Case("missing-node", when=mk_bool(z3.Not(av)), raises=KeyError)]


def register(reg):
    g = "binary_read"
    reg.add(g, Contract(MOD + ":BinaryTrie._get", ["self", "node_hash", "keypath"], get_cases, setup=get_setup,
                        requires=get_requires, props=("C12", "C13")))
    _register_write(reg)
    _register_api(reg)


# _hash_and_save -------------------------------------------------------------------------------------
def has_setup(E):
    node = E.fresh_seq("node", "bytes")
    t = BM.mk_trie(E)
    E.assume(mk_bool(BM.wfc(BM.dec(node.t), BM.blank_hash(E))))
    E.assume(mk_bool(BM.dec(node.t) == BM.dec_definition(node.t)))      # the unit works on bytes: reveal dec here
    return {"self": t, "node": node}


def has_requires(E, ctx):
    Dn = BM.dec(ops.seq_term_as(ctx.node, "int"))
    return [("well-formed-node", mk_bool(BM.wf(Dn, BM.blank_hash(E)))),
            ("canonical-node", mk_bool(z3.Implies(BM.BNode.is_BKV(Dn), z3.Not(BM.BNode.is_BKV(BM.nd(BM.BNode.bchild(Dn)))))))]


def has_cases(E, ctx):
    db = ctx.self.fields["db"]
    n = ops.seq_term_as(ctx.node, "int")
    h = E.keccak(SSeq(n, "bytes", "int"))
    # the store invariant at the key written: an entry that is already there is the pre-image of its key
    E.assume(mk_bool(z3.Implies(z3.Select(ctx.old_has(db), h.t), z3.Select(ctx.old_val(db), h.t) == BM.unk(h.t))))

    def post():
        return [("stored", mk_bool(z3.And(db.has == z3.Store(ctx.old_has(db), h.t, z3.BoolVal(True)),
                                          db.val == z3.Store(ctx.old_val(db), h.t, n))))]
    return [Case("saved", returns=lambda: h, post=post, modifies=[db])]


# _set -----------------------------------------------------------------------------------------------
def nov(E):
    return objs.exc(E, "NodeOverrideError")


def set_setup(E):
    t = BM.mk_trie(E)
    h = objs.hash32(E, "node_hash")
    k = bits(E, "keypath")
    v = E.fresh_seq("value", "bytes")
    sub = E.fresh_bool("if_delete_subtrie")
    E.assume(mk_bool(z3.Implies(sub.t, z3.Length(v.t) == 0)))
    E.assume(mk_bool(z3.Implies(h.t == BM.blank_hash(E), z3.Length(k.t) > 0)))
    # one mode per path (insert / delete / delete-subtrie): smaller obligations
    if E.decide(sub):
        sub = True
    else:
        sub = False
        E.decide(mk_bool(z3.Length(v.t) > 0))
    q0 = bits(E, "q0")                      # the key at which the view clause is proved (arbitrary)
    E.ghost["q0"] = q0.t
    return {"self": t, "node_hash": h, "keypath": k, "value": v, "if_delete_subtrie": sub}


def set_requires(E, ctx):
    from contracts.binaries_c import allbit_of
    h = ops.seq_term_as(ctx.node_hash, "int")
    k = ops.seq_term_as(ctx.keypath, "int")
    v = ops.seq_term_as(ctx.value, "int")
    side = []
    okb = allbit_of(k, side)
    for f in side:
        E.assume(mk_bool(f))
    sub = ctx.if_delete_subtrie
    subt = sub.t if isinstance(sub, SBool) else z3.BoolVal(bool(sub))
    return [("hash-is-32-bytes", mk_bool(z3.Length(h) == 32)), ("key-is-a-bit-string", mk_bool(okb)),
            ("no-empty-key-below-a-blank-node", mk_bool(z3.Implies(h == BM.blank_hash(E), z3.Length(k) > 0))),
            ("subtrie-delete-passes-empty-value", mk_bool(z3.Implies(subt, z3.Length(v) == 0)))]


def view_after(h, k, v, subt, q):
    """the lookup function required of the result, at key q"""
    ins = z3.And(z3.Length(v) > 0, z3.Not(subt))
    old = BM.blk(h, q)
    return z3.If(ins, z3.If(q == k, PyVal.PBytes(v), old),
                 z3.If(subt, z3.If(z3.PrefixOf(k, q), PyVal.PNone, old),
                       z3.If(q == k, PyVal.PNone, old)))


def set_cases(E, ctx):
    db = ctx.self.fields["db"]
    h = ops.seq_term_as(ctx.node_hash, "int")
    k = ops.seq_term_as(ctx.keypath, "int")
    v = ops.seq_term_as(ctx.value, "int")
    sub = ctx.if_delete_subtrie
    subt = sub.t if isinstance(sub, SBool) else z3.BoolVal(bool(sub))
    unit_mode = hasattr(ctx, "outcome")
    x = z3.Const("x!grow", SeqI)

    def grows():
        return z3.ForAll([x], z3.Implies(z3.Select(ctx.old_has(db), x),
                                         z3.And(z3.Select(db.has, x), z3.Select(db.val, x) == z3.Select(ctx.old_val(db), x))),
                         patterns=[z3.Select(db.has, x), z3.Select(db.val, x)])

    def ens(r):
        rt = ops.seq_term_as(r, "int")
        out = [("hash", mk_bool(z3.Length(rt) == 32)),
               ("insert-never-empties", mk_bool(z3.Implies(z3.And(z3.Length(v) > 0, z3.Not(subt)), rt != BM.blank_hash(E))))]
        if unit_mode:
            q = E.ghost["q0"]
            BM.unfold_blk(E, h, q)
            BM.unfold_blk(E, rt, q, depth=3)
            BM.decompose(E, k, BM.parts_of(E, h).path)
            from contracts import seqlemmas as SL
            P = BM.parts_of(E, h).path
            SL.key_pair_facts(E, k, q, P)
            for (ta, tb, rterm) in E.ghost.get("gcpl", []):
                # the kv node was split at the index where its path and the key diverge
                SL.split_point_facts(E, P, k, q, rterm, Kp=tb)
                for s_ in (P, k, q):        # definition of allbit at the divergence index
                    E.assume(mk_bool(z3.simplify(z3.Implies(z3.And(allbit(s_), rterm >= 0, rterm < z3.Length(s_)),
                                                            z3.Or(s_[rterm] == 0, s_[rterm] == 1)))))
                E.assume(mk_bool(z3.simplify(z3.Implies(z3.Length(tb) == z3.Length(P), z3.Length(k) >= z3.Length(P)))))
            out.append(("view", mk_bool(BM.blk(rt, q) == view_after(h, k, v, subt, q))))
        else:
            E.ghost.setdefault("view_rules", []).append(
                (z3.simplify(rt), lambda Q: BM.blk(rt, Q) == view_after(h, k, v, subt, Q), h))
            out.append(("result-available", mk_bool(z3.Or(rt == BM.blank_hash(E), z3.Select(db.has, rt)))))
        return out

    def post():
        return [("store-only-grows", mk_bool(grows()))]

    def fresh_hash():
        return objs.hash32(E, "_set.r")
    # which update is this?  (the mode is fixed on every path: set_setup splits on it; callers pass constants)
    if z3.is_true(z3.simplify(subt)):
        mode = 2
    elif E.implied(mk_bool(z3.Length(v) > 0)):
        mode = 0
    elif E.implied(mk_bool(z3.Length(v) == 0)) and z3.is_false(z3.simplify(subt)):
        mode = 1
    else:
        mode = None
    if mode is None:
        ref = None
        g_ok, g_ref = True, True
    else:
        BM.unfold_brefuse(E, mode, h, k)
        if unit_mode:
            from contracts import seqlemmas as SL
            P = BM.parts_of(E, h).path
            SL.use(E, "prefix_is_code_slice", P, k)
            SL.use(E, "prefix_is_slice", P, k)
            SL.use(E, "prefix_is_slice", k, P)
            for (ta, tb, rterm) in E.ghost.get("gcpl", []):
                SL.use(E, "code_slice_props", k, z3.Length(P))
                SL.use(E, "prefix_nth", tb, k, rterm)
                SL.use(E, "split2", k, rterm)
                SL.use(E, "split2", P, rterm)
                SL.use(E, "prefix_is_slice", k, P)
        ref = BM.brefuse(z3.IntVal(mode), h, k)
        g_ok, g_ref = mk_bool(z3.Not(ref)), mk_bool(ref)
    return [Case("updated", when=g_ok, ensures=ens, post=post, modifies=[db], rtype=fresh_hash),
            Case("refused", when=g_ref, raises=nov(E), post=post, modifies=[db]),
            Case("missing-node", raises=KeyError, post=post, modifies=[db])]


def _register_write(reg):
    g = "binary_write"
    reg.add(g, Contract(MOD + ":BinaryTrie._hash_and_save", ["self", "node"], has_cases, setup=has_setup,
                        requires=has_requires, props=("C12", "C04")))
    reg.add(g, Contract(MOD + ":BinaryTrie._set", ["self", "node_hash", "keypath", "value", "if_delete_subtrie"], set_cases,
                        setup=set_setup, requires=set_requires, props=("C12",)))


# public API -------------------------------------------------------------------------------------------
def api_key(E):
    key = E.fresh_seq("key", "bytes")
    return key


def key_bits(E, key):
    """bits(key) as the contract of encode_to_bin gives it"""
    from contracts.binaries_c import s_bits
    return s_bits(E, key)


def api_get_setup(E):
    return {"self": BM.mk_trie(E), "key": api_key(E)}


def api_get_cases(E, ctx):
    db = ctx.self.fields["db"]
    H = ctx.old_has(db)
    root = ops.seq_term_as(ctx.old_field(ctx.self, "root_hash"), "int")
    kb = key_bits(E, ctx.key).t
    av = BM.bavail(H, root, kb)
    return [Case("lookup", when=mk_bool(av), returns=lambda: E.from_pyval(BM.blk(root, kb))),
            Case("missing-node", when=mk_bool(z3.Not(av)), raises=KeyError)]


def api_exists_cases(E, ctx):
    db = ctx.self.fields["db"]
    H = ctx.old_has(db)
    root = ops.seq_term_as(ctx.old_field(ctx.self, "root_hash"), "int")
    kb = key_bits(E, ctx.key).t
    av = BM.bavail(H, root, kb)
    return [Case("answer", when=mk_bool(av), returns=lambda: mk_bool(BM.blk(root, kb) != PyVal.PNone)),
            Case("missing-node", when=mk_bool(z3.Not(av)), raises=KeyError)]


def api_set_setup(E, with_value=True):
    t = BM.mk_trie(E)
    key = api_key(E)
    E.assume(mk_bool(z3.Length(key.t) > 0))            # the property is stated for non-empty keys
    args = {"self": t, "key": key}
    if with_value:
        args["value"] = E.fresh_seq("value", "bytes")
    q0 = bits(E, "q0")
    E.ghost["q0"] = q0.t
    return args


def api_update_cases(mode):
    def cases(E, ctx):
        s = ctx.self
        db = s.fields["db"]
        root = ops.seq_term_as(ctx.old_field(s, "root_hash"), "int")
        kb = key_bits(E, ctx.key).t
        v = ops.seq_term_as(ctx.value, "int") if mode == "set" else z3.Empty(SeqI)
        subt = z3.BoolVal(mode == "delete_subtrie")
        x = z3.Const("x!grow", SeqI)

        def grows():
            return z3.ForAll([x], z3.Implies(z3.Select(ctx.old_has(db), x),
                                             z3.And(z3.Select(db.has, x), z3.Select(db.val, x) == z3.Select(ctx.old_val(db), x))),
                             patterns=[z3.Select(db.has, x), z3.Select(db.val, x)])

        def post_ok():
            new = ops.seq_term_as(s.fields["root_hash"], "int")
            q = E.ghost["q0"]
            BM.apply_rules_at(E, new, q)
            return [("root-is-a-hash", mk_bool(z3.Length(new) == 32)),
                    ("view", mk_bool(BM.blk(new, q) == view_after(root, kb, v, subt, q))),
                    ("store-only-grows", mk_bool(grows()))]

        def post_fail():
            return [("store-only-grows", mk_bool(grows()))]      # root_hash unchanged: frame obligation
        return [Case("updated", returns=lambda: None, post=post_ok, modifies=[db, (s, "root_hash")]),
                Case("refused", raises=nov(E), post=post_fail, modifies=[db]),
                Case("missing-node", raises=KeyError, post=post_fail, modifies=[db])]
    return cases


def _register_api(reg):
    g = "binary_api"
    T = MOD + ":BinaryTrie."
    reg.add(g, Contract(T + "get", ["self", "key"], api_get_cases, setup=api_get_setup, props=("C12", "C13")))
    reg.add(g, Contract(T + "exists", ["self", "key"], api_exists_cases, setup=api_get_setup, props=("C12",)))
    reg.add(g, Contract(T + "set", ["self", "key", "value"], api_update_cases("set"),
                        setup=lambda E: api_set_setup(E, True), props=("C12",)))
    reg.add(g, Contract(T + "delete", ["self", "key"], api_update_cases("delete"),
                        setup=lambda E: api_set_setup(E, False), props=("C12",)))
    reg.add(g, Contract(T + "delete_subtrie", ["self", "key"], api_update_cases("delete_subtrie"),
                        setup=lambda E: api_set_setup(E, False), props=("C12",)))
