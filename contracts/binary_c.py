"""Contracts for trie/binary.py -- property C12 (and the read path C13 relies on)."""
import z3

from pyvc import ops
from pyvc.sym import SSeq, SPy, SBool, PyVal, SeqI, mk_bool, to_pyval, ExcObj
from pyvc.unit import Contract, Case, Lemma, find_function, NOTHING
from contracts import objs
from contracts import binmodel as BM
from contracts.binaries_c import allbit

MOD = "trie.binary"


def bits(E, base):
    k = E.fresh_seq(base, "bytes", "int")
    k.rng = (0, 1)
    E.assume(mk_bool(allbit(k.t)))
    return k


# _get -----------------------------------------------------------------------------------------------
def get_setup(E):
    return {"self": BM.mk_trie(E), "node_hash": objs.hash32(E, "node_hash"), "keypath": bits(E, "keypath")}


def get_requires(E, ctx):
    return [("hash-is-32-bytes", mk_bool(z3.Length(ops.seq_term_as(ctx.node_hash, "int")) == 32))]


def get_cases(E, ctx):
    db = ctx.self.fields["db"]
    H = ctx.old_has(db)
    h = ops.seq_term_as(ctx.node_hash, "int")
    k = ops.seq_term_as(ctx.keypath, "int")
    BM.unfold_blk(E, h, k)
    BM.unfold_bavail(E, H, h, k)
    av = BM.bavail(H, h, k)
    return [Case("lookup", when=mk_bool(av), returns=lambda: E.from_pyval(BM.blk(h, k))),
            Case("missing-node", when=mk_bool(z3.Not(av)), raises=KeyError)]


def register(reg):
    g = "binary_read"
    reg.add(g, Contract(MOD + ":BinaryTrie._get", ["self", "node_hash", "keypath"], get_cases, setup=get_setup,
                        requires=get_requires, props=("C12", "C13")))
