"""Contracts for trie/binary.py -- property C12 (and the read path C13 relies on)."""
import z3

from pyvc import ops
from pyvc.sym import SSeq, SPy, SBool, PyVal, SeqI, mk_bool, to_pyval, ExcObj
from pyvc.unit import Contract, Case, Lemma, find_function, NOTHING
from contracts import objs
from contracts import binmodel as BM
from contracts.binaries_c import allbit

MOD = "trie.binary"


def bits(E, base):
    k = E.fresh_seq(base, "bytes", "int")
    k.rng = (0, 1)
    E.assume(mk_bool(allbit(k.t)))
    return k


# _get -----------------------------------------------------------------------------------------------
def get_setup(E):
    return {"self": BM.mk_trie(E), "node_hash": objs.hash32(E, "node_hash"), "keypath": bits(E, "keypath")}


def get_requires(E, ctx):
    return [("hash-is-32-bytes", mk_bool(z3.Length(ops.seq_term_as(ctx.node_hash, "int")) == 32))]


def get_cases(E, ctx):
    db = ctx.self.fields["db"]
    H = ctx.old_has(db)
    h = ops.seq_term_as(ctx.node_hash, "int")
    k = ops.seq_term_as(ctx.keypath, "int")
    BM.unfold_blk(E, h, k)
    BM.unfold_bavail(E, H, h, k)
    av = BM.bavail(H, h, k)
    return [Case("lookup", when=mk_bool(av), returns=lambda: E.from_pyval(BM.blk(h, k))),
            Case("missing-node", when=mk_bool(z3.Not(av)), raises=KeyError)]


def register(reg):
    g = "binary_read"
    reg.add(g, Contract(MOD + ":BinaryTrie._get", ["self", "node_hash", "keypath"], get_cases, setup=get_setup,
                        requires=get_requires, props=("C12", "C13")))
    _register_write(reg)


# _hash_and_save -------------------------------------------------------------------------------------
def has_setup(E):
    node = E.fresh_seq("node", "bytes")
    t = BM.mk_trie(E)
    E.assume(mk_bool(BM.wf(BM.dec(node.t), BM.blank_hash(E))))
    E.assume(mk_bool(BM.dec(node.t) == BM.dec_definition(node.t)))      # the unit works on bytes: reveal dec here
    return {"self": t, "node": node}


def has_requires(E, ctx):
    return [("well-formed-node", mk_bool(BM.wf(BM.dec(ops.seq_term_as(ctx.node, "int")), BM.blank_hash(E))))]


def has_cases(E, ctx):
    db = ctx.self.fields["db"]
    n = ops.seq_term_as(ctx.node, "int")
    h = E.keccak(SSeq(n, "bytes", "int"))
    # the store invariant at the key written: an entry that is already there is the pre-image of its key
    E.assume(mk_bool(z3.Implies(z3.Select(ctx.old_has(db), h.t), z3.Select(ctx.old_val(db), h.t) == BM.unk(h.t))))

    def post():
        return [("stored", mk_bool(z3.And(db.has == z3.Store(ctx.old_has(db), h.t, z3.BoolVal(True)),
                                          db.val == z3.Store(ctx.old_val(db), h.t, n))))]
    return [Case("saved", returns=lambda: h, post=post, modifies=[db])]


# _set -----------------------------------------------------------------------------------------------
def nov(E):
    return objs.exc(E, "NodeOverrideError")


def set_setup(E):
    t = BM.mk_trie(E)
    h = objs.hash32(E, "node_hash")
    k = bits(E, "keypath")
    v = E.fresh_seq("value", "bytes")
    sub = E.fresh_bool("if_delete_subtrie")
    E.assume(mk_bool(z3.Implies(sub.t, z3.Length(v.t) == 0)))
    E.assume(mk_bool(z3.Implies(h.t == BM.blank_hash(E), z3.Length(k.t) > 0)))
    # one mode per path (insert / delete / delete-subtrie): smaller obligations
    if E.decide(sub):
        sub = True
    else:
        sub = False
        E.decide(mk_bool(z3.Length(v.t) > 0))
    q0 = bits(E, "q0")                      # the key at which the view clause is proved (arbitrary)
    E.ghost["q0"] = q0.t
    return {"self": t, "node_hash": h, "keypath": k, "value": v, "if_delete_subtrie": sub}


def set_requires(E, ctx):
    from contracts.binaries_c import allbit_of
    h = ops.seq_term_as(ctx.node_hash, "int")
    k = ops.seq_term_as(ctx.keypath, "int")
    v = ops.seq_term_as(ctx.value, "int")
    side = []
    okb = allbit_of(k, side)
    for f in side:
        E.assume(mk_bool(f))
    sub = ctx.if_delete_subtrie
    subt = sub.t if isinstance(sub, SBool) else z3.BoolVal(bool(sub))
    return [("hash-is-32-bytes", mk_bool(z3.Length(h) == 32)), ("key-is-a-bit-string", mk_bool(okb)),
            ("no-empty-key-below-a-blank-node", mk_bool(z3.Implies(h == BM.blank_hash(E), z3.Length(k) > 0))),
            ("subtrie-delete-passes-empty-value", mk_bool(z3.Implies(subt, z3.Length(v) == 0)))]


def view_after(h, k, v, subt, q):
    """the lookup function required of the result, at key q"""
    ins = z3.And(z3.Length(v) > 0, z3.Not(subt))
    old = BM.blk(h, q)
    return z3.If(ins, z3.If(q == k, PyVal.PBytes(v), old),
                 z3.If(subt, z3.If(z3.PrefixOf(k, q), PyVal.PNone, old),
                       z3.If(q == k, PyVal.PNone, old)))


def set_cases(E, ctx):
    db = ctx.self.fields["db"]
    h = ops.seq_term_as(ctx.node_hash, "int")
    k = ops.seq_term_as(ctx.keypath, "int")
    v = ops.seq_term_as(ctx.value, "int")
    sub = ctx.if_delete_subtrie
    subt = sub.t if isinstance(sub, SBool) else z3.BoolVal(bool(sub))
    unit_mode = hasattr(ctx, "outcome")
    x = z3.Const("x!grow", SeqI)

    def grows():
        return z3.ForAll([x], z3.Implies(z3.Select(ctx.old_has(db), x),
                                         z3.And(z3.Select(db.has, x), z3.Select(db.val, x) == z3.Select(ctx.old_val(db), x))),
                         patterns=[z3.Select(db.has, x), z3.Select(db.val, x)])

    def ens(r):
        rt = ops.seq_term_as(r, "int")
        out = [("hash", mk_bool(z3.Length(rt) == 32)),
               ("insert-never-empties", mk_bool(z3.Implies(z3.And(z3.Length(v) > 0, z3.Not(subt)), rt != BM.blank_hash(E))))]
        if unit_mode:
            q = E.ghost["q0"]
            BM.unfold_blk(E, h, q)
            BM.unfold_blk(E, rt, q)
            BM.decompose(E, k, BM.parts_of(E, h).path)
            from contracts import seqlemmas as SL
            SL.key_pair_facts(E, k, q, BM.parts_of(E, h).path)
            out.append(("view", mk_bool(BM.blk(rt, q) == view_after(h, k, v, subt, q))))
        else:
            E.ghost.setdefault("view_rules", []).append(
                (z3.simplify(rt), lambda Q: BM.blk(rt, Q) == view_after(h, k, v, subt, Q), h))
            out.append(("result-available", mk_bool(z3.Or(rt == BM.blank_hash(E), z3.Select(db.has, rt)))))
        return out

    def post():
        return [("store-only-grows", mk_bool(grows()))]

    def fresh_hash():
        return objs.hash32(E, "_set.r")
    return [Case("updated", ensures=ens, post=post, modifies=[db], rtype=fresh_hash),
            Case("refused", raises=nov(E), post=post, modifies=[db]),
            Case("missing-node", raises=KeyError, post=post, modifies=[db])]


def _register_write(reg):
    g = "binary_write"
    reg.add(g, Contract(MOD + ":BinaryTrie._hash_and_save", ["self", "node"], has_cases, setup=has_setup,
                        requires=has_requires, props=("C12", "C04")))
    reg.add(g, Contract(MOD + ":BinaryTrie._set", ["self", "node_hash", "keypath", "value", "if_delete_subtrie"], set_cases,
                        setup=set_setup, requires=set_requires, props=("C12",)))
