"""Contracts for trie/hexary.py and the hexary helpers of trie/utils/nodes.py -- properties C01-C08."""
import z3

from pyvc import ops, specfn
from pyvc.interp import LoopSpec
from pyvc.sym import SSeq, SBool, ListObj, ExcObj, PyRaise, SeqI, mk_bool, mk_int, as_int_term
from pyvc.unit import Contract, Case, Is, NOTHING, Lemma, find_function
from contracts import objs
from contracts import hexmodel as HM
from contracts.hexmodel import HNode, HRef, SRef

NODES = "trie.utils.nodes"
HEX = "trie.hexary"


# ---------------------------------------------------------------------------------------------------
# raw nodes for unit-mode setups

def fresh_node(E, base="node", allow_blank=True):
    """an arbitrary well-formed raw node: b'' or a fresh list of the right shape for a fresh node term"""
    D = z3.Const(E.fresh_name(base + ".D"), HNode)
    E.assume(mk_bool(HM.hwf(E, D)))
    if not allow_blank:
        E.assume(mk_bool(z3.Not(HNode.is_HBlank(D))))
    return HM.materialize(E, D)


# ---------------------------------------------------------------------------------------------------
# trie/utils/nodes.py: classification and key extraction (datatype / opaque hex-prefix view)

def node_setup(E):
    E.ghost["hex_model"] = True
    return {"node": fresh_node(E)}


def tag_of(D):
    return z3.If(HNode.is_HBlank(D), 0, z3.If(HNode.is_HLeaf(D), 1, z3.If(HNode.is_HExt(D), 2, 3)))


def gnt_cases(E, ctx):
    D = HM.alpha(ctx.node)
    return [Case("type", returns=lambda: mk_int(tag_of(D)))]


def kvnode_setup(E):
    E.ghost["hex_model"] = True
    n = fresh_node(E, allow_blank=False)
    if len(n.items) != 2:
        from pyvc.interp import PathEnd
        raise PathEnd("infeasible")
    return {"node": n}


def extract_key_cases(E, ctx):
    p, f = HM.hpk_parts(HM.bytes_of(ctx.node.items[0]))
    return [Case("path", returns=lambda: SSeq(p, "tuple", "int", rng=(0, 15)))]


def nodekind_cases(want):
    def cases(E, ctx):
        n = ctx.node
        if isinstance(n, ListObj) and len(n.items) == 2:
            p, f = HM.hpk_parts(HM.bytes_of(n.items[0]))
            val = f if want == "leaf" else z3.Not(f)
            return [Case("answer", returns=lambda: mk_bool(val))]
        return [Case("answer", returns=lambda: False)]
    return cases


def nibs_setup(E):
    E.ghost["hex_model"] = True
    return {"nibbles": HM.nibs(E, "nibbles")}


def compute_key_cases(leaf):
    def cases(E, ctx):
        t = ops.seq_term_as(ctx.nibbles, "int")

        def ret():
            r = z3.simplify(HM.HPK(t, z3.BoolVal(leaf)))
            E.assume(mk_bool(z3.And(HM.hp_path(r) == t, HM.hp_flag(r) == z3.BoolVal(leaf), z3.Length(r) >= 1)))
            return SSeq(r, "bytes", "int")
        return [Case("key", returns=ret)]
    return cases


def compute_key_requires(E, ctx):
    from contracts.seqspec import allnib_of
    from contracts.nibbles_c import B2N
    t = ops.seq_term_as(ctx.nibbles, "int")
    side = []
    ok = allnib_of(t, side, B2N)
    for f in side:
        E.assume(mk_bool(f))
    return [("valid-nibbles", mk_bool(ok))]


def register(reg):
    _register_nodes(reg)
    _register_store(reg)


def _register_nodes(reg):
    g = "hex_nodes"
    reg.add(g, Contract(NODES + ":get_node_type", ["node"], gnt_cases, setup=node_setup, props=("C16", "C01", "C08")))
    reg.add(g, Contract(NODES + ":extract_key", ["node"], extract_key_cases, setup=kvnode_setup, props=("C16", "C01", "C08")))
    reg.add(g, Contract(NODES + ":is_leaf_node", ["node"], nodekind_cases("leaf"), setup=node_setup, props=("C16", "C01")))
    reg.add(g, Contract(NODES + ":is_extension_node", ["node"], nodekind_cases("ext"), setup=node_setup, props=("C16", "C01")))
    reg.add(g, Contract(NODES + ":compute_leaf_key", ["nibbles"], compute_key_cases(True), setup=nibs_setup,
                        requires=compute_key_requires, props=("C16", "C01", "C02")))
    reg.add(g, Contract(NODES + ":compute_extension_key", ["nibbles"], compute_key_cases(False), setup=nibs_setup,
                        requires=compute_key_requires, props=("C16", "C01", "C02")))


# ---------------------------------------------------------------------------------------------------
# get_node

def ref_value_setup(E):
    """a value handed to get_node: b'', a 32-byte hash, or an embedded node (a list)"""
    t = HM.mk_trie(E)
    k = E.nondet(2)
    if k == 0:
        v = E.fresh_seq("node_hash", "bytes")
        E.assume(mk_bool(z3.Or(z3.Length(v.t) == 0, z3.Length(v.t) == 32)))
    else:
        v = fresh_node(E, allow_blank=False)
    return {"self": t, "node_hash": v}


def get_node_cases(E, ctx):
    s = ctx.self
    db = s.fields["db"]
    v = ctx.node_hash
    if isinstance(v, ListObj):
        return [Case("embedded", returns=lambda: Is(v))]
    r = HM.ref_of(v)
    BH = HM.blank_node_hash(E)
    is_blank = z3.Or(HRef.is_RBlank(r), z3.And(HRef.is_RHash(r), HRef.rhash(r) == BH))
    is_hash = z3.And(HRef.is_RHash(r), HRef.rhash(r) != BH)
    h = HRef.rhash(r)
    present = z3.Select(ctx.old_has(db), h)
    unit_mode = hasattr(ctx, "outcome")

    def from_db():
        db.hooks.on_read(E, db, h, z3.Select(db.val, h))
        return HM.materialize(E, HM.hnode_of_hash(h))

    def check_from_db(res):
        db.hooks.on_read(E, db, h, z3.Select(db.val, h))
        return [("denotes-the-stored-node", mk_bool(HM.alpha(res) == HM.hnode_of_hash(h)))]
    cases = [Case("blank", when=mk_bool(is_blank), returns=lambda: b""),
             Case("stored", when=mk_bool(z3.And(is_hash, present)), ensures=check_from_db if unit_mode else None,
                  make=None if unit_mode else from_db),
             Case("missing", when=mk_bool(z3.And(is_hash, z3.Not(present))), raises=KeyError,
                  exc=lambda e: [("names-the-hash", ops.py_eq(e.args[0], SSeq(h, "bytes")) if e.args else False)],
                  make=lambda: ExcObj(KeyError, (SSeq(h, "bytes"),)))]
    if isinstance(v, SRef):
        origin = v.origin
        cases.append(Case("embedded", when=mk_bool(HRef.is_REmb(r)),
                          make=lambda: HM.materialize(E, HRef.remb(r), origin)))
    return cases


def get_node_requires(E, ctx):
    v = ctx.node_hash
    if isinstance(v, (ListObj, SRef)):
        return []
    t = HM.bytes_of(v)
    return [("blank-or-hash", mk_bool(z3.Or(z3.Length(t) == 0, z3.Length(t) == 32)))]


def _register_store(reg):
    g = "hexary_store"
    reg.add(g, Contract(HEX + ":HexaryTrie.get_node", ["self", "node_hash"], get_node_cases, setup=ref_value_setup,
                        requires=get_node_requires, props=("C01", "C07", "C08")))
