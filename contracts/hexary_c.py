"""Contracts for trie/hexary.py and the hexary helpers of trie/utils/nodes.py -- properties C01-C08."""
import z3

from pyvc import ops, specfn
from pyvc.interp import LoopSpec
from pyvc.sym import SSeq, SBool, ListObj, ExcObj, PyRaise, SeqI, mk_bool, mk_int, as_int_term, Unsupported, Obj
from pyvc.unit import Contract, Case, Is, NOTHING, Lemma, find_function
from contracts import objs
from contracts import hexmodel as HM
from contracts.hexmodel import HNode, HRef, SRef

NODES = "trie.utils.nodes"
HEX = "trie.hexary"


# ---------------------------------------------------------------------------------------------------
# raw nodes for unit-mode setups

def fresh_node(E, base="node", allow_blank=True):
    """an arbitrary well-formed raw node: b'' or a fresh list of the right shape for a fresh node term"""
    D = z3.Const(E.fresh_name(base + ".D"), HNode)
    E.assume(mk_bool(HM.hwf(E, D)))
    if not allow_blank:
        E.assume(mk_bool(z3.Not(HNode.is_HBlank(D))))
    return HM.materialize(E, D)


# ---------------------------------------------------------------------------------------------------
# trie/utils/nodes.py: classification and key extraction (datatype / opaque hex-prefix view)

def node_setup(E):
    E.ghost["hex_model"] = True
    return {"node": fresh_node(E)}


def tag_of(D):
    return z3.If(HNode.is_HBlank(D), 0, z3.If(HNode.is_HLeaf(D), 1, z3.If(HNode.is_HExt(D), 2, 3)))


def gnt_cases(E, ctx):
    n = ctx.node
    # the shape of a list decides its type without the solver
    if isinstance(n, ListObj) and n.items is not None:
        if len(n.items) == 17:
            return [Case("type", returns=lambda: 3)]
        if len(n.items) == 2:
            p, f = HM.hpk_parts(HM.bytes_of(n.items[0]))
            if z3.is_true(f):
                return [Case("type", returns=lambda: 1)]
            if z3.is_false(f):
                return [Case("type", returns=lambda: 2)]
    if isinstance(n, bytes) and len(n) == 0:
        return [Case("type", returns=lambda: 0)]
    D = HM.alpha(n)
    return [Case("type", returns=lambda: mk_int(tag_of(D)))]


def kvnode_setup(E):
    E.ghost["hex_model"] = True
    n = fresh_node(E, allow_blank=False)
    if len(n.items) != 2:
        from pyvc.interp import PathEnd
        raise PathEnd("infeasible")
    return {"node": n}


def extract_key_cases(E, ctx):
    p, f = HM.hpk_parts(HM.bytes_of(ctx.node.items[0]))
    return [Case("path", returns=lambda: SSeq(p, "tuple", "int", rng=(0, 15)))]


def nodekind_cases(want):
    def cases(E, ctx):
        n = ctx.node
        if isinstance(n, ListObj) and len(n.items) == 2:
            p, f = HM.hpk_parts(HM.bytes_of(n.items[0]))
            val = f if want == "leaf" else z3.Not(f)
            return [Case("answer", returns=lambda: mk_bool(val))]
        return [Case("answer", returns=lambda: False)]
    return cases


def nibs_setup(E):
    E.ghost["hex_model"] = True
    return {"nibbles": HM.nibs(E, "nibbles")}


def _nib_term(v):
    if isinstance(v, ListObj) and v.items is not None:
        v = tuple(v.items)              # a list of nibbles is read like a tuple
    return ops.seq_term_as(v, "int")


def compute_key_cases(leaf):
    def cases(E, ctx):
        t = _nib_term(ctx.nibbles)

        def ret():
            r = z3.simplify(HM.HPK(t, z3.BoolVal(leaf)))
            E.assume(mk_bool(z3.And(HM.hp_path(r) == t, HM.hp_flag(r) == z3.BoolVal(leaf), z3.Length(r) >= 1)))
            return SSeq(r, "bytes", "int")
        return [Case("key", returns=ret)]
    return cases


def compute_key_requires(E, ctx):
    from contracts.seqspec import allnib_of
    from contracts.nibbles_c import B2N
    t = _nib_term(ctx.nibbles)
    side = []
    ok = allnib_of(t, side, B2N)
    for f in side:
        E.assume(mk_bool(f))
    return [("valid-nibbles", mk_bool(ok))]


def register(reg):
    _register_nodes(reg)
    _register_store(reg)
    _register_read(reg)
    _register_read2(reg)
    _register_store2(reg)
    _register_write(reg)
    _register_write2(reg)
    _register_api_write(reg)
    _register_squash(reg)
    _register_prune(reg)
    _register_proof(reg)
    _register_get_proof(reg)
    _register_proof_lemma(reg)
    _register_at_root(reg)


def _register_nodes(reg):
    g = "hex_nodes"
    reg.add(g, Contract(NODES + ":get_node_type", ["node"], gnt_cases, setup=node_setup, props=("C16", "C01", "C08")))
    reg.add(g, Contract(NODES + ":extract_key", ["node"], extract_key_cases, setup=kvnode_setup, props=("C16", "C01", "C08")))
    reg.add(g, Contract(NODES + ":is_leaf_node", ["node"], nodekind_cases("leaf"), setup=node_setup, props=("C16", "C01")))
    reg.add(g, Contract(NODES + ":is_extension_node", ["node"], nodekind_cases("ext"), setup=node_setup, props=("C16", "C01")))
    reg.add(g, Contract(NODES + ":compute_leaf_key", ["nibbles"], compute_key_cases(True), setup=nibs_setup,
                        requires=compute_key_requires, props=("C16", "C01", "C02")))
    reg.add(g, Contract(NODES + ":compute_extension_key", ["nibbles"], compute_key_cases(False), setup=nibs_setup,
                        requires=compute_key_requires, props=("C16", "C01", "C02")))


# ---------------------------------------------------------------------------------------------------
# get_node

def ref_value_setup(E):
    """a value handed to get_node: b'', a 32-byte hash, or an embedded node (a list)"""
    t = HM.mk_trie(E)
    k = E.nondet(2)
    if k == 0:
        v = E.fresh_seq("node_hash", "bytes")
        E.assume(mk_bool(z3.Or(z3.Length(v.t) == 0, z3.Length(v.t) == 32)))
    else:
        v = fresh_node(E, allow_blank=False)
    return {"self": t, "node_hash": v}


def get_node_cases(E, ctx):
    s = ctx.self
    db = s.fields["db"]
    v = ctx.node_hash
    if isinstance(v, ListObj):
        return [Case("embedded", returns=lambda: Is(v))]
    r = HM.ref_of(v)
    BH = HM.blank_node_hash(E)
    is_blank = z3.Or(HRef.is_RBlank(r), z3.And(HRef.is_RHash(r), HRef.rhash(r) == BH))
    is_hash = z3.And(HRef.is_RHash(r), HRef.rhash(r) != BH)
    h = HRef.rhash(r)
    present = z3.Select(ctx.old_has(db), h)
    unit_mode = hasattr(ctx, "outcome")

    def from_db():
        db.hooks.on_read(E, db, h, z3.Select(db.val, h))
        return HM.materialize(E, HM.hnode_of_hash(h))

    def check_from_db(res):
        db.hooks.on_read(E, db, h, z3.Select(db.val, h))
        return [("denotes-the-stored-node", mk_bool(HM.alpha(res) == HM.hnode_of_hash(h)))]
    cases = [Case("blank", when=mk_bool(is_blank), returns=lambda: b""),
             Case("stored", when=mk_bool(z3.And(is_hash, present)), ensures=check_from_db if unit_mode else None,
                  make=None if unit_mode else from_db),
             Case("missing", when=mk_bool(z3.And(is_hash, z3.Not(present))), raises=KeyError,
                  exc=lambda e: [("names-the-hash", ops.py_eq(e.args[0], SSeq(h, "bytes")) if e.args else False)],
                  make=lambda: ExcObj(KeyError, (SSeq(h, "bytes"),)))]
    if isinstance(v, SRef):
        origin = v.origin
        cases.append(Case("embedded", when=mk_bool(HRef.is_REmb(r)),
                          make=lambda: HM.materialize(E, HRef.remb(r), origin)))
    return cases


def get_node_requires(E, ctx):
    v = ctx.node_hash
    if isinstance(v, (ListObj, SRef)):
        return []
    t = HM.bytes_of(v)
    return [("blank-or-hash", mk_bool(z3.Or(z3.Length(t) == 0, z3.Length(t) == 32)))]


def _register_store(reg):
    g = "hexary_store"
    reg.add(g, Contract(HEX + ":HexaryTrie.get_node", ["self", "node_hash"], get_node_cases, setup=ref_value_setup,
                        requires=get_node_requires, props=("C01", "C07", "C08")))


# ---------------------------------------------------------------------------------------------------
# read path

def read_trie(E):
    # the read path never looks at is_pruning / _ref_count (frame obligations check that it does not write them
    # either), so one representative configuration is explored
    t = HM.mk_trie(E, pruning=False)
    E.ghost["read_only"] = True           # no unit of the read path writes a node list
    return t


def partial_cls(E):
    return E.loader.load(HEX).ns["_PartialTraversal"]


def mtn_cls(E):
    return objs.exc(E, "MissingTraversalNode")


def ext_setup(E):
    t = read_trie(E)
    D = z3.Const("ext.D", HNode)
    E.assume(mk_bool(z3.And(HNode.is_HExt(D), HM.hwfp(D))))
    HM.unfold_wf(E, D)
    node = HM.materialize(E, D)
    key = HM.nibs(E, "trie_key")
    return {"self": t, "node": node, "trie_key": key}


def ext_cases(E, ctx):
    node = ctx.node
    P, _f = HM.hpk_parts(HM.bytes_of(node.items[0]))
    K = ops.seq_term_as(ctx.trie_key, "int")
    through = z3.PrefixOf(P, K)
    partial = z3.And(z3.Not(through), z3.PrefixOf(K, P))
    child_val = ctx.old_items(node)[0][1]
    return [Case("through", when=mk_bool(through),
                 returns=lambda: (Is(child_val), SSeq(HM.tail(K, z3.Length(P)), "tuple", "int", rng=(0, 15)))),
            Case("partial", when=mk_bool(partial), raises=partial_cls(E)),
            Case("diverges", when=mk_bool(z3.And(z3.Not(through), z3.Not(partial))), returns=lambda: (b"", ()))]


def tf_setup(E):
    t = read_trie(E)
    D0 = z3.Const("node0.D", HNode)
    E.assume(mk_bool(HM.hwfp(D0)))
    HM.unfold_wf(E, D0)
    node = HM.materialize(E, D0)
    key = HM.nibs(E, "trie_key")
    ks = HM.nibs(E, "ks")                 # ghost suffix: the view equation is proved for an arbitrary continuation
    E.ghost["ks"] = ks.t
    E.ghost["D0"] = D0
    return {"self": t, "node": node, "trie_key": key}


def view_eq(E, n_val, rem, D0, K, ks):
    return HM.hlk(HM.alpha(n_val), z3.Concat(rem, ks)) == HM.hlk(D0, z3.Concat(K, ks))


def suffix_of(rem, K):
    return z3.And(z3.Length(rem) <= z3.Length(K), HM.tail(K, z3.Length(K) - z3.Length(rem)) == rem)


hchild = z3.Function("hchild", HNode, z3.IntSort(), HRef)      # the child reference in slot j (opaque; see reveal_child_at)


def child_at(D, j):
    return hchild(D, j)


def child_at_body(D, j):
    t = HM.child(D, 15)
    for i in reversed(range(15)):
        t = z3.If(j == i, HM.child(D, i), t)
    return t


def reveal_child_at(E, D, j):
    """definition of hchild at (D, j)"""
    E.assume(mk_bool(hchild(D, j) == child_at_body(D, j)))


def one_hop(D0, K):
    """the key is exactly one hop from D0: the whole path of an extension, or one nibble on a branch"""
    return z3.Or(z3.And(HNode.is_HExt(D0), K == HNode.epath(D0)),
                 z3.And(HNode.is_HBranch(D0), z3.Length(K) == 1, K[0] >= 0, K[0] <= 15))


def hop_target(E, D0, K):
    """the node one hop from D0 along K (meaningful under one_hop)"""
    return HM.deref(E, z3.If(HNode.is_HExt(D0), HNode.echild(D0), child_at(D0, K[0])))


def tf_inv(E, fr, _i):
    node = fr.locals["node"]
    rem = ops.seq_term_as(fr.locals["remaining_key"], "int")
    K = ops.seq_term_as(fr.locals["trie_key"], "int")
    D0, ks = E.ghost["D0"], E.ghost["ks"]
    Dn = HM.alpha(node)
    HM.unfold_wf(E, Dn)
    from contracts import seqlemmas as SL
    SL.use(E, "concat_empty", rem, ks)
    oh = one_hop(D0, K)
    reveal_child_at(E, D0, K[0])
    HM.unfold_hneed(E, Dn, rem, GQ)
    return [("needed-below-here-is-needed-from-the-start", mk_bool(z3.Implies(HM.hneed(Dn, rem, GQ), HM.hneed(D0, K, GQ)))),
            ("view", mk_bool(view_eq(E, node, rem, D0, K, ks))),
            ("remaining-is-a-suffix", mk_bool(suffix_of(rem, K))),
            ("node-well-formed", mk_bool(HM.hwfp(Dn))),
            ("one-hop-not-taken-yet", mk_bool(z3.Implies(z3.And(oh, z3.Length(rem) > 0), z3.And(rem == K, Dn == D0)))),
            ("one-hop-taken", mk_bool(z3.Implies(z3.And(oh, z3.Length(rem) == 0), Dn == hop_target(E, D0, K))))]


def fresh_loop_node(E):
    D = z3.Const(E.fresh_name("node.D"), HNode)
    return HM.materialize(E, D)


def tf_cases(E, ctx):
    K = ops.seq_term_as(ctx.trie_key, "int")
    unit_mode = hasattr(ctx, "outcome")
    if unit_mode:
        D0, ks = E.ghost["D0"], E.ghost["ks"]
    else:
        D0 = HM.alpha(ctx.node)
        ks = None

    def ens(res):
        n, rem = res
        rt = ops.seq_term_as(rem, "int")
        Dn = HM.alpha(n)
        shape = z3.Implies(z3.Length(rt) > 0,
                           z3.Or(z3.And(HNode.is_HLeaf(Dn), z3.PrefixOf(rt, HNode.lpath(Dn))),
                                 z3.And(HNode.is_HExt(Dn), z3.PrefixOf(rt, HNode.epath(Dn)), rt != HNode.epath(Dn))))
        if unit_mode:
            reveal_child_at(E, D0, K[0])
        out = [("remaining-is-a-suffix", mk_bool(suffix_of(rt, K))), ("stops-only-inside-a-path", mk_bool(shape)),
               ("node-well-formed", mk_bool(HM.hwfp(Dn))),
               ("one-hop-reaches-the-child", mk_bool(z3.Implies(one_hop(D0, K), z3.And(z3.Length(rt) == 0,
                                                                                        Dn == hop_target(E, D0, K)))))]
        if unit_mode:
            from contracts import seqlemmas as SL
            _step_facts(E, n, rt, ks)
            SL.use(E, "concat_empty", rt, ks)
            out.insert(0, ("view", mk_bool(view_eq(E, n, rt, D0, K, ks))))
        return out

    make = None if unit_mode else tf_result_facts(E, D0, K)
    db = ctx.self.fields["db"]
    return [Case("reached", ensures=ens, make=make),
            Case("missing-node", raises=mtn_cls(E), make=None if unit_mode else mtn_make(E, ctx.old_has(db), D0, K),
                 exc=lambda e: missing_clauses(E, e, ctx.old_has(db), D0, K, E.ghost.get("ks")))]


GQ = z3.Const("h!need", SeqI)      # ghost: an arbitrary node hash (the structural `needed` clause is proved for it)


def need_cond(E, D0, K, root, x):
    """the hashed node x is the root or is dereferenced by a walk of K below D0 -- and is not the blank root"""
    c = HM.hneed(D0, K, x)
    if root is not None:
        c = z3.Or(x == root, c)
    return z3.And(x != HM.blank_node_hash(E), c)


def missing_clauses(E, e, old_has, D0, K, ks, at=(0, 1), need=False, root=None, direct=False):
    """what a MissingTraversalNode(h, used) / MissingTrieNode(h, root, key, used) raised by a walk from D0 along K
    must say (C07): h is absent from the database, `used` is the prefix of K consumed so far, and the node h denotes
    sits on the requested path right after `used`: looking K ++ ks up below D0 is looking the rest up below that node
    (ks: arbitrary ghost continuation)"""
    ih, iu = at
    if len(e.args) <= max(ih, iu):
        return [("exception-carries-hash-and-prefix", False)]
    try:
        h = HM.bytes_of(e.args[ih])
        used = ops.seq_term_as(e.args[iu], "int")
    except Unsupported:
        return [("exception-carries-hash-and-prefix", False)]
    out = [("hash-is-absent", mk_bool(z3.Not(z3.Select(old_has, h)))),
           ("traversed-is-a-prefix-of-the-key", mk_bool(z3.PrefixOf(used, K)))]
    if ks is not None:
        rest = z3.Concat(HM.tail(K, z3.Length(used)), ks)
        out.append(("missing-node-is-on-the-path",
                    mk_bool(HM.hlk(D0, z3.Concat(K, ks)) == HM.hlk(HM.hnode_of_hash(h), rest))))
    if need:
        # structural form of the same statement (what get_proof's contract speaks about): proved for an arbitrary
        # ghost hash in unit mode, handed to the caller at the reported hash in callee mode
        out.append(("missing-node-is-dereferenced-by-the-key-s-walk",
                    mk_bool(need_cond(E, D0, K, root, h) if direct else z3.Implies(h == GQ, need_cond(E, D0, K, root, GQ)))))
    return out


def _step_facts(E, node, rem, ks):
    """lemma instances and unfoldings for one step of the walk from `node` along rem ++ ks"""
    from contracts import seqlemmas as SL
    D = HM.alpha(node)
    k = z3.simplify(z3.Concat(rem, ks))
    HM.unfold_hlk(E, D, k)
    HM.unfold_wf(E, D)
    SL.use(E, "nth_concat", rem, ks)
    SL.use(E, "tail_concat", rem, ks, z3.IntVal(1))
    if isinstance(node, ListObj) and len(node.items) == 2:
        P, f = HM.hpk_parts(HM.bytes_of(node.items[0]))
        SL.use(E, "tail_concat", rem, ks, z3.Length(P))
        SL.use(E, "prefix_concat_left", P, rem, ks)
        SL.use(E, "eq_concat_prefix", rem, ks, P)
        SL.use(E, "proper_prefix_blocks", rem, ks, P)
        SL.use(E, "prefix_is_slice", P, rem)


def tf_body_hook(E, fr):
    """facts added at the head of every iteration of the walk (unit mode): the step lemmas for the current node"""
    from contracts import seqlemmas as SL
    node = fr.locals["node"]
    rem = ops.seq_term_as(fr.locals["remaining_key"], "int")
    _step_facts(E, node, rem, E.ghost["ks"])
    K = ops.seq_term_as(fr.locals["trie_key"], "int")
    SL.use(E, "suffix_tail", K, rem, z3.IntVal(1))
    if isinstance(node, ListObj) and node.items is not None and len(node.items) == 2:
        P, f = HM.hpk_parts(HM.bytes_of(node.items[0]))
        SL.use(E, "suffix_tail", K, rem, z3.Length(P))


def _register_read(reg):
    g = "hexary_read"
    H = HEX + ":HexaryTrie."
    reg.add(g, Contract(H + "_traverse_extension", ["self", "node", "trie_key"], ext_cases, setup=ext_setup,
                        props=("C01", "C08")))

    def inv_with_facts(E, fr, i):
        if "remaining_key" in fr.locals and isinstance(fr.locals.get("node"), (ListObj, bytes)):
            tf_body_hook(E, fr)
        return tf_inv(E, fr, i)
    reg.add(g, Contract(H + "_traverse_from", ["self", "node", "trie_key"], tf_cases, setup=tf_setup,
                        props=("C01", "C07", "C08"),
                        loops={0: LoopSpec(inv_with_facts, fresh={"node": fresh_loop_node,
                                                                    "next_node_pointer": "unbound", "node_type": "unbound",
                                                                    "leaf_key": "unbound", "used_key": "unbound"})}))


# _traverse, _get, get, exists ------------------------------------------------------------------------

def root_ref_setup(E, with_key_bytes=False):
    t = read_trie(E)
    args = {"self": t}
    E.ghost["ks"] = HM.nibs(E, "ks").t      # ghost continuation of the key (C07: the missing node is on the path)
    if with_key_bytes:
        args["key"] = E.fresh_seq("key", "bytes")
    else:
        args["root_hash"] = objs.hash32(E, "root")
        args["trie_key"] = HM.nibs(E, "trie_key")
    return args


def node_of_root(E, root_term):
    return HM.deref(E, HRef.RHash(root_term))


def tf_result_facts(E, D0, K):
    """callee view of a (node, remainder) result of the walk from D0 along K"""
    def make():
        Dn = z3.Const(E.fresh_name("tf.D"), HNode)
        E.assume(mk_bool(HM.hwfp(Dn)))
        HM.unfold_wf(E, Dn)
        n = HM.materialize(E, Dn)
        rem = HM.nibs(E, "tf.rem")
        rt = rem.t
        E.assume(mk_bool(suffix_of(rt, K)))
        E.assume(mk_bool(z3.Implies(z3.Length(rt) > 0,
                                    z3.Or(z3.And(HNode.is_HLeaf(Dn), z3.PrefixOf(rt, HNode.lpath(Dn))),
                                          z3.And(HNode.is_HExt(Dn), z3.PrefixOf(rt, HNode.epath(Dn)), rt != HNode.epath(Dn))))))
        E.assume(mk_bool(HM.hlk(Dn, rt) == HM.hlk(D0, K)))          # the view equation at the empty continuation
        E.assume(mk_bool(z3.Implies(one_hop(D0, K), z3.And(z3.Length(rt) == 0, Dn == hop_target(E, D0, K)))))
        ks = E.ghost.get("ks")
        if ks is not None:
            # ... and at the caller's ghost continuation (the unit proves it for an arbitrary one)
            E.assume(mk_bool(HM.hlk(Dn, z3.Concat(rt, ks)) == HM.hlk(D0, z3.Concat(K, ks))))
        E.ghost.setdefault("hview_rules", []).append((Dn, rt, D0, K))
        return (n, rem)
    return make


def mtn_make(E, old_has=None, D0=None, K=None, root=None):
    def make():
        e = ExcObj(mtn_cls(E), (objs.hash32(E, "missing"), HM.nibs(E, "traversed")))
        if old_has is not None:
            for (_n, c) in missing_clauses(E, e, old_has, D0, K, E.ghost.get("ks"), need=True, root=root, direct=True):
                E.assume(c)
        return e
    return make


def tf_cases_callee(E, ctx, D0, K, root=None):
    return [Case("reached", make=tf_result_facts(E, D0, K)),
            Case("missing-node", raises=mtn_cls(E), make=mtn_make(E, ctx.old_has(ctx.self.fields["db"]), D0, K, root))]


def traverse_cases(E, ctx):
    K = ops.seq_term_as(ctx.trie_key, "int")
    root = HM.bytes_of(ctx.root_hash)
    D0 = node_of_root(E, root)
    if not hasattr(ctx, "outcome"):
        return tf_cases_callee(E, ctx, D0, K, root)

    def ens(res):
        n, rem = res
        rt = ops.seq_term_as(rem, "int")
        Dn = HM.alpha(n)
        for (Dr, rr, Ds, Ks) in E.ghost.get("hview_rules", []):
            pass
        return [("view", mk_bool(HM.hlk(Dn, rt) == HM.hlk(D0, K))), ("remaining-is-a-suffix", mk_bool(suffix_of(rt, K)))]
    return [Case("reached", ensures=ens),
            Case("missing-node", raises=mtn_cls(E),
                 exc=lambda e: missing_clauses(E, e, ctx.old_has(ctx.self.fields["db"]), D0, K, E.ghost.get("ks"),
                                               need=True, root=root))]


def get_internal_cases(E, ctx):
    K = ops.seq_term_as(ctx.trie_key, "int")
    root = HM.bytes_of(ctx.root_hash)
    D0 = node_of_root(E, root)
    want = HM.hlk(D0, K)
    if hasattr(ctx, "outcome"):
        from contracts import seqlemmas as SL
        for (Dn, rt, Ds, Ks) in E.ghost.get("hview_rules", []):
            HM.unfold_hlk(E, Dn, rt)
            HM.unfold_wf(E, Dn)
            SL.use(E, "prefix_antisym", rt, HNode.epath(Dn))
    old_has = ctx.old_has(ctx.self.fields["db"])
    return [Case("value", returns=lambda: SSeq(want, "bytes")),
            Case("missing-node", raises=mtn_cls(E), make=mtn_make(E, old_has, D0, K, root),
                 exc=lambda e: missing_clauses(E, e, old_has, D0, K, E.ghost.get("ks"), need=True, root=root))]


def get_cases(E, ctx):
    from contracts.nibbles_c import B2N
    root = HM.bytes_of(ctx.old_field(ctx.self, "root_hash"))
    D0 = node_of_root(E, root)
    K = B2N(ops.seq_term_as(ctx.key, "int"))
    want = HM.hlk(D0, K)
    return [Case("value", returns=lambda: SSeq(want, "bytes")),
            Case("missing-node", raises=objs.exc(E, "MissingTrieNode"), exc=lambda e: mtn_api_clauses(E, ctx, e, D0, K, root),
                 make=None if hasattr(ctx, "outcome") else (lambda: mtn_api_make(E, ctx, D0, K, root)))]


def mtn_api_make(E, ctx, D0, K, root, with_prefix=True):
    e = ExcObj(objs.exc(E, "MissingTrieNode"), (objs.hash32(E, "missing"), SSeq(root, "bytes"), ctx.key,
                                                 HM.nibs(E, "prefix") if with_prefix else None))
    for (_n, c) in mtn_api_clauses(E, ctx, e, D0, K, root, with_prefix, direct=True):
        E.assume(c)
    return e


def mtn_api_clauses(E, ctx, e, D0, K, root, with_prefix=True, direct=False):
    """MissingTrieNode(h, root_hash, key, prefix) raised by a public entry point (C07): the report is truthful"""
    if len(e.args) < 4:
        return [("exception-carries-hash-root-key-prefix", False)]
    old_has = ctx.old_has(ctx.self.fields["db"])
    out = [("names-the-root", ops.py_eq(e.args[1], SSeq(root, "bytes"))),
           ("names-the-key", ops.py_eq(e.args[2], ctx.key))]
    if with_prefix:
        out += missing_clauses(E, e, old_has, D0, K, E.ghost.get("ks"), at=(0, 3), need=True, root=root, direct=direct)
    else:
        out += [("hash-is-absent", mk_bool(z3.Not(z3.Select(old_has, HM.bytes_of(e.args[0])))))]
    return out


def exists_cases(E, ctx):
    from contracts.nibbles_c import B2N
    root = HM.bytes_of(ctx.old_field(ctx.self, "root_hash"))
    D0 = node_of_root(E, root)
    K = B2N(ops.seq_term_as(ctx.key, "int"))
    want = HM.hlk(D0, K)
    return [Case("answer", returns=lambda: mk_bool(z3.Length(want) > 0)),
            Case("missing-node", raises=objs.exc(E, "MissingTrieNode"), exc=lambda e: mtn_api_clauses(E, ctx, e, D0, K, root),
                 make=None if hasattr(ctx, "outcome") else (lambda: mtn_api_make(E, ctx, D0, K, root)))]


def _register_read2(reg):
    g = "hexary_read"
    H = HEX + ":HexaryTrie."
    reg.add(g, Contract(H + "_traverse", ["self", "root_hash", "trie_key"], traverse_cases,
                        setup=lambda E: root_ref_setup(E), props=("C01", "C07", "C08")))
    reg.add(g, Contract(H + "_get", ["self", "root_hash", "trie_key"], get_internal_cases,
                        setup=lambda E: root_ref_setup(E), props=("C01", "C03")))
    g = "hexary_api"
    reg.add(g, Contract(H + "get", ["self", "key"], get_cases, setup=lambda E: root_ref_setup(E, True),
                        props=("C01", "C03", "C07")))
    reg.add(g, Contract(H + "exists", ["self", "key"], exists_cases, setup=lambda E: root_ref_setup(E, True),
                        props=("C01", "C07")))
    reg.add(g, Contract(H + "__getitem__", ["self", "key"], get_cases, setup=lambda E: root_ref_setup(E, True),
                        props=("C01",)))
    reg.add(g, Contract(H + "__contains__", ["self", "key"], exists_cases, setup=lambda E: root_ref_setup(E, True),
                        props=("C01",)))


# ---------------------------------------------------------------------------------------------------
# store level of the write path: node -> database mapping, persisting, root rule, pruning bookkeeping

VAL = "trie.validation"


def write_trie(E, pruning=None):
    t = HM.mk_trie(E, pruning=pruning)
    return t


def wf_node_setup(E, pruning=None, allow_blank=True):
    t = write_trie(E, pruning)
    D = z3.Const(E.fresh_name("n.D"), HNode)
    E.assume(mk_bool(HM.hwfp(D)))
    HM.unfold_wf(E, D)
    if not allow_blank:
        E.assume(mk_bool(z3.Not(HNode.is_HBlank(D))))
    node = HM.materialize(E, D)
    return t, node, D


def vin_cases(E, ctx):
    """validate_is_node on a well-formed raw node returns (callee view; the recursive validator itself is decided by
    the bounded tier)"""
    return [Case("valid", returns=lambda: None)]


def vin_requires(E, ctx):
    D = HM.alpha(ctx.node)
    HM.unfold_wf(E, D)
    return [("well-formed-node", mk_bool(HM.hwfp(D)))]


def mk_ref_parts(E, D):
    enc = z3.simplify(HM.rlpenc(D))
    return enc, z3.Length(enc) < 32


def cmap_setup(E):
    t, node, D = wf_node_setup(E)
    return {"self": t, "node": node}


def cmap_cases(E, ctx):
    """_create_node_to_db_mapping implements the reference rule of the Yellow Paper: blank -> (b'', None); rlp shorter
    than 32 bytes -> the node itself (embedded); otherwise (keccak(rlp), rlp)"""
    node = ctx.node
    D = HM.alpha(node)
    enc, small = mk_ref_parts(E, D)
    blank = HNode.is_HBlank(D)

    def hashed():
        e = HM.x_encode_raw(E, node)
        return (E.keccak(e), e)
    return [Case("blank", when=mk_bool(blank), returns=lambda: (b"", None)),
            Case("embedded", when=mk_bool(z3.And(z3.Not(blank), small)), returns=lambda: (Is(node), None)),
            Case("hashed", when=mk_bool(z3.And(z3.Not(blank), z3.Not(small))), returns=hashed)]


def nmap_cases(E, ctx):
    """_node_to_db_mapping: the same rule; on a pruning trie the lru-cached variant returns an equal *copy* of an
    embedded node (tuplify / listify), shared between equal nodes: it must never be written"""
    node = ctx.node
    s = ctx.self
    D = HM.alpha(node)
    enc, small = mk_ref_parts(E, D)
    blank = HNode.is_HBlank(D)

    def hashed():
        e = HM.x_encode_raw(E, node)
        return (E.keccak(e), e)

    def embedded():
        if s.fields["is_pruning"] is True and isinstance(node, ListObj):
            cp = _deep_copy(node)
            cp.frozen = True
            return (cp, None)
        return (node, None)
    return [Case("blank", when=mk_bool(blank), returns=lambda: (b"", None)),
            Case("embedded", when=mk_bool(z3.And(z3.Not(blank), small)), make=embedded),
            Case("hashed", when=mk_bool(z3.And(z3.Not(blank), z3.Not(small))), returns=hashed)]


def _deep_copy(lst):
    items = []
    for x in lst.items:
        items.append(_deep_copy(x) if isinstance(x, ListObj) else (SRef(x.t) if isinstance(x, SRef) else x))
    return ListObj(items=items)


def persist_setup(E):
    t, node, D = wf_node_setup(E)
    return {"self": t, "node": node}


def persist_cases(E, ctx):
    """_persist_node(node) returns the reference to put into the parent (mk_ref) and, for a hashed node, stores
    rlp(node) under its keccak (content-addressed) and counts one more reference on a pruning trie"""
    s = ctx.self
    db = s.fields["db"]
    rc = s.fields["_ref_count"]
    node = ctx.node
    D = HM.alpha(node)
    enc, small = mk_ref_parts(E, D)
    blank = HNode.is_HBlank(D)
    h = specfn.keccak(enc)

    def post_hashed():
        out = [("stored", mk_bool(z3.And(db.has == z3.Store(ctx.old_has(db), h, z3.BoolVal(True)),
                                         db.val == z3.Store(ctx.old_val(db), h, enc))))]
        if rc is not None:
            old = z3.If(z3.Select(ctx.old_has(rc), h), z3.Select(ctx.old_val(rc), h), 0)
            out.append(("counted", mk_bool(z3.And(z3.Select(rc.has, h), z3.Select(rc.val, h) == old + 1))))
            k = z3.Const("k!rc", SeqI)
            out.append(("other-counts-untouched", mk_bool(z3.ForAll([k], z3.Implies(k != h, z3.And(
                z3.Select(rc.has, k) == z3.Select(ctx.old_has(rc), k),
                z3.Select(rc.val, k) == z3.Select(ctx.old_val(rc), k))), patterns=[z3.Select(rc.val, k)]))))
            if not hasattr(ctx, "outcome"):
                # the same at the ghost hash of the count clauses (spares the callers the instantiation)
                g = z3.Const("h!count", SeqI)
                E.assume(mk_bool(z3.Implies(g != h, z3.And(z3.Select(rc.has, g) == z3.Select(ctx.old_has(rc), g),
                                                           z3.Select(rc.val, g) == z3.Select(ctx.old_val(rc), g)))))
                E.assume(mk_bool(dict_at(rc.has, rc.val, g) == dict_at(ctx.old_has(rc), ctx.old_val(rc), g) + z3.If(g == h, 1, 0)))
        return out

    def ret_hashed():
        e = HM.x_encode_raw(E, node)
        E.assume(mk_bool(z3.Implies(z3.Select(ctx.old_has(db), h), z3.Select(ctx.old_val(db), h) == HM.unk(h))))
        return E.keccak(e)

    def ens_embedded(r):
        return [("reference-denotes-the-node", mk_bool(HM.ref_of(r) == HRef.REmb(D)) if isinstance(r, (ListObj, SRef)) else False)]

    def make_embedded():
        if s.fields["is_pruning"] is True and isinstance(node, ListObj):
            cp = _deep_copy(node)
            cp.frozen = True
            return cp
        return node
    mods = [db] + ([rc] if rc is not None else [])
    return [Case("blank", when=mk_bool(blank), returns=lambda: b""),
            Case("embedded", when=mk_bool(z3.And(z3.Not(blank), small)), ensures=ens_embedded, make=make_embedded),
            Case("hashed", when=mk_bool(z3.And(z3.Not(blank), z3.Not(small))), returns=ret_hashed, post=post_hashed,
                 modifies=mods)]


def setraw_cases(E, ctx):
    """_set_raw_node: the root rule -- a non-blank node is stored under the keccak of its rlp even when that is
    shorter than 32 bytes; blank gives BLANK_NODE_HASH and writes nothing"""
    s = ctx.self
    db = s.fields["db"]
    rc = s.fields["_ref_count"]
    node = ctx.raw_node
    D = HM.alpha(node)
    enc = z3.simplify(HM.rlpenc(D))
    blank = HNode.is_HBlank(D)
    h = specfn.keccak(enc)
    BNH = E.loader.load("trie.constants").ns["BLANK_NODE_HASH"]

    def post():
        out = [("stored", mk_bool(z3.And(db.has == z3.Store(ctx.old_has(db), h, z3.BoolVal(True)),
                                         db.val == z3.Store(ctx.old_val(db), h, enc))))]
        if rc is not None:
            old = z3.If(z3.Select(ctx.old_has(rc), h), z3.Select(ctx.old_val(rc), h), 0)
            out.append(("counted", mk_bool(z3.And(z3.Select(rc.has, h), z3.Select(rc.val, h) == old + 1))))
            k = z3.Const("k!rc", SeqI)
            out.append(("other-counts-untouched", mk_bool(z3.ForAll([k], z3.Implies(k != h, z3.And(
                z3.Select(rc.has, k) == z3.Select(ctx.old_has(rc), k),
                z3.Select(rc.val, k) == z3.Select(ctx.old_val(rc), k))), patterns=[z3.Select(rc.val, k)]))))
            if not hasattr(ctx, "outcome"):
                g = z3.Const("h!count", SeqI)
                E.assume(mk_bool(dict_at(rc.has, rc.val, g) == dict_at(ctx.old_has(rc), ctx.old_val(rc), g) + z3.If(g == h, 1, 0)))
        return out

    def ret():
        e = HM.x_encode_raw(E, node)
        E.assume(mk_bool(z3.Implies(z3.Select(ctx.old_has(db), h), z3.Select(ctx.old_val(db), h) == HM.unk(h))))
        return E.keccak(e)
    mods = [db] + ([rc] if rc is not None else [])
    return [Case("blank", when=mk_bool(blank), returns=lambda: BNH),
            Case("stored", when=mk_bool(z3.Not(blank)), returns=ret, post=post, modifies=mods)]


def setraw_setup(E):
    t, node, D = wf_node_setup(E)
    return {"self": t, "raw_node": node}


def prune_node_setup(E):
    t, node, D = wf_node_setup(E, pruning=True)
    t.fields["_pending_prune_keys"] = E.fresh_dict("pending", "bytes", "int", default=0)
    return {"self": t, "node": node}


def prune_node_cases(E, ctx):
    """_prune_node(node): on a pruning trie one more pending prune of the node's hash iff the node is hashed
    (rlp >= 32 bytes); nothing else changes"""
    s = ctx.self
    pend = s.fields["_pending_prune_keys"]
    node = ctx.node
    D = HM.alpha(node)
    enc, small = mk_ref_parts(E, D)
    blank = HNode.is_HBlank(D)
    h = specfn.keccak(enc)
    if s.fields["is_pruning"] is not True:
        return [Case("not-pruning", returns=lambda: None)]

    def post():
        old = z3.If(z3.Select(ctx.old_has(pend), h), z3.Select(ctx.old_val(pend), h), 0)
        k = z3.Const("k!pp", SeqI)
        if not hasattr(ctx, "outcome"):
            g = z3.Const("h!count", SeqI)
            E.assume(mk_bool(dict_at(pend.has, pend.val, g) == dict_at(ctx.old_has(pend), ctx.old_val(pend), g) + z3.If(g == h, 1, 0)))
        return [("one-more-pending-prune", mk_bool(z3.And(z3.Select(pend.has, h), z3.Select(pend.val, h) == old + 1))),
                ("other-keys-untouched", mk_bool(z3.ForAll([k], z3.Implies(k != h, z3.And(
                    z3.Select(pend.has, k) == z3.Select(ctx.old_has(pend), k),
                    z3.Select(pend.val, k) == z3.Select(ctx.old_val(pend), k))))))]
    hashed = z3.And(z3.Not(blank), z3.Not(small))
    return [Case("embedded-or-blank", when=mk_bool(z3.Not(hashed)), returns=lambda: None),
            Case("hashed", when=mk_bool(hashed), returns=lambda: None, post=post, modifies=[pend])]


def _register_store2(reg):
    g = "hexary_store"
    H = HEX + ":HexaryTrie."
    reg.add(g, Contract(VAL + ":validate_is_node", ["node"], vin_cases, requires=vin_requires, props=("C18",), verify=False,
                        justified_by="the recursive validator accepts exactly the well-formed raw nodes; decided by the bounded tier (C18)"))
    reg.add(g, Contract(H + "_create_node_to_db_mapping", ["self", "node"], cmap_cases, setup=cmap_setup,
                        props=("C02", "C04", "C06")))
    reg.add(g, Contract(H + "_node_to_db_mapping", ["self", "node"], nmap_cases, props=("C02",), verify=False,
                        justified_by="_create_node_to_db_mapping's contract; functools.lru_cache is transparent and "
                                     "tuplify / listify are inverse deep copies (assumed, cross-checked by the bounded tier)"))
    reg.add(g, Contract(H + "_persist_node", ["self", "node"], persist_cases, setup=persist_setup,
                        props=("C02", "C04", "C06")))
    reg.add(g, Contract(H + "_set_raw_node", ["self", "raw_node"], setraw_cases, setup=setraw_setup,
                        props=("C02", "C04", "C06")))
    reg.add(g, Contract(H + "_prune_node", ["self", "node"], prune_node_cases, setup=prune_node_setup, props=("C06",)))


# ---------------------------------------------------------------------------------------------------
# write path: _set  (the helpers _set_kv_node / _set_branch_node are executed as part of this unit)

def set_setup(E):
    t = write_trie(E, pruning=False)          # reference counting is the subject of C06, not of this unit
    E.ghost["hex_value_slots"] = True
    D = z3.Const("node.D", HNode)
    E.assume(mk_bool(HM.hwfp(D)))
    HM.unfold_wf(E, D)
    node = HM.materialize(E, D)
    key = HM.nibs(E, "trie_key")
    value = E.fresh_seq("value", "bytes")
    E.assume(mk_bool(z3.Length(value.t) > 0))
    q0 = HM.nibs(E, "q0")
    E.ghost["q0"] = q0.t
    E.ghost["D_old"] = D
    return {"self": t, "node": node, "trie_key": key, "value": value}


def set_requires(E, ctx):
    from contracts.seqspec import allnib_of
    from contracts.nibbles_c import B2N
    D = HM.alpha(ctx.node)
    HM.unfold_wf(E, D)
    K = ops.seq_term_as(ctx.trie_key, "int")
    V = HM.bytes_of(ctx.value)
    side = []
    ok = allnib_of(K, side, B2N)
    for f in side:
        E.assume(mk_bool(f))
    return [("node-well-formed", mk_bool(HM.hwfp(D))), ("key-is-nibbles", mk_bool(ok)),
            ("value-non-empty", mk_bool(z3.Length(V) > 0))]


def hview_after_set(Dold, K, V, q):
    return z3.If(q == K, V, HM.hlk(Dold, q))


def set_cases(E, ctx):
    s = ctx.self
    db = s.fields["db"]
    K = ops.seq_term_as(ctx.trie_key, "int")
    V = HM.bytes_of(ctx.value)
    unit_mode = hasattr(ctx, "outcome")
    Dold = E.ghost["D_old"] if unit_mode else HM.alpha(ctx.node)
    x = z3.Const("x!grow", SeqI)

    def grows():
        return z3.ForAll([x], z3.Implies(z3.Select(ctx.old_has(db), x),
                                         z3.And(z3.Select(db.has, x), z3.Select(db.val, x) == z3.Select(ctx.old_val(db), x))),
                         patterns=[z3.Select(db.has, x), z3.Select(db.val, x)])

    def ens(res):
        from contracts import seqlemmas as SL
        Dn = HM.alpha(res)
        q = E.ghost["q0"]
        HM.unfold_hlk(E, Dold, q, depth=1)
        HM.unfold_hlk(E, Dn, q, depth=3)
        _key_pair_facts_hex(E, K, q, Dold)
        HM.unfold_wf_deep(E, Dn)
        return [("view", mk_bool(HM.hlk(Dn, q) == hview_after_set(Dold, K, V, q))),
                ("never-blank", mk_bool(z3.Not(HNode.is_HBlank(Dn)))),
                ("a-branch-stays-a-branch", mk_bool(z3.Implies(HNode.is_HBranch(Dold), HNode.is_HBranch(Dn)))),
                ("well-formed", mk_bool(HM.hwfp(Dn)))]

    def make():
        Dn = z3.Const(E.fresh_name("_set.D"), HNode)
        E.assume(mk_bool(z3.And(HM.hwfp(Dn), z3.Not(HNode.is_HBlank(Dn)),
                                z3.Implies(HNode.is_HBranch(Dold), HNode.is_HBranch(Dn)))))
        HM.unfold_wf(E, Dn)
        E.ghost.setdefault("hview_rules2", []).append(
            (Dn, lambda Q: HM.hlk(Dn, Q) == hview_after_set(Dold, K, V, Q), Dold))
        if isinstance(ctx.node, ListObj):
            ctx.node.poison_len = len(ctx.node.items) if ctx.node.items is not None else None
            ctx.node.items = None            # the argument list may have been modified in place: it must not be read again
            ctx.node.seq = None
        return HM.materialize(E, Dn)

    def post():
        return [("store-only-grows", mk_bool(grows()))]
    # the argument list may be modified in place; in callee mode it is poisoned instead of havoced (see make)
    mods = [db] + ([ctx.node] if (unit_mode and isinstance(ctx.node, ListObj)) else [])
    pruning = s.fields.get("is_pruning") is True
    if pruning and not unit_mode:
        rc_, pend_ = s.fields["_ref_count"], s.fields["_pending_prune_keys"]
        mods = mods + [rc_, pend_]
        make0 = make

        def make():
            r = make0()
            # count clause of the pruning unit (_set#pruning), at the ghost hash
            E.assume(mk_bool(count_delta_clause(E, ctx, Dold, HM.alpha(r), rc_, pend_)))
            return r
    # C07: a failed _set has written nothing (reads precede writes) and names a hash that is absent
    def missing_exc(e):
        out = keyerror_clauses(e, ctx.old_has(db))
        if len(e.args) == 1:
            h = HM.bytes_of(e.args[0])
            HM.unfold_hneed(E, Dold, K, h)
            for (Dsub, Ksub, hsub) in E.ghost.get("hneed_rules", []):
                HM.unfold_hneed(E, Dsub, Ksub, hsub)
            out.append(("missing-node-is-on-the-key-s-path", mk_bool(HM.hneed(Dold, K, h))))
        return out

    def missing_make():
        e = keyerror_make(E, ctx.old_has(db))
        h = HM.bytes_of(e.args[0])
        E.assume(mk_bool(HM.hneed(Dold, K, h)))
        E.ghost.setdefault("hneed_rules", []).append((Dold, K, h))
        return e
    return [Case("updated", ensures=ens if unit_mode else None, make=None if unit_mode else make, post=post, modifies=mods),
            Case("missing-node", raises=KeyError, modifies=[s.fields["_pending_prune_keys"]] if (pruning and not unit_mode) else [],
                 exc=missing_exc, make=None if unit_mode else missing_make)]


def keyerror_clauses(e, old_has):
    if len(e.args) != 1:
        return [("names-the-hash", False)]
    try:
        h = HM.bytes_of(e.args[0])
    except Unsupported:
        return [("names-the-hash", False)]
    return [("hash-is-absent", mk_bool(z3.Not(z3.Select(old_has, h))))]


def keyerror_make(E, old_has):
    e = ExcObj(KeyError, (objs.hash32(E, "missing"),))
    for (_n, c) in keyerror_clauses(e, old_has):
        E.assume(c)
    return e


def _key_pair_facts_hex(E, K, q, D):
    """lemma instances relating the update key K and the probe key q at the node D (a leaf / extension path or a
    branch step)"""
    from contracts import seqlemmas as SL
    SL.use(E, "eq_cons", K, q)
    SL.use(E, "prefix_cons", K, q)
    for (a, b) in ((K, q), (q, K)):
        SL.use(E, "prefix_head_differs", a, b)
    D = z3.simplify(D)
    paths = []
    if HM.is_constructor(D) and D.decl().name() in ("HLeaf", "HExt"):
        paths.append(D.arg(0))
    else:
        paths += [HNode.lpath(D), HNode.epath(D)]
    for P in paths:
        for (a, b) in ((K, q), (q, K)):
            SL.use(E, "prefix_strip", P, a, b)
            SL.use(E, "prefix_excl", P, a, b)
            SL.use(E, "prefix_trans", P, a, b)
        SL.use(E, "eq_strip", P, K, q)
        for xk in (K, q):
            SL.use(E, "prefix_is_slice", P, xk)
            SL.use(E, "prefix_antisym", P, xk)
    for (ta, tb, rterm) in E.ghost.get("gcpl", []):
        for P in paths:
            SL.split_point_facts(E, P, K, q, rterm, Kp=None)
        SL.use(E, "lcp_prefix", ta, tb, rterm)


# ---- reference counting of a pruning trie (C06) ------------------------------------------------------------------
# net(h) = _ref_count[h] - _pending_prune_keys[h] (absent entries count as 0).  What one recursive update does to it,
# for an arbitrary hashed node h (ghost HG0):
#     net'(h) - net(h)  =  hrefs(result, h) - hrefs(argument, h) - [the argument node is hashed and is h]
# (the result is persisted -- counted -- by the caller; the argument was referenced by the caller and is pruned here).
# With _set_root_node counting the new root and _complete_pruning applying the pending prunes this gives, for set /
# delete as a whole:  count'(h) - count(h) = RC(new root, h) - RC(old root, h),  RC(root, h) = [root = h] + hrefs.

HG0 = z3.Const("h!count", SeqI)        # ghost: an arbitrary node hash


def dict_at(has, val, k):
    return z3.If(z3.Select(has, k), z3.Select(val, k), 0)


def net_count(rc, pend, h, old_ctx=None):
    if old_ctx is not None:
        return dict_at(old_ctx.old_has(rc), old_ctx.old_val(rc), h) - dict_at(old_ctx.old_has(pend), old_ctx.old_val(pend), h)
    return dict_at(rc.has, rc.val, h) - dict_at(pend.has, pend.val, h)


def self_count(E, D, h):
    """1 if the node D is referenced by hash and that hash is h"""
    enc, small = mk_ref_parts(E, D)
    return z3.If(z3.And(z3.Not(HNode.is_HBlank(D)), z3.Not(small), specfn.keccak(enc) == h), 1, 0)


def count_delta_clause(E, ctx, Dold, Dnew, rc, pend, h=None):
    h = HG0 if h is None else h
    HM.unfold_hrefs(E, Dold, h)
    HM.unfold_hrefs(E, Dnew, h)
    db = ctx.self.fields["db"]
    delta = net_count(rc, pend, h) - net_count(rc, pend, h, ctx) == HM.hrefs(Dnew, h) - HM.hrefs(Dold, h) - self_count(E, Dold, h)
    # a node enters the store exactly when it is counted: stored afterwards iff stored before or counted meanwhile
    # (counts only grow inside one update; pruning happens at the end)
    tracked = z3.And(z3.Select(db.has, h) == z3.Or(z3.Select(ctx.old_has(db), h),
                                                   dict_at(rc.has, rc.val, h) > dict_at(ctx.old_has(rc), ctx.old_val(rc), h)),
                     dict_at(rc.has, rc.val, h) >= dict_at(ctx.old_has(rc), ctx.old_val(rc), h),
                     dict_at(pend.has, pend.val, h) >= dict_at(ctx.old_has(pend), ctx.old_val(pend), h))
    return z3.And(delta, tracked)


def pruning_trie(E):
    t = write_trie(E, pruning=True)
    t.fields["_pending_prune_keys"] = E.fresh_dict("pending", "bytes", "int", default=0)
    return t


def set_pruning_setup(E):
    t = pruning_trie(E)
    E.ghost["hex_value_slots"] = True
    D = z3.Const("node.D", HNode)
    E.assume(mk_bool(HM.hwfp(D)))
    HM.unfold_wf(E, D)
    node = HM.materialize(E, D)
    key = HM.nibs(E, "trie_key")
    value = E.fresh_seq("value", "bytes")
    E.assume(mk_bool(z3.Length(value.t) > 0))
    E.ghost["q0"] = HM.nibs(E, "q0").t
    E.ghost["D_old"] = D
    return {"self": t, "node": node, "trie_key": key, "value": value}


def set_pruning_cases(E, ctx):
    """_set on a pruning trie: the count clause only (view / canonical form are the clauses of the non-pruning unit;
    the code paths are the same)"""
    s = ctx.self
    db, rc, pend = s.fields["db"], s.fields["_ref_count"], s.fields["_pending_prune_keys"]
    Dold = E.ghost["D_old"]

    def ens(res):
        return [("count-delta", mk_bool(count_delta_clause(E, ctx, Dold, HM.alpha(res), rc, pend)))]
    mods = [db, rc, pend] + ([ctx.node] if isinstance(ctx.node, ListObj) else [])
    return [Case("updated", ensures=ens, modifies=mods),
            Case("missing-node", raises=KeyError, modifies=[pend])]


def _register_write(reg):
    g = "hexary_write"
    H = HEX + ":HexaryTrie."
    reg.add("hexary_prune", Contract(H + "_set#pruning", ["self", "node", "trie_key", "value"], set_pruning_cases,
                                     setup=set_pruning_setup, props=("C06", "C01"), callee=False, target=H + "_set"))
    reg.add(g, Contract(H + "_set", ["self", "node", "trie_key", "value"], set_cases, setup=set_setup,
                        requires=set_requires, props=("C01", "C02", "C04", "C07")))


# ---------------------------------------------------------------------------------------------------
# write path: _normalize_branch_node and _delete

def fresh_branch(E, base="node"):
    D = z3.Const(E.fresh_name(base + ".D"), HNode)
    E.assume(mk_bool(z3.And(HNode.is_HBranch(D), HM.hwf_children(E, D))))
    return HM.materialize(E, D), D


def nonblank_count(D):
    n = z3.If(z3.Length(HNode.bval(D)) > 0, 1, 0)
    for i in range(16):
        n = n + z3.If(HRef.is_RBlank(HM.child(D, i)), 0, 1)
    return n


def norm_setup(E):
    t = write_trie(E, pruning=False)
    node, D = fresh_branch(E)
    E.assume(mk_bool(nonblank_count(D) >= 1))
    q0 = HM.nibs(E, "q0")
    E.ghost["q0"] = q0.t
    E.ghost["D_old"] = D
    return {"self": t, "node": node}


def norm_requires(E, ctx):
    D = HM.alpha(ctx.node)
    return [("branch", mk_bool(HNode.is_HBranch(D))), ("something-left", mk_bool(nonblank_count(D) >= 1)),
            ("children-well-formed", mk_bool(HM.hwf_children(E, D)))]


def norm_cases(E, ctx):
    s = ctx.self
    db = s.fields["db"]
    node = ctx.node
    unit_mode = hasattr(ctx, "outcome")
    Dold = E.ghost["D_old"] if unit_mode else HM.alpha(node)
    cnt = nonblank_count(Dold)

    def ens(res):
        Dn = HM.alpha(res)
        q = E.ghost["q0"]
        HM.unfold_hlk(E, Dold, q, depth=1)
        HM.unfold_hlk(E, Dn, q, depth=2)
        from contracts import seqlemmas as SL
        for P in ([Dn.arg(0)] if HM.is_constructor(Dn) and Dn.decl().name() in ("HLeaf", "HExt") else []):
            P = z3.simplify(P)
            if z3.is_app(P) and P.decl().kind() == z3.Z3_OP_SEQ_CONCAT and P.num_args() == 2:
                a, b = P.arg(0), P.arg(1)
                SL.use(E, "prefix_concat", a, b, q)
                SL.use(E, "eq_concat", a, b, q)
                SL.use(E, "prefix_unit", a.arg(0), q) if (z3.is_app(a) and a.decl().kind() == z3.Z3_OP_SEQ_UNIT) else None
                SL.use(E, "tail_tail", q, z3.Length(a), z3.Length(b))
        HM.unfold_wf(E, Dn)
        return [("view-preserved", mk_bool(HM.hlk(Dn, q) == HM.hlk(Dold, q))),
                ("well-formed", mk_bool(HM.hwfp(Dn))), ("not-blank", mk_bool(z3.Not(HNode.is_HBlank(Dn))))]

    def make():
        Dn = z3.Const(E.fresh_name("norm.D"), HNode)
        E.assume(mk_bool(z3.And(HM.hwfp(Dn), z3.Not(HNode.is_HBlank(Dn)))))
        HM.unfold_wf(E, Dn)
        E.ghost.setdefault("hview_rules2", []).append((Dn, lambda Q: HM.hlk(Dn, Q) == HM.hlk(Dold, Q), Dold))
        return HM.materialize(E, Dn)
    pruning = s.fields.get("is_pruning") is True
    cmods = []
    if pruning and not unit_mode:
        rc_, pend_ = s.fields["_ref_count"], s.fields["_pending_prune_keys"]
        cmods = [pend_]
        make0 = make

        def make():
            r = make0()
            # count clause of _normalize_branch_node#pruning: the merged node refers to what the branch referred to,
            # minus the consumed child
            HM.unfold_hrefs(E, Dold, HG0)
            HM.unfold_hrefs(E, HM.alpha(r), HG0)
            E.assume(mk_bool(net_count(rc_, pend_, HG0) - net_count(rc_, pend_, HG0, ctx) ==
                             HM.hrefs(HM.alpha(r), HG0) - HM.hrefs(Dold, HG0)))
            E.assume(mk_bool(dict_at(pend_.has, pend_.val, HG0) >= dict_at(ctx.old_has(pend_), ctx.old_val(pend_), HG0)))
            return r
    return [Case("kept", when=mk_bool(cnt >= 2), returns=lambda: Is(node)),
            Case("collapsed", when=mk_bool(cnt == 1), ensures=ens if unit_mode else None, make=None if unit_mode else make,
                 modifies=cmods),
            Case("missing-node", when=mk_bool(cnt == 1), raises=KeyError, exc=lambda e: keyerror_clauses(e, ctx.old_has(db)),
                 make=None if unit_mode else (lambda: keyerror_make(E, ctx.old_has(db))))]


def norm_pruning_setup(E):
    t = pruning_trie(E)
    node, D = fresh_branch(E)
    E.assume(mk_bool(nonblank_count(D) >= 1))
    E.ghost["q0"] = HM.nibs(E, "q0").t
    E.ghost["D_old"] = D
    return {"self": t, "node": node}


def norm_pruning_cases(E, ctx):
    s = ctx.self
    rc, pend = s.fields["_ref_count"], s.fields["_pending_prune_keys"]
    Dold = E.ghost["D_old"]

    def ens(res):
        Dn = HM.alpha(res)
        HM.unfold_hrefs(E, Dold, HG0)
        HM.unfold_hrefs(E, Dn, HG0)
        return [("count-delta", mk_bool(net_count(rc, pend, HG0) - net_count(rc, pend, HG0, ctx) ==
                                        HM.hrefs(Dn, HG0) - HM.hrefs(Dold, HG0))),
                ("pending-only-grows", mk_bool(dict_at(pend.has, pend.val, HG0) >=
                                               dict_at(ctx.old_has(pend), ctx.old_val(pend), HG0)))]
    return [Case("normalised", ensures=ens, modifies=[pend]),
            Case("missing-node", raises=KeyError, modifies=[])]


def del_setup(E):
    t = write_trie(E, pruning=False)
    E.ghost["hex_value_slots"] = True
    D = z3.Const("node.D", HNode)
    E.assume(mk_bool(HM.hwfp(D)))
    HM.unfold_wf(E, D)
    node = HM.materialize(E, D)
    key = HM.nibs(E, "trie_key")
    q0 = HM.nibs(E, "q0")
    E.ghost["q0"] = q0.t
    E.ghost["D_old"] = D
    return {"self": t, "node": node, "trie_key": key}


def del_requires(E, ctx):
    from contracts.seqspec import allnib_of
    from contracts.nibbles_c import B2N
    D = HM.alpha(ctx.node)
    HM.unfold_wf(E, D)
    K = ops.seq_term_as(ctx.trie_key, "int")
    side = []
    ok = allnib_of(K, side, B2N)
    for f in side:
        E.assume(mk_bool(f))
    return [("node-well-formed", mk_bool(HM.hwfp(D))), ("key-is-nibbles", mk_bool(ok))]


def hview_after_del(Dold, K, q):
    return z3.If(q == K, z3.Empty(SeqI), HM.hlk(Dold, q))


def del_cases(E, ctx):
    s = ctx.self
    db = s.fields["db"]
    K = ops.seq_term_as(ctx.trie_key, "int")
    unit_mode = hasattr(ctx, "outcome")
    Dold = E.ghost["D_old"] if unit_mode else HM.alpha(ctx.node)

    def ens(res):
        Dn = HM.alpha(res)
        q = E.ghost["q0"]
        HM.unfold_hlk(E, Dold, q, depth=1)
        HM.unfold_hlk(E, Dn, q, depth=3)
        _key_pair_facts_hex(E, K, q, Dold)
        _merged_path_facts(E, Dn, q, K)
        HM.unfold_wf_deep(E, Dn)
        return [("view", mk_bool(HM.hlk(Dn, q) == hview_after_del(Dold, K, q))), ("well-formed", mk_bool(HM.hwfp(Dn)))]

    def make():
        Dn = z3.Const(E.fresh_name("_delete.D"), HNode)
        E.assume(mk_bool(HM.hwfp(Dn)))
        HM.unfold_wf(E, Dn)
        E.ghost.setdefault("hview_rules2", []).append((Dn, lambda Q: HM.hlk(Dn, Q) == hview_after_del(Dold, K, Q), Dold))
        if isinstance(ctx.node, ListObj):
            ctx.node.poison_len = len(ctx.node.items) if ctx.node.items is not None else None
            ctx.node.items = None
            ctx.node.seq = None
        return HM.materialize(E, Dn)
    mods = [db] + ([ctx.node] if (unit_mode and isinstance(ctx.node, ListObj)) else [])
    lmods = [ctx.node] if (unit_mode and isinstance(ctx.node, ListObj)) else []
    x = z3.Const("x!grow", SeqI)

    def post():
        return [("store-only-grows", mk_bool(z3.ForAll([x], z3.Implies(z3.Select(ctx.old_has(db), x), z3.And(
            z3.Select(db.has, x), z3.Select(db.val, x) == z3.Select(ctx.old_val(db), x))),
            patterns=[z3.Select(db.has, x), z3.Select(db.val, x)])))]
    # the result is blank exactly when the node was blank or was the leaf of the key (an extension sits over a branch
    # and a branch never collapses to nothing); in that case nothing is written at all -- which is what makes a later
    # failure of _normalize_branch_node in the caller happen before any write (C07: failed calls leave the store as
    # it was)
    emptied = z3.Or(HNode.is_HBlank(Dold), z3.And(HNode.is_HLeaf(Dold), HNode.lpath(Dold) == K))

    def make_emptied():
        E.ghost.setdefault("hview_rules2", []).append(
            (HNode.HBlank, lambda Q: HM.hlk(HNode.HBlank, Q) == hview_after_del(Dold, K, Q), Dold))
        return b""

    def ens_emptied(res):
        q = E.ghost["q0"]
        HM.unfold_hlk(E, Dold, q, depth=1)
        return [("blank", ops.py_eq(res, b"")), ("view", mk_bool(z3.Empty(SeqI) == hview_after_del(Dold, K, q)))]

    def ens_updated(res):
        return ens(res) + [("not-blank", mk_bool(z3.Not(HNode.is_HBlank(HM.alpha(res)))))]

    def make_updated():
        r = make()
        E.assume(mk_bool(z3.Not(HNode.is_HBlank(HM.alpha(r)))))
        return r
    pruning = s.fields.get("is_pruning") is True
    emods, mmods = [], lmods
    if pruning and not unit_mode:
        rc_, pend_ = s.fields["_ref_count"], s.fields["_pending_prune_keys"]
        mods = mods + [rc_, pend_]
        emods, mmods = [pend_], lmods + [pend_]          # a failing delete has counted nothing (C07): only marks
        me0, mu0 = make_emptied, make_updated

        def make_emptied():
            r = me0()
            E.assume(mk_bool(count_delta_clause(E, ctx, Dold, HNode.HBlank, rc_, pend_)))     # clause of _delete#pruning
            return r

        def make_updated():
            r = mu0()
            E.assume(mk_bool(count_delta_clause(E, ctx, Dold, HM.alpha(r), rc_, pend_)))
            return r
    return [Case("emptied", when=mk_bool(emptied), ensures=ens_emptied if unit_mode else None,
                 make=None if unit_mode else make_emptied, modifies=emods),
            Case("updated", when=mk_bool(z3.Not(emptied)), ensures=ens_updated if unit_mode else None,
                 make=None if unit_mode else make_updated, post=post, modifies=mods),
            Case("missing-node", when=mk_bool(z3.Not(emptied)), raises=KeyError, modifies=mmods,
                 exc=lambda e: keyerror_clauses(e, ctx.old_has(db)),
                 make=None if unit_mode else (lambda: keyerror_make(E, ctx.old_has(db))))]


def del_pruning_setup(E):
    t = pruning_trie(E)
    E.ghost["hex_value_slots"] = True
    D = z3.Const("node.D", HNode)
    E.assume(mk_bool(HM.hwfp(D)))
    HM.unfold_wf(E, D)
    node = HM.materialize(E, D)
    E.ghost["q0"] = HM.nibs(E, "q0").t
    E.ghost["D_old"] = D
    return {"self": t, "node": node, "trie_key": HM.nibs(E, "trie_key")}


def del_pruning_cases(E, ctx):
    s = ctx.self
    db, rc, pend = s.fields["db"], s.fields["_ref_count"], s.fields["_pending_prune_keys"]
    Dold = E.ghost["D_old"]

    def ens(res):
        return [("count-delta", mk_bool(count_delta_clause(E, ctx, Dold, HM.alpha(res), rc, pend)))]
    mods = [db, rc, pend] + ([ctx.node] if isinstance(ctx.node, ListObj) else [])
    fmods = [pend] + ([ctx.node] if isinstance(ctx.node, ListObj) else [])
    return [Case("updated", ensures=ens, modifies=mods),
            Case("missing-node", raises=KeyError, modifies=fmods)]


def _merged_path_facts(E, Dn, q, K):
    """a node whose path is a ++ b (an extension merged with what is left below it): walking it is walking a, then b"""
    from contracts import seqlemmas as SL
    Dn = z3.simplify(Dn)
    if not (HM.is_constructor(Dn) and Dn.decl().name() in ("HLeaf", "HExt")):
        return
    P = z3.simplify(Dn.arg(0))
    if z3.is_app(P) and P.decl().kind() == z3.Z3_OP_SEQ_CONCAT and P.num_args() == 2:
        a, b = P.arg(0), P.arg(1)
        for x in (q, K):
            SL.use(E, "prefix_concat", a, b, x)
            SL.use(E, "eq_concat", a, b, x)
            SL.use(E, "tail_tail", x, z3.Length(a), z3.Length(b))
            SL.use(E, "prefix_is_slice", a, x)
        SL.use(E, "eq_strip", a, K, q)
        SL.use(E, "prefix_strip", a, K, q)
        SL.use(E, "prefix_strip", a, q, K)


def _register_write2(reg):
    g = "hexary_write"
    H = HEX + ":HexaryTrie."
    reg.add(g, Contract(H + "_normalize_branch_node", ["self", "node"], norm_cases, setup=norm_setup,
                        requires=norm_requires, props=("C01", "C02", "C07")))
    reg.add("hexary_prune", Contract(H + "_normalize_branch_node#pruning", ["self", "node"], norm_pruning_cases,
                                     setup=norm_pruning_setup, props=("C06",), callee=False,
                                     target=H + "_normalize_branch_node"))
    reg.add("hexary_prune", Contract(H + "_delete#pruning", ["self", "node", "trie_key"], del_pruning_cases,
                                     setup=del_pruning_setup, props=("C06", "C01"), callee=False, target=H + "_delete"))
    reg.add(g, Contract(H + "_delete", ["self", "node", "trie_key"], del_cases, setup=del_setup,
                        requires=del_requires, props=("C01", "C02", "C04", "C07")))


# ---------------------------------------------------------------------------------------------------
# _set_root_node, set, delete (non-pruning trie; the pruning bookkeeping is the subject of C06)

def setroot_setup(E):
    t, node, D = wf_node_setup(E, pruning=False)
    return {"self": t, "root_node": node}


def setroot_cases(E, ctx):
    s = ctx.self
    db = s.fields["db"]
    D = HM.alpha(ctx.root_node)
    enc = z3.simplify(HM.rlpenc(D))
    blank = HNode.is_HBlank(D)
    BNH = HM.blank_node_hash(E)
    want = z3.If(blank, BNH, specfn.keccak(enc))
    x = z3.Const("x!grow", SeqI)

    def post():
        return [("root-hash-is-the-hash-of-the-root-node", ops.py_eq(s.fields["root_hash"], SSeq(want, "bytes"))),
                ("store-only-grows", mk_bool(z3.ForAll([x], z3.Implies(z3.Select(ctx.old_has(db), x), z3.And(
                    z3.Select(db.has, x), z3.Select(db.val, x) == z3.Select(ctx.old_val(db), x))),
                    patterns=[z3.Select(db.has, x), z3.Select(db.val, x)]))),
                ("root-available", mk_bool(z3.Or(blank, z3.Select(db.has, want))))]

    def make_post():
        # callee mode: the new root hash denotes the node that was passed
        if not hasattr(ctx, "outcome"):
            e = HM.x_encode_raw(E, ctx.root_node)
            E.keccak(e)
        return post()
    pruning = s.fields.get("is_pruning") is True
    mods = [db, (s, "root_hash")]
    if pruning and not hasattr(ctx, "outcome"):
        rc_, pend_ = s.fields["_ref_count"], s.fields["_pending_prune_keys"]
        mods = mods + [rc_, pend_]
        mp0 = make_post

        def make_post():
            out = mp0()
            for c in setroot_count_clauses(E, ctx, D, rc_, pend_):          # clauses of _set_root_node#pruning
                E.assume(c[1])
            return out
    return [Case("root-set", returns=lambda: None, post=make_post, modifies=mods)]


def setroot_count_clauses(E, ctx, D, rc, pend):
    """what _set_root_node does to the counts of a pruning trie, at the ghost hash: the new root is counted (it is
    always stored by hash), and an old root that was too small for _prune_node to notice is marked for pruning"""
    s = ctx.self
    db = s.fields["db"]
    g = HG0
    BNH = HM.blank_node_hash(E)
    old_root = HM.bytes_of(ctx.old_field(s, "root_hash"))
    Dold = HM.hnode_of_hash(old_root)
    enc_old, small_old = mk_ref_parts(E, Dold)
    enc = z3.simplify(HM.rlpenc(D))
    new_root = z3.If(HNode.is_HBlank(D), BNH, specfn.keccak(enc))
    marked = z3.And(old_root != BNH, z3.Select(ctx.old_has(db), old_root), small_old, old_root == g)
    return [("new-root-counted", mk_bool(dict_at(rc.has, rc.val, g) == dict_at(ctx.old_has(rc), ctx.old_val(rc), g) +
                                         z3.If(z3.And(z3.Not(HNode.is_HBlank(D)), new_root == g), 1, 0))),
            ("small-old-root-marked", mk_bool(dict_at(pend.has, pend.val, g) ==
                                              dict_at(ctx.old_has(pend), ctx.old_val(pend), g) + z3.If(marked, 1, 0))),
            ("store-tracked", mk_bool(z3.Select(db.has, g) == z3.Or(z3.Select(ctx.old_has(db), g),
                                                                     z3.And(z3.Not(HNode.is_HBlank(D)), new_root == g))))]


def setroot_pruning_setup(E):
    t = pruning_trie(E)
    D = z3.Const(E.fresh_name("n.D"), HNode)
    E.assume(mk_bool(HM.hwfp(D)))
    HM.unfold_wf(E, D)
    node = HM.materialize(E, D)
    return {"self": t, "root_node": node}


def setroot_pruning_cases(E, ctx):
    s = ctx.self
    db, rc, pend = s.fields["db"], s.fields["_ref_count"], s.fields["_pending_prune_keys"]
    D = HM.alpha(ctx.root_node)

    def post():
        return setroot_count_clauses(E, ctx, D, rc, pend)
    return [Case("root-set", returns=lambda: None, post=post, modifies=[db, rc, pend, (s, "root_hash")])]


def setroot_requires(E, ctx):
    D = HM.alpha(ctx.root_node)
    HM.unfold_wf(E, D)
    return [("well-formed", mk_bool(HM.hwfp(D)))]


def api_write_setup(with_value):
    def setup(E):
        t = write_trie(E, pruning=False)
        E.ghost["hex_value_slots"] = True
        args = {"self": t, "key": E.fresh_seq("key", "bytes")}
        if with_value:
            args["value"] = E.fresh_seq("value", "bytes")
        q0 = HM.nibs(E, "q0")
        E.ghost["q0"] = q0.t
        return args
    return setup


def api_write_cases(kind):
    def cases(E, ctx):
        from contracts.nibbles_c import B2N
        s = ctx.self
        db = s.fields["db"]
        old_root = HM.bytes_of(ctx.old_field(s, "root_hash"))
        Dold = node_of_root(E, old_root)
        K = B2N(ops.seq_term_as(ctx.key, "int"))
        V = HM.bytes_of(ctx.value) if kind == "set" else z3.Empty(SeqI)

        def post_ok():
            new_root = HM.bytes_of(s.fields["root_hash"])
            Dnew = node_of_root(E, new_root)
            q = E.ghost["q0"]
            for (Dres, fn, Dsrc) in E.ghost.get("hview_rules2", []):
                E.assume(mk_bool(fn(q)))
            return [("view", mk_bool(HM.hlk(Dnew, q) == z3.If(q == K, V, HM.hlk(Dold, q))))]
        root_t = old_root

        def exc(e):
            if len(e.args) < 4:
                return [("exception-carries-hash-root-key-prefix", False)]
            try:
                h = HM.bytes_of(e.args[0])
            except Unsupported:
                return [("exception-carries-hash-root-key-prefix", False)]
            out = [("hash-is-absent", mk_bool(z3.Not(z3.Select(ctx.old_has(db), h)))),
                   ("names-the-root", ops.py_eq(e.args[1], SSeq(root_t, "bytes"))),
                   ("names-the-key", ops.py_eq(e.args[2], ctx.key))]
            if kind == "set":
                # a failing insertion names the root itself or a node on the key's path (a deletion may also need
                # the sibling that a collapsing branch is merged with: not stated here)
                HM.unfold_hneed(E, Dold, K, h)
                out.append(("missing-node-is-on-the-key-s-path",
                            mk_bool(z3.Implies(z3.Length(V) > 0, z3.Or(h == root_t, HM.hneed(Dold, K, h))))))
            return out

        def make_exc():
            e = ExcObj(objs.exc(E, "MissingTrieNode"), (objs.hash32(E, "missing"), SSeq(root_t, "bytes"), ctx.key, None))
            for (_n, c) in exc(e):
                E.assume(c)
            return e
        # C07: a failed set / delete leaves root and database exactly as they were (modifies nothing)
        return [Case("updated", returns=lambda: None, post=post_ok, modifies=[db, (s, "root_hash")]),
                Case("missing-node", raises=objs.exc(E, "MissingTrieNode"), modifies=[], exc=exc,
                     make=None if hasattr(ctx, "outcome") else make_exc)]
    return cases


# set / delete on a pruning trie (C06): exactness is preserved.  Invariant of a pruning trie that started on an empty
# database, stated at an arbitrary hash g:   count(g) = RC(root, g)   and   g is stored  <=>  count(g) >= 1
# with RC(root, g) = [root = g] + hrefs(node(root), g)  (0 for the blank root).

def RC(E, root, g):
    return z3.If(root == HM.blank_node_hash(E), 0, z3.If(root == g, 1, 0) + HM.hrefs(HM.hnode_of_hash(root), g))


def exact_at(E, db_has, rc_has, rc_val, root, g):
    c = dict_at(rc_has, rc_val, g)
    return z3.And(c == RC(E, root, g), z3.Select(db_has, g) == (c >= 1))


def api_pruning_setup(with_value):
    def setup(E):
        t = write_trie(E, pruning=True)                 # outside of any set / delete: no pending prunes
        E.ghost["hex_value_slots"] = True
        db, rc = t.fields["db"], t.fields["_ref_count"]
        root = t.fields["root_hash"].t
        for g in (HG0, root):                           # the invariant, at the ghost hash and at the root itself
            E.assume(mk_bool(exact_at(E, db.has, rc.has, rc.val, root, g)))
            HM.unfold_hrefs(E, HM.hnode_of_hash(root), g)
        args = {"self": t, "key": E.fresh_seq("key", "bytes")}
        if with_value:
            args["value"] = E.fresh_seq("value", "bytes")
        E.ghost["q0"] = HM.nibs(E, "q0").t
        return args
    return setup


def api_pruning_cases(E, ctx):
    s = ctx.self
    db, rc = s.fields["db"], s.fields["_ref_count"]

    def post():
        new_root = HM.bytes_of(s.fields["root_hash"])
        HM.unfold_hrefs(E, HM.hnode_of_hash(new_root), HG0)
        return [("counts-and-store-stay-exact", mk_bool(exact_at(E, db.has, rc.has, rc.val, new_root, HG0))),
                ("no-pending-prunes-left", s.fields["_pending_prune_keys"] is None)]

    def post_failed():
        return [("no-pending-prunes-left", s.fields["_pending_prune_keys"] is None)]
    return [Case("updated", returns=lambda: None, post=post, modifies=[db, rc, (s, "root_hash")]),
            Case("missing-node", raises=objs.exc(E, "MissingTrieNode"), post=post_failed, modifies=[]),
            Case("node-to-prune-is-missing", raises=objs.exc(E, "ValidationError"), modifies=[db, rc, (s, "root_hash")])]


def init_pruning_setup(E):
    o = Obj(objs.cls_of(E, "trie.hexary", "HexaryTrie"), {})
    db = E.fresh_dict("db", "bytes", "bytes")
    x = z3.Const("x!empty", SeqI)
    E.assume(mk_bool(z3.ForAll([x], z3.Not(z3.Select(db.has, x)))))        # started on an empty database
    BNH = E.loader.load("trie.constants").ns["BLANK_NODE_HASH"]
    return {"self": o, "db": db, "root_hash": BNH, "prune": True, "ref_count": None}


def init_pruning_cases(E, ctx):
    s = ctx.self

    def post():
        f = s.fields
        try:
            rc, db = f["_ref_count"], f["db"]
            E.dict_type(rc, b"", 0)
            root = HM.bytes_of(f["root_hash"])
            return [("exact-from-the-start", mk_bool(exact_at(E, db.has, rc.has, rc.val, root, HG0))),
                    ("pruning", f["is_pruning"] is True), ("no-pending-prunes", f["_pending_prune_keys"] is None),
                    ("same-database", db is ctx.db)]
        except (KeyError, Unsupported) as e:
            return [("object-initialised (%r)" % (e,), False)]
    return [Case("fresh-pruning-trie", returns=lambda: None, post=post, modifies=[s])]


def _register_api_write(reg):
    H = HEX + ":HexaryTrie."
    reg.add("hexary_prune", Contract(H + "__init__#pruning-on-empty-db", ["self", "db", "root_hash", "prune", "ref_count"],
                                     init_pruning_cases, setup=init_pruning_setup, props=("C06",), callee=False,
                                     target=H + "__init__"))
    reg.add("hexary_prune", Contract(H + "set#pruning", ["self", "key", "value"], api_pruning_cases,
                                     setup=api_pruning_setup(True), props=("C06", "C01", "C07"), callee=False, target=H + "set"))
    reg.add("hexary_prune", Contract(H + "delete#pruning", ["self", "key"], api_pruning_cases,
                                     setup=api_pruning_setup(False), props=("C06", "C01", "C07"), callee=False,
                                     target=H + "delete"))
    reg.add("hexary_store", Contract(H + "_set_root_node", ["self", "root_node"], setroot_cases, setup=setroot_setup,
                                     requires=setroot_requires, props=("C01", "C02", "C04")))
    reg.add("hexary_prune", Contract(H + "_set_root_node#pruning", ["self", "root_node"], setroot_pruning_cases,
                                     setup=setroot_pruning_setup, props=("C06",), callee=False,
                                     target=H + "_set_root_node"))
    g = "hexary_api"
    reg.add(g, Contract(H + "set", ["self", "key", "value"], api_write_cases("set"), setup=api_write_setup(True),
                        props=("C01", "C02", "C04", "C07")))
    reg.add(g, Contract(H + "delete", ["self", "key"], api_write_cases("delete"), setup=api_write_setup(False),
                        props=("C01", "C02", "C04", "C07")))
    reg.add(g, Contract(H + "__setitem__", ["self", "key", "value"], api_write_cases("set"), setup=api_write_setup(True),
                        props=("C01", "C02", "C04", "C07")))
    reg.add(g, Contract(H + "__delitem__", ["self", "key"], api_write_cases("delete"), setup=api_write_setup(False),
                        props=("C01", "C02", "C04", "C07")))


# ---------------------------------------------------------------------------------------------------
# squash_changes (C05): the `with` block is client code -- an arbitrary sequence of operations on the batch trie

class ClientAbort(Exception):
    """stands for an arbitrary exception raised by the client block"""


def squash_setup(E):
    t = HM.mk_trie(E)                       # pruning or not: both are explored
    E.ghost["db_write_faults"] = True
    return {"self": t}


def squash_body_model(E, ctx, fn, argv):
    from pyvc.modules import Wrapped
    base = fn
    while isinstance(base, Wrapped):
        base = base.func
    ghost = E.ghost

    def client(batch):
        # whatever the client does with the batch trie, it can only change the batch trie's own state: its root, its
        # reference counts, the buffer of its scratch database
        ghost["batch"] = batch
        ghost["batch_rc_is_outer"] = (batch.fields.get("_ref_count") is ctx.self.fields.get("_ref_count")
                                      and batch.fields.get("_ref_count") is not None)
        batch.fields["root_hash"] = objs.hash32(E, "batch_root")
        rc = batch.fields.get("_ref_count")
        if rc is not None:
            E.havoc_obj(rc)
        sdb = batch.fields["db"]
        cache = sdb.fields["cache"]
        if cache.has is None:
            E.dict_type(cache, E.fresh_seq("k0", "bytes"), E.fresh_py("v0"))
        E.havoc_obj(cache)
        ghost["batch_root"] = batch.fields["root_hash"]
        ghost["batch_rc_state"] = (rc.has, rc.val) if rc is not None else None
        if E.nondet(2) == 1:
            ghost["aborted"] = ExcObj(ClientAbort, ())
            raise PyRaise(ghost["aborted"])
        ghost["aborted"] = None
        return None
    E.depth = 0
    return E.call_func(base, argv, {}, yield_cb=client)


def squash_cases(E, ctx):
    s = ctx.self
    db = s.fields["db"]
    ghost = E.ghost
    aborted = ghost.get("aborted")
    failed = ghost.get("commit_failed")
    pruning = s.fields["is_pruning"] is True
    rc_outer_old = ctx.old_field(s, "_ref_count")

    def post_commit():
        out = [("root-is-the-batch-root", ops.py_eq(s.fields["root_hash"], ghost["batch_root"]))]
        if pruning:
            rc = s.fields["_ref_count"]
            st = ghost["batch_rc_state"]
            out.append(("counts-are-the-batch-counts", bool(st is not None and rc is ghost["batch"].fields["_ref_count"]
                                                            and rc.has is st[0] and rc.val is st[1])))
        return out
    if aborted is not None:
        # nothing of the outer trie changes (frame obligations): root, database, reference counts
        return [Case("aborted", raises=ClientAbort, exc=lambda e: [("same-exception", e is aborted)], modifies=[])]
    if failed:
        mods = [db]
        return [Case("commit-failed", raises=OSError, modifies=mods,
                     post=lambda: [("a-pruning-trie-may-have-lost-deleted-nodes-only", True)])]
    mods = [db, (s, "root_hash")] + ([(s, "_ref_count")] if pruning else [])
    return [Case("committed", returns=lambda: NOTHING, post=post_commit, modifies=mods)]


def _register_squash(reg):
    H = HEX + ":HexaryTrie."
    reg.add("hexary_squash", Contract(H + "squash_changes", ["self"], squash_cases, setup=squash_setup,
                                      body_model=squash_body_model, props=("C05", "C04", "C06"),
                                      inline={"trie.utils.db:ScratchDB.__init__"}))


# ---------------------------------------------------------------------------------------------------
# _complete_pruning (C06): apply the pending prunes -- a loop over a dictionary

def cp_setup(E):
    t = HM.mk_trie(E, pruning=True)
    t.fields["db"].hooks = None          # this unit only deletes; the content-addressing hooks concern writes
    pend = E.fresh_dict("pending", "bytes", "int", default=0)
    t.fields["_pending_prune_keys"] = pend
    E.ghost["cp0"] = (t.fields["db"].has, t.fields["db"].val, t.fields["_ref_count"].has, t.fields["_ref_count"].val)
    return {"self": t}


def _cp_state(dbh, dbv, rch, rcv, db0h, db0v, rc0h, rc0v, ph, pv, done, k):
    """at key k: processed keys have their count lowered (entry and node dropped when it reaches zero), the others
    are untouched"""
    old = z3.If(z3.Select(rc0h, k), z3.Select(rc0v, k), 0)
    c = old - z3.Select(pv, k)
    proc = z3.Select(done, k)
    return z3.And(
        z3.Implies(z3.And(proc, c <= 0), z3.And(z3.Not(z3.Select(dbh, k)), z3.Not(z3.Select(rch, k)))),
        z3.Implies(z3.And(proc, c > 0), z3.And(z3.Select(rch, k), z3.Select(rcv, k) == c,
                                               z3.Select(dbh, k) == z3.Select(db0h, k), z3.Select(dbv, k) == z3.Select(db0v, k))),
        z3.Implies(z3.Not(proc), z3.And(z3.Select(dbh, k) == z3.Select(db0h, k), z3.Select(dbv, k) == z3.Select(db0v, k),
                                         z3.Or(z3.And(z3.Select(rch, k) == z3.Select(rc0h, k),
                                                      z3.Implies(z3.Select(rc0h, k), z3.Select(rcv, k) == z3.Select(rc0v, k))),
                                               False))))


def cp_inv(E, fr, done):
    s = fr.locals["self"]
    db, rc, pend = s.fields["db"], s.fields["_ref_count"], s.fields["_pending_prune_keys"]
    db0h, db0v, rc0h, rc0v = E.ghost["cp0"]
    k = z3.Const("k!cpinv", SeqI)
    body = _cp_state(db.has, db.val, rc.has, rc.val, db0h, db0v, rc0h, rc0v, pend.has, pend.val, done, k)
    return [("per-key-state", mk_bool(z3.ForAll([k], body)))]


def cp_cases(E, ctx):
    s = ctx.self
    db, rc, pend = s.fields["db"], s.fields["_ref_count"], s.fields["_pending_prune_keys"]
    unit_mode = hasattr(ctx, "outcome")
    if unit_mode:
        db0h, db0v, rc0h, rc0v = E.ghost["cp0"]
    else:
        db0h, db0v, rc0h, rc0v = ctx.old_has(db), ctx.old_val(db), ctx.old_has(rc), ctx.old_val(rc)
        E.dict_type(pend, b"", 0)
    k = z3.Const("k!cppost", SeqI)

    def post():
        body = _cp_state(db.has, db.val, rc.has, rc.val, db0h, db0v, rc0h, rc0v, pend.has, pend.val, pend.has, k)
        if not unit_mode:
            # the per-key state at the ghost hash of the count clauses (instance of the quantified postcondition)
            E.assume(mk_bool(_cp_state(db.has, db.val, rc.has, rc.val, db0h, db0v, rc0h, rc0v, pend.has, pend.val,
                                       pend.has, HG0)))
        return [("every-pending-prune-applied-exactly", mk_bool(z3.ForAll([k], body)))]
    return [Case("pruned", returns=lambda: None, post=post, modifies=[db, rc]),
            Case("node-to-prune-is-missing", raises=objs.exc(E, "ValidationError"), modifies=[db, rc])]


def _register_prune(reg):
    H = HEX + ":HexaryTrie."
    reg.add("hexary_prune", Contract(H + "_complete_pruning", ["self"], cp_cases, setup=cp_setup, props=("C06", "C04"),
                                     loops={0: LoopSpec(cp_inv, havoc=lambda fr: [fr.locals["self"].fields["db"],
                                                                                  fr.locals["self"].fields["_ref_count"]],
                                                        fresh={"new_count": "unbound", "exc": "unbound"})}))


# ---------------------------------------------------------------------------------------------------
# get_from_proof (C03, soundness): whatever list of well-formed nodes is offered as a proof, the call either returns
# the value the root denotes for the key or raises BadTrieProof.  (C03, the consumer's half of completeness): it raises
# BadTrieProof only while handling a MissingTrieNode whose hash is *not* the hash of any offered node (arbitrary ghost
# position gj!proof of the proof) and which sits on the key's path below the claimed root (view equation for an
# arbitrary continuation) -- so a proof that holds every hashed node of the key's path is accepted.

PN = z3.Function("proof_node", z3.IntSort(), HNode)          # the i-th offered node, in the datatype view
GJP = z3.Int("gj!proof")                                     # ghost: an arbitrary position of the proof


def offered_hash(j):
    return specfn.keccak(z3.simplify(HM.rlpenc(PN(j))))


class ProofNodes:
    """an arbitrary finite sequence of well-formed raw nodes (the `proof` argument): each iteration of the loop over
    it meets an arbitrary well-formed node"""

    def __init__(self, E):
        self.n = E.fresh_int("len(proof)")
        E.assume(mk_bool(self.n.t >= 0))

    def py_iter_len(self, E):
        return self.n

    def py_iter_elem(self, E, i):
        D = PN(as_int_term(i))
        E.assume(mk_bool(z3.And(HM.hwfp(D), z3.Not(HNode.is_HBlank(D)))))
        HM.unfold_wf(E, D)
        return HM.materialize(E, D)

    def py_truth(self):
        return mk_bool(self.n.t > 0)


def gfp_setup(E):
    E.ghost["hex_model"] = True
    E.ghost["ks"] = HM.nibs(E, "ks").t      # ghost continuation of the key (the missing node is on the key's path)
    return {"cls": objs.cls_of(E, "trie.hexary", "HexaryTrie"), "root_hash": objs.hash32(E, "root_hash"),
            "key": E.fresh_seq("key", "bytes"), "proof": ProofNodes(E)}


def gfp_cases(E, ctx):
    from contracts.nibbles_c import B2N
    root = HM.bytes_of(ctx.root_hash)
    K = B2N(ops.seq_term_as(ctx.key, "int"))
    D0 = node_of_root(E, root)
    want = HM.hlk(D0, K)
    n = as_int_term(ctx.proof.n)
    ks = E.ghost["ks"]

    def withheld(e):
        m = getattr(e, "context", None)
        if not (isinstance(m, ExcObj) and m.cls is objs.exc(E, "MissingTrieNode") and len(m.args) >= 4):
            return [("raised-while-handling-a-MissingTrieNode", False)]
        h = HM.bytes_of(m.args[0])
        used = ops.seq_term_as(m.args[3], "int")
        rest = z3.Concat(HM.tail(K, z3.Length(used)), ks)
        return [("raised-while-handling-a-MissingTrieNode", True),
                ("no-offered-node-is-the-missing-one",
                 mk_bool(z3.Implies(z3.And(GJP >= 0, GJP < n), offered_hash(GJP) != h))),
                ("the-missing-node-is-on-the-key's-path",
                 mk_bool(HM.hlk(D0, z3.Concat(K, ks)) == HM.hlk(HM.hnode_of_hash(h), rest))),
                ("the-missing-node-is-the-root-or-dereferenced-by-the-key's-walk",
                 mk_bool(need_cond(E, D0, K, root, h)))]
    return [Case("proven-value", returns=lambda: SSeq(want, "bytes")),
            Case("bad-proof", raises=objs.exc(E, "BadTrieProof"), exc=withheld)]


def gfp_inv(E, fr, i):
    trie = fr.locals["trie"]
    db = trie.fields["db"]
    E.dict_type(db, b"", b"")
    out = []
    if db.hooks is None:
        # the scratch database was created by the function itself (`cls({})`): from here on it is under the store
        # invariant of the hexary trie (every write is checked to be content addressed); it is empty at this point
        x = z3.Const("x!empty", SeqI)
        out.append(("scratch-database-starts-empty", mk_bool(z3.ForAll([x], z3.Not(z3.Select(db.has, x))))))
        db.hooks = HM.HexDbInvariant()
    it = as_int_term(i)
    return out + [("scratch-trie-does-not-prune", trie.fields.get("is_pruning") is False),
                  ("offered-nodes-so-far-are-in-the-scratch-database",
                   mk_bool(z3.Implies(z3.And(GJP >= 0, GJP < it), z3.Select(db.has, offered_hash(GJP)))))]


def _register_proof(reg):
    H = HEX + ":HexaryTrie."
    reg.add("hexary_proof", Contract(H + "get_from_proof", ["cls", "root_hash", "key", "proof"], gfp_cases,
                                     setup=gfp_setup, props=("C03",), callee=False,
                                     loops={0: LoopSpec(gfp_inv, havoc=lambda fr: [fr.locals["trie"].fields["db"]],
                                                        fresh={"node": "unbound"})}))


# ---------------------------------------------------------------------------------------------------
# at_root (C04): a snapshot of a non-pruning trie reads the same database at the requested root, never prunes, and
# taking it leaves the trie as it was

def at_root_setup(E):
    return {"self": HM.mk_trie(E, pruning=False), "at_root_hash": objs.hash32(E, "at_root_hash")}


def at_root_body(E, ctx, fn, argv):
    from pyvc.modules import Wrapped
    base = fn
    while isinstance(base, Wrapped):
        base = base.func

    def capture(y):
        E.ghost["snapshot"] = y
    return E.call_func(base, argv, {}, yield_cb=capture)


def at_root_cases(E, ctx):
    def post():
        snap = E.ghost.get("snapshot")
        if not isinstance(snap, Obj):
            return [("yields-a-snapshot-trie", False)]
        f = snap.fields
        return [("a-different-object", snap is not ctx.self),
                ("same-database", f.get("db") is ctx.self.fields["db"]),
                ("at-the-requested-root", ops.py_eq(f.get("root_hash"), ctx.at_root_hash)),
                ("never-prunes", f.get("is_pruning") is False and f.get("_ref_count") is None)]
    return [Case("snapshot", returns=lambda: None, post=post, modifies=[])]


def _register_at_root(reg):
    H = HEX + ":HexaryTrie."
    reg.add("hexary_api", Contract(H + "at_root", ["self", "at_root_hash"], at_root_cases, setup=at_root_setup,
                                   props=("C04",), callee=False, body_model=at_root_body))


# ---------------------------------------------------------------------------------------------------
# get_proof / _get_proof (C03, the producer's half): the proof holds every hashed node a walk of the key dereferences
# (`hneed`, the structural notion the write path's failure reports use) together with the root node, and *exactly* the
# nodes on the key's path (`onpath`, node-valued; embedded nodes included) -- nothing else.
#
# The proof tuple is a tuple of raw node lists of unknown length; the engine value for it is a `ProofTuple` object
# that carries two ghost sets: the hashes keccak(rlp(n)) of its members and the members themselves in the datatype
# view.  `t + (node,)` adds one member to both.

class _ProofTupleCls:
    name = "ProofTuple"

    def lookup(self, name):
        if name == "__add__":
            return I_Builtin("ProofTuple.__add__", pt_add)
        return None

    def mro(self):
        return [self]

    def is_exception(self):
        return False


def I_Builtin(name, fn):
    from pyvc.interp import Builtin
    return Builtin(name, fn)


PT = _ProofTupleCls()
HSet = z3.ArraySort(SeqI, z3.BoolSort())
NSet = z3.ArraySort(HNode, z3.BoolSort())
GH = z3.Const("h!proof", SeqI)            # ghost: an arbitrary node hash
GX = z3.Const("x!proofnode", HNode)       # ghost: an arbitrary node


def node_hash(D):
    return specfn.keccak(z3.simplify(HM.rlpenc(D)))


def mk_pt(E, memH=None, memN=None, base="proof"):
    o = Obj(PT, {})
    o.memH = memH if memH is not None else z3.Const(E.fresh_name(base + ".hashes"), HSet)
    o.memN = memN if memN is not None else z3.Const(E.fresh_name(base + ".nodes"), NSet)
    return o


def pt_of(v):
    """(hash set, node set) of a proof tuple value: a ProofTuple object or the concrete empty tuple"""
    if isinstance(v, Obj) and v.cls is PT:
        return v.memH, v.memN
    if isinstance(v, tuple) and len(v) == 0:
        return z3.K(SeqI, z3.BoolVal(False)), z3.K(HNode, z3.BoolVal(False))
    raise Unsupported("proof tuple %r" % (v,))


def pt_add(E, a, b):
    if not isinstance(b, tuple):
        raise Unsupported("ProofTuple + %r" % (b,))
    mh, mn = pt_of(a)
    for x in b:
        D = HM.alpha(x)
        mh = z3.Store(mh, node_hash(D), z3.BoolVal(True))
        mn = z3.Store(mn, D, z3.BoolVal(True))
    return mk_pt(E, mh, mn)


onpath = z3.Function("onpath", HNode, SeqI, HNode, z3.BoolSort())   # X is a node the walk of key k below D passes


def unfold_onpath(E, D, k, X):
    """definitional step of onpath at (D, k): the node itself (unless blank); below an extension whose path the key
    runs through and below a branch (key not exhausted) the nodes on the rest of the path"""
    D, k = z3.simplify(D), z3.simplify(k)
    ep = HNode.epath(D)
    kt = HM.tail(k, 1)
    br = z3.BoolVal(False)
    for i in reversed(range(16)):
        br = z3.If(k[0] == i, onpath(HM.deref(E, HM.child(D, i)), kt, X), br)
    below = z3.If(HNode.is_HExt(D), z3.And(z3.PrefixOf(ep, k), onpath(HM.deref(E, HNode.echild(D)), HM.tail(k, z3.Length(ep)), X)),
                  z3.If(HNode.is_HBranch(D), z3.And(z3.Length(k) > 0, br), z3.BoolVal(False)))
    E.assume(mk_bool(onpath(D, k, X) == z3.And(z3.Not(HNode.is_HBlank(D)), z3.Or(X == D, below))))
    E.assume(mk_bool(z3.Not(onpath(HNode.HBlank, kt, X))))
    E.assume(mk_bool(z3.Not(onpath(HNode.HBlank, HM.tail(k, z3.Length(ep)), X))))
    for (Dr, jr, chain) in E.ghost.get("sym_reads", []):
        if Dr.eq(D):
            E.assume(mk_bool(z3.Implies(z3.And(z3.Length(k) > 0, k[0] == jr),
                                        onpath(D, k, X) == z3.Or(X == D, onpath(HM.deref(E, chain), kt, X)))))


def gp_setup(E):
    t = read_trie(E)
    D = z3.Const("node0.D", HNode)
    E.assume(mk_bool(HM.hwfp(D)))
    HM.unfold_wf(E, D)
    node = HM.materialize(E, D)
    key = HM.nibs(E, "trie_key")
    pl = E.fresh_int("proven_len")
    E.assume(mk_bool(z3.And(pl.t >= 0, pl.t <= z3.Length(key.t))))
    return {"self": t, "node": node, "trie_key": key, "proven_len": pl, "last_proof": mk_pt(E, base="last_proof")}


def gp_requires(E, ctx):
    D = HM.alpha(ctx.node)
    K = ops.seq_term_as(ctx.trie_key, "int")
    pl = as_int_term(ctx.proven_len)
    return [("node-blank-or-well-formed", mk_bool(z3.Or(HNode.is_HBlank(D), HM.hwfp(D)))),
            ("proven-length-within-the-key", mk_bool(z3.And(pl >= 0, pl <= z3.Length(K))))]


def gp_clauses(E, D, k, H0, N0, r):
    if not (isinstance(r, Obj) and r.cls is PT):
        return [("returns-a-proof-tuple", False)]
    return [("every-hashed-node-the-walk-needs-and-the-node-itself-are-in-the-proof",
             mk_bool(z3.Implies(z3.Or(z3.Select(H0, GH), z3.And(z3.Not(HNode.is_HBlank(D)), node_hash(D) == GH),
                                      HM.hneed(D, k, GH)), z3.Select(r.memH, GH)))),
            ("exactly-the-nodes-on-the-key's-path-are-added",
             mk_bool(z3.Select(r.memN, GX) == z3.Or(z3.Select(N0, GX), onpath(D, k, GX))))]


def gp_cases(E, ctx):
    from contracts import seqlemmas as SL
    D = HM.alpha(ctx.node)
    K = ops.seq_term_as(ctx.trie_key, "int")
    pl = as_int_term(ctx.proven_len)
    k = HM.tail(K, pl)
    H0, N0 = pt_of(ctx.last_proof)
    unit_mode = hasattr(ctx, "outcome")
    db = ctx.self.fields["db"]

    def ens(r):
        HM.unfold_wf(E, D)
        HM.unfold_hneed(E, D, k, GH)
        unfold_onpath(E, D, k, GX)
        SL.use(E, "tail_tail", K, pl, z3.Length(HNode.epath(D)))
        SL.use(E, "tail_tail", K, pl, z3.IntVal(1))
        return gp_clauses(E, D, k, H0, N0, r)

    def make():
        r = mk_pt(E, base="proof")
        for (_n, c) in gp_clauses(E, D, k, H0, N0, r):
            E.assume(c)
        return r
    def missing_key_error():
        h = objs.hash32(E, "missing")
        E.assume(mk_bool(z3.Not(z3.Select(ctx.old_has(db), HM.bytes_of(h)))))
        return ExcObj(KeyError, (h,))
    return [Case("proof", ensures=ens if unit_mode else None, make=None if unit_mode else make, modifies=[]),
            # a node of the path is not in the database: get_node's KeyError passes through unchanged
            Case("missing-node", raises=KeyError, modifies=[],
                 exc=lambda e: [("hash-is-absent", mk_bool(z3.Not(z3.Select(ctx.old_has(db), HM.bytes_of(e.args[0])))) if e.args else False)],
                 make=None if unit_mode else missing_key_error)]


def gproof_cases(E, ctx):
    from contracts.nibbles_c import B2N
    root = HM.bytes_of(ctx.old_field(ctx.self, "root_hash"))
    D0 = node_of_root(E, root)
    K = B2N(ops.seq_term_as(ctx.key, "int"))
    empty_h, empty_n = pt_of(())
    db = ctx.self.fields["db"]

    def ens(r):
        if isinstance(r, tuple) and len(r) == 0:
            r = mk_pt(E, empty_h, empty_n)
        HM.unfold_hneed(E, D0, K, GH)
        unfold_onpath(E, D0, K, GX)
        out = gp_clauses(E, D0, K, empty_h, empty_n, r)
        if len(out) == 2:
            out.append(("the-root-node-is-in-the-proof-unless-the-trie-is-empty",
                        mk_bool(z3.Implies(z3.And(root == GH, root != HM.blank_node_hash(E)), z3.Select(r.memH, GH)))))
        return out
    return [Case("proof", ensures=ens, modifies=[]),
            Case("missing-node", raises=KeyError, modifies=[],
                 exc=lambda e: [("hash-is-absent", mk_bool(z3.Not(z3.Select(ctx.old_has(db), HM.bytes_of(e.args[0])))) if e.args else False)])]


def _register_get_proof(reg):
    H = HEX + ":HexaryTrie."
    reg.add("hexary_proof", Contract(H + "_get_proof", ["self", "node", "trie_key", "proven_len", "last_proof"], gp_cases,
                                     setup=gp_setup, requires=gp_requires, props=("C03",)))
    reg.add("hexary_proof", Contract(H + "get_proof", ["self", "key"], gproof_cases,
                                     setup=lambda E: root_ref_setup(E, True), props=("C03",), callee=False))


# ---------------------------------------------------------------------------------------------------
# C03, completeness as a consequence of the two contracts: if the tuple offered to get_from_proof is the one get_proof
# returned (on a trie that holds its nodes), the `bad-proof` case of get_from_proof cannot occur, so the call returns
# hlk(root, key) = get(key).  Hypotheses are the *clauses of the two contracts*, built by the same functions the units
# prove them with (gp_clauses / need_cond / offered_hash), closed over their ghost constants (each was proved for an
# arbitrary value of its ghost), plus the meaning of the proof tuple's ghost hash set: a hash is in it only if some
# offered node has that hash.

def proof_composition_lemma(E):
    E.ghost["hex_model"] = True
    root = z3.Const("root", SeqI)
    K = z3.Const("K", SeqI)
    n = z3.Int("len(proof)")
    D0 = node_of_root(E, root)
    r = mk_pt(E, base="proof")
    empty_h, empty_n = pt_of(())
    j = z3.Int("j")
    # producer (get_proof / proof): both hash-level clauses, for every hash
    prod = [c for (name, c) in gp_clauses(E, D0, K, empty_h, empty_n, r)[:1]]
    prod.append(mk_bool(z3.Implies(z3.And(root == GH, root != HM.blank_node_hash(E)), z3.Select(r.memH, GH))))
    for c in prod:
        E.assume(mk_bool(z3.ForAll([GH], c.t)))
    # the offered tuple is that proof
    E.assume(mk_bool(z3.ForAll([GH], z3.Implies(z3.Select(r.memH, GH),
                                                 z3.Exists([j], z3.And(j >= 0, j < n, offered_hash(j) == GH))))))
    # consumer (get_from_proof / bad-proof): the exception clauses about the missing hash h
    h = z3.Const("missing", SeqI)
    bad = z3.And(need_cond(E, D0, K, root, h),
                 z3.ForAll([GJP], z3.Implies(z3.And(GJP >= 0, GJP < n), offered_hash(GJP) != h)))
    E.prove("proof-composition/get_from_proof-accepts-the-proof-get_proof-returns", mk_bool(z3.Not(bad)), kind="lemma")


def _register_proof_lemma(reg):
    reg.add_lemma("hexary_proof", Lemma("lemma:hexary/proof_composition", ("C03",), proof_composition_lemma))
