"""Contracts for trie/smt.py -- properties C14 / C15.

Integer bit operations: `x & 2**e` is read through the uninterpreted predicate testbit(x, e) and `x ^ y` through
bxor, with the number-theory facts used stated as instances (DESIGN 6.3: machine arithmetic treated as
mathematical): pow2(e) >= 1; bxor(x, y) = 0 <=> x = y; a non-zero value below 2**n has a set bit below n."""
import z3

from pyvc import ops, specfn
from pyvc.interp import LoopSpec
from pyvc.sym import SSeq, SInt, SBool, ListObj, Obj, SeqI, SeqSeqI, IntS, mk_bool, mk_int, as_int_term
from pyvc.unit import Contract, Case, NOTHING
from contracts import objs

MOD = "trie.smt"
pow2, testbit, bxor, to_int = specfn.pow2, specfn.testbit, specfn.bxor, specfn.to_int


def vt(E):
    return objs.exc(E, "ValidationError")


# SparseMerkleProof.update -----------------------------------------------------------------------------
def upd_setup(E):
    s = objs.mk_smproof(E)
    key = E.fresh_seq("key", "bytes")
    value = E.fresh_seq("value", "bytes")
    upd = E.fresh_seq("node_updates", "tuple", "bytes")
    # number-theory fact (DESIGN 6.3): two different keys of the same size differ in some bit below 8*size, and
    # there is a highest such bit
    own = s.fields["_key"].t
    n = as_int_term(s.fields["_branch_size"])
    diff = bxor(to_int(own), to_int(key.t))
    hb = z3.Int("hb!spec")
    bq = z3.Int("b!q")
    E.assume(mk_bool(z3.Implies(z3.And(z3.Length(key.t) == z3.Length(own), diff != 0),
                                z3.And(hb >= 0, hb < n, testbit(diff, hb),
                                       z3.ForAll([bq], z3.Implies(z3.And(bq > hb, bq < n), z3.Not(testbit(diff, bq))),
                                                 patterns=[testbit(diff, bq)])))))
    return {"self": s, "key": key, "value": value, "node_updates": upd}


def upd_facts(E, ctx):
    s = ctx.self
    own = ops.seq_term_as(ctx.old_field(s, "_key"), "int")
    k = ops.seq_term_as(ctx.key, "int")
    n = as_int_term(ctx.old_field(s, "_branch_size"))
    x, y = to_int(own), to_int(k)
    diff = bxor(x, y)
    # facts about the bit operations (see module docstring)
    E.assume(mk_bool((diff == 0) == (x == y)))
    E.assume(mk_bool(z3.Implies(z3.Length(own) == z3.Length(k), (x == y) == (own == k))))      # to_int is injective on equal lengths
    E.assume(mk_bool(diff >= 0))
    return own, k, n, diff


def upd_cases(E, ctx):
    s = ctx.self
    own, k, n, diff = upd_facts(E, ctx)
    bl = s.fields["_branch"]
    old_branch = ctx.old_items(bl)[1].t
    upd = ops.seq_term_as(ctx.node_updates, "int") if False else ctx.node_updates.t
    ksz = as_int_term(ctx.old_field(s, "_key_size"))
    good_len = z3.Length(k) == ksz
    hb = z3.Int("hb!spec")            # the highest set bit of diff below n (see upd_setup)
    bp = n - 1 - hb

    def post_same():
        return [("value-updated", ops.py_eq(s.fields["_value"], ctx.value)),
                ("branch-unchanged", mk_bool(bl.seq.t == old_branch))]

    def post_other():
        want = z3.Concat(z3.Extract(old_branch, 0, bp), z3.Unit(upd[bp]), z3.Extract(old_branch, bp + 1, n - bp - 1))
        return [("only-the-sibling-at-the-divergence-changes", mk_bool(bl.seq.t == want)),
                ("value-unchanged", ops.py_eq(s.fields["_value"], ctx.old_field(s, "_value")))]
    return [Case("wrong-key-size", when=mk_bool(z3.Not(good_len)), raises=vt(E)),
            Case("own-key", when=mk_bool(z3.And(good_len, diff == 0)), returns=lambda: None, post=post_same,
                 modifies=[(s, "_value")]),
            Case("too-short", when=mk_bool(z3.And(good_len, diff != 0, z3.Length(upd) <= bp)), raises=vt(E)),
            Case("other-key", when=mk_bool(z3.And(good_len, diff != 0, z3.Length(upd) > bp)), returns=lambda: None,
                 post=post_other, modifies=[bl])]


def upd_inv(E, fr, i):
    """search loop `for bit in reversed(range(n))`: no bit above the current position is set"""
    s = fr.locals["self"]
    n = as_int_term(s.fields["_branch_size"])
    diff = as_int_term(fr.locals["path_diff"])
    it = as_int_term(i)
    b = z3.Int("b!inv")
    # iteration i looks at bit n-1-i
    for t in (n - 1 - it, n - it):
        E.assume(mk_bool(z3.Implies(t >= 0, pow2(t) >= 1)))
    return [("no-higher-bit-set", mk_bool(z3.ForAll([b], z3.Implies(z3.And(b > n - 1 - it, b < n), z3.Not(testbit(diff, b))),
                                                        patterns=[testbit(diff, b)])))]


def register(reg):
    g = "smt_proof"
    reg.add(g, Contract(MOD + ":SparseMerkleProof.update", ["self", "key", "value", "node_updates"], upd_cases,
                        setup=upd_setup, props=("C15",),
                        loops={0: LoopSpec(upd_inv, fresh={"bit": "int", "branch_point": "unbound"})}))
