"""Contracts for trie/smt.py -- properties C14 / C15.

Integer bit operations: `x & 2**e` is read through the uninterpreted predicate testbit(x, e) and `x ^ y` through
bxor, with the number-theory facts used stated as instances (DESIGN 6.3: machine arithmetic treated as
mathematical): pow2(e) >= 1; bxor(x, y) = 0 <=> x = y; a non-zero value below 2**n has a set bit below n."""
import z3

from pyvc import ops, specfn
from pyvc.interp import LoopSpec
from pyvc.sym import SSeq, SInt, SBool, ListObj, Obj, SeqI, SeqSeqI, IntS, mk_bool, mk_int, as_int_term, Unsupported
from pyvc.unit import Contract, Case, NOTHING
from contracts import objs

MOD = "trie.smt"
pow2, testbit, bxor, to_int = specfn.pow2, specfn.testbit, specfn.bxor, specfn.to_int


def vt(E):
    return objs.exc(E, "ValidationError")


# SparseMerkleProof.update -----------------------------------------------------------------------------
def upd_setup(E):
    s = objs.mk_smproof(E)
    key = E.fresh_seq("key", "bytes")
    value = E.fresh_seq("value", "bytes")
    upd = E.fresh_seq("node_updates", "tuple", "bytes")
    # number-theory fact (DESIGN 6.3): two different keys of the same size differ in some bit below 8*size, and
    # there is a highest such bit
    own = s.fields["_key"].t
    n = as_int_term(s.fields["_branch_size"])
    diff = bxor(to_int(own), to_int(key.t))
    hb = z3.Int("hb!spec")
    bq = z3.Int("b!q")
    E.assume(mk_bool(z3.Implies(z3.And(z3.Length(key.t) == z3.Length(own), diff != 0),
                                z3.And(hb >= 0, hb < n, testbit(diff, hb),
                                       z3.ForAll([bq], z3.Implies(z3.And(bq > hb, bq < n), z3.Not(testbit(diff, bq))),
                                                 patterns=[testbit(diff, bq)])))))
    return {"self": s, "key": key, "value": value, "node_updates": upd}


def upd_facts(E, ctx):
    s = ctx.self
    own = ops.seq_term_as(ctx.old_field(s, "_key"), "int")
    k = ops.seq_term_as(ctx.key, "int")
    n = as_int_term(ctx.old_field(s, "_branch_size"))
    x, y = to_int(own), to_int(k)
    diff = bxor(x, y)
    # facts about the bit operations (see module docstring)
    E.assume(mk_bool((diff == 0) == (x == y)))
    E.assume(mk_bool(z3.Implies(z3.Length(own) == z3.Length(k), (x == y) == (own == k))))      # to_int is injective on equal lengths
    E.assume(mk_bool(diff >= 0))
    return own, k, n, diff


def upd_cases(E, ctx):
    s = ctx.self
    own, k, n, diff = upd_facts(E, ctx)
    bl = s.fields["_branch"]
    old_branch = ctx.old_items(bl)[1].t
    upd = ops.seq_term_as(ctx.node_updates, "int") if False else ctx.node_updates.t
    ksz = as_int_term(ctx.old_field(s, "_key_size"))
    good_len = z3.Length(k) == ksz
    hb = z3.Int("hb!spec")            # the highest set bit of diff below n (see upd_setup)
    bp = n - 1 - hb

    def post_same():
        return [("value-updated", ops.py_eq(s.fields["_value"], ctx.value)),
                ("branch-unchanged", mk_bool(bl.seq.t == old_branch))]

    def post_other():
        want = z3.Concat(z3.Extract(old_branch, 0, bp), z3.Unit(upd[bp]), z3.Extract(old_branch, bp + 1, n - bp - 1))
        return [("only-the-sibling-at-the-divergence-changes", mk_bool(bl.seq.t == want)),
                ("value-unchanged", ops.py_eq(s.fields["_value"], ctx.old_field(s, "_value")))]
    return [Case("wrong-key-size", when=mk_bool(z3.Not(good_len)), raises=vt(E)),
            Case("own-key", when=mk_bool(z3.And(good_len, diff == 0)), returns=lambda: None, post=post_same,
                 modifies=[(s, "_value")]),
            Case("too-short", when=mk_bool(z3.And(good_len, diff != 0, z3.Length(upd) <= bp)), raises=vt(E)),
            Case("other-key", when=mk_bool(z3.And(good_len, diff != 0, z3.Length(upd) > bp)), returns=lambda: None,
                 post=post_other, modifies=[bl])]


def upd_inv(E, fr, i):
    """search loop `for bit in reversed(range(n))`: no bit above the current position is set"""
    s = fr.locals["self"]
    n = as_int_term(s.fields["_branch_size"])
    diff = as_int_term(fr.locals["path_diff"])
    it = as_int_term(i)
    b = z3.Int("b!inv")
    # iteration i looks at bit n-1-i
    for t in (n - 1 - it, n - it):
        E.assume(mk_bool(z3.Implies(t >= 0, pow2(t) >= 1)))
    return [("no-higher-bit-set", mk_bool(z3.ForAll([b], z3.Implies(z3.And(b > n - 1 - it, b < n), z3.Not(testbit(diff, b))),
                                                        patterns=[testbit(diff, b)])))]


def register(reg):
    g = "smt_proof"
    reg.add(g, Contract(MOD + ":SparseMerkleProof.update", ["self", "key", "value", "node_updates"], upd_cases,
                        setup=upd_setup, props=("C15",),
                        loops={0: LoopSpec(upd_inv, fresh={"bit": "int", "branch_point": "unbound"})}))
    register_tree(reg)
    register_tree_write(reg)
    register_tree_write2(reg)
    register_tree_init(reg)
    register_tree_fromdb(reg)
    register_calc_root(reg)
    register_proof_api(reg)


# =====================================================================================================
# SparseMerkleTree (C14)
#
# Ghost model (ideal-hash reading, as for the hexary trie): the content of the node with hash h is unkeccak(h);
# an inner node is the concatenation of its two 32-byte child hashes.
#     L(h) = unkeccak(h)[:32]            R(h) = unkeccak(h)[32:]
#     pn(root, p, D, i)   hash of the node at depth i on the path of the integer key p (bit D-1-i selects the child)
#     sib(root, p, D, i)  the other child of pn(.., i): the sibling met when stepping from depth i to i+1
#     dn(h, j, q)         the leaf hash reached from the node h of height j along the low j bits of q
#     agree(p, q, j)      p and q have the same low j bits
# pn, dn and agree are uninterpreted and unfolded one step at the iteration index of the loop that walks them.
# The value stored under q in the tree with root r is unkeccak(dn(r, D, q)).
# Store invariant (assumed on every read, proved on every write): an entry is stored under the keccak of its value.

GI = z3.Int("gi!pos")        # ghost: an arbitrary position / depth (clauses proved for it hold for every one)
pn = z3.Function("smt_pn", SeqI, IntS, IntS, IntS, SeqI)
dn = z3.Function("smt_dn", SeqI, IntS, IntS, SeqI)
agree = z3.Function("smt_agree", IntS, IntS, IntS, z3.BoolSort())
unk = specfn.unkeccak


def L(h):
    return z3.Extract(unk(h), z3.IntVal(0), z3.IntVal(32))


def R(h):
    return z3.Extract(unk(h), z3.IntVal(32), z3.Length(unk(h)) - 32)


def sib(root, p, D, i):
    cur = pn(root, p, D, i)
    return z3.If(testbit(p, D - 1 - i), L(cur), R(cur))


def unfold_pn(E, root, p, D, i):
    """definitional step of pn at depth i"""
    cur = pn(root, p, D, i)
    E.assume(mk_bool(pn(root, p, D, z3.IntVal(0)) == root))
    E.assume(mk_bool(z3.Implies(i >= 0, pn(root, p, D, i + 1) == z3.If(testbit(p, D - 1 - i), R(cur), L(cur)))))


def unfold_dn(E, h, j, q):
    """definitional step of dn at the node h of height j + 1"""
    E.assume(mk_bool(dn(h, z3.IntVal(0), q) == h))
    E.assume(mk_bool(z3.Implies(j >= 0, dn(h, j + 1, q) == dn(z3.If(testbit(q, j), R(h), L(h)), j, q))))


def unfold_agree(E, p, q, j):
    E.assume(mk_bool(agree(p, q, z3.IntVal(0))))
    E.assume(mk_bool(z3.Implies(j >= 0, agree(p, q, j + 1) == z3.And(agree(p, q, j), testbit(p, j) == testbit(q, j)))))


wfh = z3.Function("smt_wfh", SeqI, IntS, z3.BoolSort())     # the subtree of height j under hash h is well formed


def unfold_wfh(E, h, j):
    """definitional step: a node of height j + 1 is well formed iff it is a pair of 32-byte hashes of well-formed
    nodes of height j (every node of height 0 -- a leaf, any byte string -- is)"""
    E.assume(mk_bool(wfh(h, z3.IntVal(0))))
    E.assume(mk_bool(z3.Implies(j >= 0, wfh(h, j + 1) == z3.And(z3.Length(unk(h)) == 64, wfh(L(h), j), wfh(R(h), j)))))


def path_wf_clause(root, p, D, upto, at=None):
    """every node on the path of p down to depth `upto` roots a well-formed subtree (stated at one depth)"""
    at = GI if at is None else at
    return z3.Implies(z3.And(at >= 0, at <= upto), wfh(pn(root, p, D, at), D - at))


def inst_path_wf(E, idx):
    for (root, p, D) in E.ghost.get("smt_pathwf_rules", []):
        E.assume(mk_bool(path_wf_clause(root, p, D, D, at=idx)))


class SmtDbInvariant:
    """store invariant of the sparse Merkle tree: content addressed"""

    def on_read(self, E, d, kt, vt):
        E.assume(mk_bool(vt == unk(kt)))
        E.assume(mk_bool(specfn.keccak(unk(kt)) == kt))
        return unk(kt)

    def on_write(self, E, d, kt, vt):
        E.assume(mk_bool(z3.Implies(z3.Select(d.has, kt), z3.Select(d.val, kt) == unk(kt))))
        E.prove("store-write/content-addressed", mk_bool(kt == specfn.keccak(vt)), kind="frame",
                detail="db[k] = v is executed with k = keccak(v)")
        E.prove("store-write/existing-entry-unchanged",
                mk_bool(z3.Implies(z3.Select(d.has, kt), z3.Select(d.val, kt) == vt)), kind="frame")


def mk_tree(E):
    t = objs.mk_smt(E)
    t.fields["db"].hooks = SmtDbInvariant()
    return t


def tree_terms(ctx, key):
    s = ctx.self
    D = as_int_term(ctx.old_field(s, "depth"))
    root = ops.seq_term_as(ctx.old_field(s, "root_hash"), "int")
    p = to_int(ops.seq_term_as(key, "int"))
    return s, D, root, p


def assume_tree_wf(E, root, D):
    """representation invariant of SparseMerkleTree, assumed on entry of every unit and proved on exit of every
    operation that changes the root: the tree under the root is well formed (every inner node is the concatenation of
    two 32-byte hashes) and the root is a 32-byte hash"""
    E.assume(mk_bool(wfh(root, D)))
    E.assume(mk_bool(z3.Length(root) == 32))


def tree_wf_requires(E, ctx):
    s = ctx.self
    D = as_int_term(s.fields["depth"])
    root = ops.seq_term_as(s.fields["root_hash"], "int")
    return [("tree-well-formed", mk_bool(z3.And(wfh(root, D), z3.Length(root) == 32)))]


def complete(has, root, p, D):
    """every node on the path of p, down to the leaf, is in the database"""
    j = z3.Int("j!complete")
    return z3.ForAll([j], z3.Implies(z3.And(j >= 0, j <= D), z3.Select(has, pn(root, p, D, j))),
                     patterns=[pn(root, p, D, j)])


def good_key(ctx, key):
    return z3.Length(ops.seq_term_as(key, "int")) == as_int_term(ctx.old_field(ctx.self, "_key_size"))


def siblings_clause(b, root, p, D, upto, at=None):
    """b is the tuple of the siblings met down to depth `upto`, root to leaf -- stated at one position (default: the
    arbitrary ghost position GI, which proves it for every position)"""
    at = GI if at is None else at
    return z3.And(z3.Length(b) == upto, z3.Implies(z3.And(at >= 0, at < upto), b[at] == sib(root, p, D, at)))


def assume_siblings(E, b, root, p, D):
    """callee view of a branch returned by _get / branch: a rule that is instantiated at the positions a caller
    looks at (no quantified fact reaches the solvers), and at the ghost position"""
    E.ghost.setdefault("smt_sibling_rules", []).append((b, root, p, D))
    E.assume(mk_bool(siblings_clause(b, root, p, D, D)))


def inst_siblings(E, idx):
    for (b, root, p, D) in E.ghost.get("smt_sibling_rules", []):
        E.assume(mk_bool(siblings_clause(b, root, p, D, D, at=idx)))


# _get ---------------------------------------------------------------------------------------------------
def sget_setup(E):
    t = mk_tree(E)
    key = E.fresh_seq("key", "bytes")
    assume_tree_wf(E, t.fields["root_hash"].t, as_int_term(t.fields["depth"]))
    return {"self": t, "key": key}


def sget_cases(E, ctx):
    s, D, root, p = tree_terms(ctx, ctx.key)
    leaf = pn(root, p, D, D)
    has = ctx.old_has(s.fields["db"])
    ok = good_key(ctx, ctx.key)
    comp = complete(has, root, p, D)
    unit_mode = hasattr(ctx, "outcome")

    def ens(res):
        v, b = res
        return [("value-is-the-leaf-content", mk_bool(ops.seq_term_as(v, "int") == unk(leaf))),
                ("leaf-is-where-the-key-leads", mk_bool(leaf == dn(root, D, p))),
                ("path-nodes-root-well-formed-subtrees", mk_bool(path_wf_clause(root, p, D, D))),
                ("branch-holds-the-siblings-root-to-leaf", mk_bool(siblings_clause(ops.seq_term(b), root, p, D, D)))]

    def make():
        b = E.fresh_seq("branch", "tuple", "bytes")
        assume_siblings(E, b.t, root, p, D)
        E.ghost.setdefault("smt_pathwf_rules", []).append((root, p, D))
        E.assume(mk_bool(leaf == dn(root, D, p)))
        s.fields["db"].hooks.on_read(E, s.fields["db"], leaf, z3.Select(s.fields["db"].val, leaf))
        return (SSeq(unk(leaf), "bytes"), b)
    return [Case("found", when=mk_bool(z3.And(ok, comp)), ensures=ens if unit_mode else None,
                 make=None if unit_mode else make),
            Case("node-missing", when=mk_bool(z3.And(ok, z3.Not(comp))), raises=KeyError),
            Case("bad-key", when=mk_bool(z3.Not(ok)), raises=vt(E))]


def bind_pow2_local(E, fr, name, exp, live):
    """the loop counter `name` equals 2**exp while `live` holds, 0 afterwards.  Returns the equation; in the
    assumed-invariant phase (the local has just been havoced to a fresh constant) the local is re-bound to the
    power-of-two term itself, so that `path & target_bit` in the body is read through testbit"""
    tb = fr.locals[name]
    want = z3.If(live, pow2(exp), 0) if live is not True else pow2(exp)
    t = as_int_term(tb)
    eq = mk_bool(t == want)
    if z3.is_const(t) and t.decl().kind() == z3.Z3_OP_UNINTERPRETED:
        if live is True or E.implied(mk_bool(live)):
            fr.locals[name] = mk_int(pow2(exp))
        else:
            fr.locals[name] = mk_int(want)
    E.assume(mk_bool(z3.Implies(exp >= 0, pow2(exp) >= 1)))       # facts about 2**n (DESIGN 6.3)
    E.assume(mk_bool(pow2(z3.IntVal(0)) == 1))
    return eq


def sget_inv(E, fr, i):
    s = fr.locals["self"]
    D = as_int_term(s.fields["depth"])
    root = ops.seq_term_as(s.fields["root_hash"], "int")
    p = as_int_term(fr.locals["path"])
    it = as_int_term(i)
    unfold_pn(E, root, p, D, it)
    unfold_dn(E, pn(root, p, D, it), D - it - 1, p)
    unfold_wfh(E, pn(root, p, D, it), D - it - 1)
    unfold_wfh(E, pn(root, p, D, it - 1), D - it)
    unfold_pn(E, root, p, D, it - 1)
    eq = bind_pow2_local(E, fr, "target_bit", D - 1 - it, it < D)
    br = fr.locals["branch"]
    bt = br.seq.t if br.seq is not None else ops.seq_term(tuple(br.items)) if br.items else z3.Empty(SeqSeqI)
    j = z3.Int("j!seen")
    has = s.fields["db"].has
    return [("target-bit", eq),
            ("nodes-above-are-present", mk_bool(z3.ForAll([j], z3.Implies(z3.And(j >= 0, j < it), z3.Select(has, pn(root, p, D, j))),
                                                          patterns=[pn(root, p, D, j)]))),
            ("node-hash-is-the-path-node", mk_bool(ops.seq_term_as(fr.locals["node_hash"], "int") == pn(root, p, D, it))),
            ("same-leaf-from-here", mk_bool(dn(pn(root, p, D, it), D - it, p) == dn(root, D, p))),
            ("path-nodes-root-well-formed-subtrees", mk_bool(z3.And(wfh(pn(root, p, D, it), D - it),
                                                                   path_wf_clause(root, p, D, it)))),
            ("branch-holds-the-siblings-so-far", mk_bool(siblings_clause(bt, root, p, D, it)))]


# get / branch / exists / delete and the dictionary syntax ---------------------------------------------------
def api_setup(with_value=False):
    def setup(E):
        t = mk_tree(E)
        assume_tree_wf(E, t.fields["root_hash"].t, as_int_term(t.fields["depth"]))
        args = {"self": t, "key": E.fresh_seq("key", "bytes")}
        if with_value:
            args["value"] = E.fresh_seq("value", "bytes")
        return args
    return setup


def read_cases(kind):
    def cases(E, ctx):
        s, D, root, p = tree_terms(ctx, ctx.key)
        has = ctx.old_has(s.fields["db"])
        ok = good_key(ctx, ctx.key)
        comp = complete(has, root, p, D)
        val = unk(dn(root, D, p))
        present = z3.Length(val) > 0
        unit_mode = hasattr(ctx, "outcome")
        if kind == "exists":
            return [Case("answer", when=mk_bool(z3.And(ok, comp)), returns=lambda: mk_bool(present)),
                    Case("node-missing-reads-as-absent", when=mk_bool(z3.And(ok, z3.Not(comp))), returns=lambda: False),
                    Case("bad-key", when=mk_bool(z3.Not(ok)), raises=vt(E))]
        if kind == "get":
            res = Case("value", when=mk_bool(z3.And(ok, comp, present)), returns=lambda: SSeq(val, "bytes"))
        else:
            def ens(b):
                return [("branch-holds-the-siblings-root-to-leaf", mk_bool(siblings_clause(ops.seq_term(b), root, p, D, D)))]

            def make():
                b = E.fresh_seq("branch", "tuple", "bytes")
                assume_siblings(E, b.t, root, p, D)
                return b
            res = Case("branch", when=mk_bool(z3.And(ok, comp, present)), ensures=ens if unit_mode else None,
                       make=None if unit_mode else make)
        return [res,
                Case("blank-reads-as-absent", when=mk_bool(z3.And(ok, comp, z3.Not(present))), raises=KeyError),
                Case("node-missing", when=mk_bool(z3.And(ok, z3.Not(comp))), raises=KeyError),
                Case("bad-key", when=mk_bool(z3.Not(ok)), raises=vt(E))]
    return cases


def register_tree(reg):
    g = "smt_tree"
    T = MOD + ":SparseMerkleTree."
    reg.add(g, Contract(T + "_get", ["self", "key"], sget_cases, setup=sget_setup, props=("C14",), requires=tree_wf_requires,
                        loops={0: LoopSpec(sget_inv, havoc=lambda fr: [fr.locals["branch"]],
                                           fresh={"node": "unbound", "left": "unbound", "right": "unbound"})}))
    reg.add(g, Contract(T + "get", ["self", "key"], read_cases("get"), setup=api_setup(), props=("C14",), requires=tree_wf_requires))
    reg.add(g, Contract(T + "branch", ["self", "key"], read_cases("branch"), setup=api_setup(), props=("C14",), requires=tree_wf_requires))
    reg.add(g, Contract(T + "exists", ["self", "key"], read_cases("exists"), setup=api_setup(), props=("C14",), requires=tree_wf_requires))
    reg.add(g, Contract(T + "__getitem__", ["self", "key"], read_cases("get"), setup=api_setup(), props=("C14",), requires=tree_wf_requires))
    reg.add(g, Contract(T + "__contains__", ["self", "key"], read_cases("exists"), setup=api_setup(), props=("C14",), requires=tree_wf_requires))


# set ----------------------------------------------------------------------------------------------------
QP = z3.Int("q!probe")       # ghost: an arbitrary integer key; the view clause is proved for it, hence for every key


def sset_setup(E):
    t = mk_tree(E)
    key = E.fresh_seq("key", "bytes")
    value = E.fresh_seq("value", "bytes")
    assume_tree_wf(E, t.fields["root_hash"].t, as_int_term(t.fields["depth"]))
    db = t.fields["db"]
    E.ghost["sset_db0"] = (db.has, db.val)
    E.ghost["sset_value"] = value.t
    return {"self": t, "key": key, "value": value}


def grows(has, val, has0, val0):
    x = z3.Const("x!grow", SeqI)
    return z3.ForAll([x], z3.Implies(z3.Select(has0, x), z3.And(z3.Select(has, x), z3.Select(val, x) == z3.Select(val0, x))),
                     patterns=[z3.Select(has, x), z3.Select(val, x)])


def sset_cases(E, ctx):
    s, D, root, p = tree_terms(ctx, ctx.key)
    db = s.fields["db"]
    has0, val0 = ctx.old_has(db), ctx.old_val(db)
    ok = good_key(ctx, ctx.key)
    comp = complete(has0, root, p, D)
    V = ops.seq_term_as(ctx.value, "int")
    unit_mode = hasattr(ctx, "outcome")

    def chain_clauses(ret, new_root):
        """the returned hashes are the new path hashes root to leaf: each is the child, on the key's path, of the one
        before it (the first: of the new root), and the last is the hash of the value (stated at the ghost position GI)"""
        rt = ops.seq_term(ret)
        pu = E.ghost.get("sset_updates")
        if pu is not None:
            # tuple(reversed(proof_update)) at the three positions the clause looks at (the engine's own fact about
            # reversal, instantiated)
            for idx in (GI, GI + 1, z3.IntVal(0), D - 1):
                E.assume(mk_bool(z3.Implies(z3.And(idx >= 0, idx < D), rt[idx] == pu[D - 1 - idx])))

        def on_path_child(h, bit):
            return z3.If(testbit(p, bit), R(h), L(h))
        return [("returned/first-is-the-child-of-the-new-root", mk_bool(on_path_child(new_root, D - 1) == rt[0])),
                ("returned/each-is-the-child-of-its-predecessor",
                 mk_bool(z3.Implies(z3.And(GI >= 0, GI + 1 < D), on_path_child(rt[GI], D - 2 - GI) == rt[GI + 1]))),
                ("returned/last-is-the-hash-of-the-value", mk_bool(rt[D - 1] == specfn.keccak(V)))]

    def clauses(ret):
        new_root = ops.seq_term_as(s.fields["root_hash"], "int")
        extra = chain_clauses(ret, new_root)            # proved in unit mode, assumed (callee mode) by delete / []=
        return extra + [("view", mk_bool(dn(new_root, D, QP) == z3.If(agree(p, QP, D), specfn.keccak(V), dn(root, D, QP)))),
                ("one-hash-per-level-is-returned", mk_bool(z3.Length(ops.seq_term(ret)) == D)),
                ("new-root-is-stored", mk_bool(z3.Select(db.has, new_root))),
                ("tree-stays-well-formed", mk_bool(z3.And(wfh(new_root, D), z3.Length(new_root) == 32))),
                ("store-only-grows", mk_bool(grows(db.has, db.val, has0, val0)))]

    def make():
        ret = E.fresh_seq("updated", "tuple", "bytes")
        new_root = ops.seq_term_as(s.fields["root_hash"], "int")
        E.assume(mk_bool(z3.Length(new_root) == 32))
        for (_n, c) in clauses(ret):
            E.assume(c)
        E.ghost.setdefault("smt_view_rules", []).append((new_root, root, p, D, V))
        return ret
    return [Case("updated", when=mk_bool(z3.And(ok, comp)), ensures=clauses if unit_mode else None,
                 make=None if unit_mode else make, modifies=[db, (s, "root_hash")]),
            Case("node-missing", when=mk_bool(z3.And(ok, z3.Not(comp))), raises=KeyError, modifies=[]),
            Case("bad-key", when=mk_bool(z3.Not(ok)), raises=vt(E), modifies=[])]


def sset_inv(E, fr, i):
    s = fr.locals["self"]
    D = as_int_term(s.fields["depth"])
    root = ops.seq_term_as(s.fields["root_hash"], "int")
    p = as_int_term(fr.locals["path"])
    it = as_int_term(i)
    node = fr.locals["node"]
    nt = ops.seq_term_as(node, "int")
    H = ops.seq_term_as(E.keccak(node), "int")
    V = E.ghost["sset_value"]
    E.keccak(SSeq(V, "bytes"))
    old = pn(root, p, D, D - it)
    # one step of every definition at the level the iteration works on (it - 1 -> it) and the next (it -> it + 1)
    for lv in (it - 1, it):
        unfold_dn(E, H, lv, QP)
        unfold_dn(E, pn(root, p, D, D - lv - 1), lv, QP)
        unfold_agree(E, p, QP, lv)
        unfold_pn(E, root, p, D, D - lv - 1)
        inst_path_wf(E, D - lv - 1)
        unfold_wfh(E, pn(root, p, D, D - lv - 1), lv)
        unfold_wfh(E, H, lv)
        inst_siblings(E, D - 1 - lv)
    eq = bind_pow2_local(E, fr, "target_bit", it, True)
    has0, val0 = E.ghost["sset_db0"]
    db = s.fields["db"]
    pu = fr.locals["proof_update"]
    n_pu = z3.Length(pu.seq.t) if pu.seq is not None else z3.IntVal(len(pu.items))
    put = pu.seq.t if pu.seq is not None else (ops.seq_term(tuple(pu.items)) if pu.items else z3.Empty(SeqSeqI))
    E.ghost["sset_updates"] = put

    def on_path_child(h, bit):
        return z3.If(testbit(p, bit), R(h), L(h))
    chain = [("updates/first-is-the-hash-of-the-value", mk_bool(z3.Implies(it >= 1, put[0] == specfn.keccak(V)))),
             # stated at the arbitrary position J = D - 2 - GI (the position the postcondition looks at, counted from
             # the other end: the returned tuple is the reversed list)
             ("updates/each-is-the-child-of-its-successor",
              mk_bool(z3.Implies(z3.And(D - 2 - GI >= 0, D - 2 - GI + 1 < it),
                                 on_path_child(put[D - 2 - GI + 1], D - 2 - GI) == put[D - 2 - GI]))),
             ("updates/last-is-the-child-of-the-node-being-built",
              mk_bool(z3.Implies(it >= 1, on_path_child(H, it - 1) == put[it - 1])))]
    return chain + [("target-bit", eq),
            ("one-hash-per-level-so-far", mk_bool(n_pu == it)),
            ("an-inner-node-is-a-pair-of-hashes", mk_bool(z3.Implies(it >= 1, z3.Length(nt) == 64))),
            ("view", mk_bool(dn(H, it, QP) == z3.If(agree(p, QP, it), specfn.keccak(V), dn(old, it, QP)))),
            ("subtree-built-so-far-is-well-formed", mk_bool(wfh(H, it))),
            ("store-only-grows", mk_bool(grows(db.has, db.val, has0, val0)))]


def register_tree_write(reg):
    g = "smt_tree"
    T = MOD + ":SparseMerkleTree."
    reg.add(g, Contract(T + "set", ["self", "key", "value"], sset_cases, setup=sset_setup, props=("C14",), requires=tree_wf_requires,
                        loops={0: LoopSpec(sset_inv, havoc=lambda fr: [fr.locals["self"].fields["db"], fr.locals["proof_update"]],
                                           fresh={"node_hash": "unbound"})}))


# delete and the dictionary syntax for writes --------------------------------------------------------------
def write_api_cases(kind):
    """delete(key) = set(key, default); t[key] = v; del t[key]: the same view clause (value: the default for deletes)"""
    def cases(E, ctx):
        s, D, root, p = tree_terms(ctx, ctx.key)
        db = s.fields["db"]
        has0, val0 = ctx.old_has(db), ctx.old_val(db)
        ok = good_key(ctx, ctx.key)
        comp = complete(has0, root, p, D)
        V = ops.seq_term_as(ctx.value if kind == "setitem" else ctx.old_field(s, "_default"), "int")
        E.keccak(SSeq(V, "bytes"))

        def post():
            new_root = ops.seq_term_as(s.fields["root_hash"], "int")
            return [("view", mk_bool(dn(new_root, D, QP) == z3.If(agree(p, QP, D), specfn.keccak(V), dn(root, D, QP)))),
                    ("new-root-is-stored", mk_bool(z3.Select(db.has, new_root))),
                    ("tree-stays-well-formed", mk_bool(z3.And(wfh(new_root, D), z3.Length(new_root) == 32))),
                    ("store-only-grows", mk_bool(grows(db.has, db.val, has0, val0)))]

        def ens(ret):
            # delete returns what set(key, default) returned: the new path hashes root to leaf
            rt = ops.seq_term(ret)
            new_root = ops.seq_term_as(s.fields["root_hash"], "int")

            def on_path_child(h, bit):
                return z3.If(testbit(p, bit), R(h), L(h))
            return [("one-hash-per-level-is-returned", mk_bool(z3.Length(rt) == D)),
                    ("returned/first-is-the-child-of-the-new-root", mk_bool(on_path_child(new_root, D - 1) == rt[0])),
                    ("returned/each-is-the-child-of-its-predecessor",
                     mk_bool(z3.Implies(z3.And(GI >= 0, GI + 1 < D), on_path_child(rt[GI], D - 2 - GI) == rt[GI + 1]))),
                    ("returned/last-is-the-hash-of-the-value", mk_bool(rt[D - 1] == specfn.keccak(V)))]
        upd = Case("updated", when=mk_bool(z3.And(ok, comp)), post=post, modifies=[db, (s, "root_hash")])
        if kind == "delete":
            upd.ensures = ens
        else:
            upd.returns = lambda: None
        return [upd,
                Case("node-missing", when=mk_bool(z3.And(ok, z3.Not(comp))), raises=KeyError, modifies=[]),
                Case("bad-key", when=mk_bool(z3.Not(ok)), raises=vt(E), modifies=[])]
    return cases


def write_api_setup(with_value):
    def setup(E):
        t = mk_tree(E)
        key = E.fresh_seq("key", "bytes")
        assume_tree_wf(E, t.fields["root_hash"].t, as_int_term(t.fields["depth"]))
        args = {"self": t, "key": key}
        if with_value:
            args["value"] = E.fresh_seq("value", "bytes")
        return args
    return setup


def register_tree_write2(reg):
    g = "smt_tree"
    T = MOD + ":SparseMerkleTree."
    reg.add(g, Contract(T + "delete", ["self", "key"], write_api_cases("delete"), setup=write_api_setup(False),
                        props=("C14",), callee=False))
    reg.add(g, Contract(T + "__setitem__", ["self", "key", "value"], write_api_cases("setitem"),
                        setup=write_api_setup(True), props=("C14",), callee=False))
    reg.add(g, Contract(T + "__delitem__", ["self", "key"], write_api_cases("delitem"), setup=write_api_setup(False),
                        props=("C14",), callee=False))


# __init__ and from_db ---------------------------------------------------------------------------------------
def sinit_setup(E):
    o = Obj(objs.cls_of(E, "trie.smt", "SparseMerkleTree"), {})
    ks = E.fresh_int("key_size")
    E.assume(mk_bool(z3.And(ks.t >= 1, ks.t <= 32)))
    default = E.fresh_seq("default", "bytes")
    E.ghost["sinit_default"] = default.t
    return {"self": o, "key_size": ks, "default": default}


def content_addressed(has, val):
    x = z3.Const("x!ca", SeqI)
    return z3.ForAll([x], z3.Implies(z3.Select(has, x), x == specfn.keccak(z3.Select(val, x))), patterns=[z3.Select(has, x)])


def sinit_cases(E, ctx):
    s = ctx.self
    ks = as_int_term(ctx.key_size)
    Dv = ops.seq_term_as(ctx.default, "int")
    E.keccak(SSeq(Dv, "bytes"))

    def post():
        f = s.fields
        try:
            root = ops.seq_term_as(f["root_hash"], "int")
            db = f["db"]
            D = as_int_term(f["depth"])
            out = [("key-size", mk_bool(as_int_term(f["_key_size"]) == ks)),
                   ("depth-is-the-number-of-key-bits", mk_bool(D == 8 * ks)),
                   ("default-kept", mk_bool(ops.seq_term_as(f["_default"], "int") == Dv)),
                   ("every-key-reads-as-the-default", mk_bool(dn(root, D, QP) == specfn.keccak(Dv))),
                   ("tree-well-formed", mk_bool(z3.And(wfh(root, D), z3.Length(root) == 32))),
                   ("root-is-stored", mk_bool(z3.Select(db.has, root))),
                   ("store-is-content-addressed", mk_bool(content_addressed(db.has, db.val)))]
        except (KeyError, Unsupported) as e:
            return [("object-initialised (%r)" % (e,), False)]
        return out
    return [Case("initialised", returns=lambda: None, post=post, modifies=[s])]


def sinit_inv(E, fr, i):
    s = fr.locals["self"]
    it = as_int_term(i)
    node = fr.locals["node"]
    nt = ops.seq_term_as(node, "int")
    H = ops.seq_term_as(E.keccak(node), "int")
    Dv = E.ghost["sinit_default"]
    for lv in (it - 1, it):
        unfold_dn(E, H, lv, QP)
        unfold_wfh(E, H, lv)
    db = s.fields["db"]
    E.dict_type(db, b"", b"")          # `self.db = {}`: give the (still empty) dictionary its symbolic form
    return [("every-key-below-reads-as-the-default", mk_bool(dn(H, it, QP) == specfn.keccak(Dv))),
            ("an-inner-node-is-a-pair-of-hashes", mk_bool(z3.Implies(it >= 1, z3.Length(nt) == 64))),
            ("subtree-built-so-far-is-well-formed", mk_bool(wfh(H, it))),
            ("store-is-content-addressed", mk_bool(content_addressed(db.has, db.val)))]


def register_tree_init(reg):
    g = "smt_tree"
    T = MOD + ":SparseMerkleTree."
    reg.add(g, Contract(T + "__init__", ["self", "key_size", "default"], sinit_cases, setup=sinit_setup, props=("C14",),
                        loops={0: LoopSpec(sinit_inv, havoc=lambda fr: [fr.locals["self"].fields["db"]],
                                           fresh={"node_hash": "unbound"})}, callee=False))


def fromdb_setup(E):
    ks = E.fresh_int("key_size")
    E.assume(mk_bool(z3.And(ks.t >= 1, ks.t <= 32)))
    default = E.fresh_seq("default", "bytes")
    E.ghost["sinit_default"] = default.t
    db = E.fresh_dict("db", "bytes", "bytes")
    return {"cls": objs.cls_of(E, "trie.smt", "SparseMerkleTree"), "db": db, "root_hash": objs.hash32(E, "root"),
            "key_size": ks, "default": default}


def fromdb_cases(E, ctx):
    def ens(t):
        if not isinstance(t, Obj):
            return [("returns-a-tree", False)]
        f = t.fields
        try:
            return [("reads-the-given-database", f["db"] is ctx.db),
                    ("at-the-given-root", ops.py_eq(f["root_hash"], ctx.root_hash)),
                    ("key-size", mk_bool(as_int_term(f["_key_size"]) == as_int_term(ctx.key_size))),
                    ("depth-is-the-number-of-key-bits", mk_bool(as_int_term(f["depth"]) == 8 * as_int_term(ctx.key_size))),
                    ("default-kept", ops.py_eq(f["_default"], ctx.default))]
        except KeyError as e:
            return [("object-initialised (%r)" % (e,), False)]
    return [Case("opened", ensures=ens, modifies=[])]


def register_tree_fromdb(reg):
    T = MOD + ":SparseMerkleTree."
    reg.add("smt_tree", Contract(T + "from_db", ["cls", "db", "root_hash", "key_size", "default"], fromdb_cases,
                                 setup=fromdb_setup, props=("C14",), callee=False))


# calc_root --------------------------------------------------------------------------------------------------
# Pure function.  Contract relative to a ghost tree (root r, well formed, content addressed along the key's path):
# given the leaf content of the key and the siblings on its path (root -> leaf), it returns r.

def croot_setup(E):
    key = E.fresh_seq("key", "bytes")
    value = E.fresh_seq("value", "bytes")
    branch = E.fresh_seq("branch", "tuple", "bytes")
    r = objs.hash32(E, "ghost_root").t
    D = 8 * z3.Length(key.t)
    p = to_int(key.t)
    E.assume(mk_bool(z3.Length(branch.t) == D))
    E.assume(mk_bool(value.t == unk(pn(r, p, D, D))))
    E.assume(mk_bool(specfn.keccak(unk(pn(r, p, D, D))) == pn(r, p, D, D)))
    E.ghost["croot"] = (r, p, D, branch.t)
    return {"key": key, "value": value, "branch": branch}


def croot_cases(E, ctx):
    r, p, D, b = E.ghost["croot"]
    return [Case("root", returns=lambda: SSeq(r, "bytes"))]


def croot_inv(E, fr, i):
    r, p, D, b = E.ghost["croot"]
    it = as_int_term(i)
    for lv in (it - 1, it):
        idx = D - 1 - lv
        unfold_pn(E, r, p, D, idx)
        cur = pn(r, p, D, idx)
        # the ghost tree along the path (preconditions of the contract, instantiated at the level being folded):
        # the node is a pair of hashes, it is stored under the hash of its content, the branch holds its other child
        E.assume(mk_bool(z3.Implies(z3.And(idx >= 0, idx < D),
                                    z3.And(z3.Length(unk(cur)) == 64, specfn.keccak(unk(cur)) == cur,
                                           b[idx] == sib(r, p, D, idx)))))
    eq = bind_pow2_local(E, fr, "target_bit", it, True)
    return [("target-bit", eq),
            ("node-hash-is-the-path-node", mk_bool(ops.seq_term_as(fr.locals["node_hash"], "int") == pn(r, p, D, D - it)))]


def register_calc_root(reg):
    reg.add("smt_tree", Contract(MOD + ":calc_root", ["key", "value", "branch"], croot_cases, setup=croot_setup,
                                 props=("C14", "C15"), loops={0: LoopSpec(croot_inv)}, callee=False))


# SparseMerkleProof: root_hash / branch / value / key and __init__ (C15) ---------------------------------------
def proof_root_setup(E):
    s = objs.mk_smproof(E)
    key, value, branch = s.fields["_key"].t, s.fields["_value"].t, s.fields["_branch"].seq.t
    r = objs.hash32(E, "ghost_root").t
    D = 8 * z3.Length(key)
    p = to_int(key)
    # the proof is in sync with the (consistent, well-formed) ghost tree r: its value is the leaf content of its key
    # and its branch holds the siblings on the key's path (instantiated level by level in the loop of calc_root)
    E.assume(mk_bool(value == unk(pn(r, p, D, D))))
    E.assume(mk_bool(specfn.keccak(unk(pn(r, p, D, D))) == pn(r, p, D, D)))
    E.ghost["croot"] = (r, p, D, branch)
    return {"self": s}


def proof_root_cases(E, ctx):
    r, p, D, b = E.ghost["croot"]
    return [Case("root-of-the-tree-it-is-in-sync-with", returns=lambda: SSeq(r, "bytes"))]


def proof_getter_cases(field, as_tuple=False):
    def cases(E, ctx):
        v = ctx.old_field(ctx.self, field)
        if as_tuple:
            t = ctx.old_items(v)[1].t if hasattr(ctx, "old_items") else v.seq.t
            return [Case("value", returns=lambda: SSeq(t, "tuple", "bytes"))]
        return [Case("value", returns=lambda: v)]
    return cases


def pinit_setup(E):
    o = Obj(objs.cls_of(E, "trie.smt", "SparseMerkleProof"), {})
    key = E.fresh_seq("key", "bytes")
    value = E.fresh_seq("value", "bytes")
    branch = E.fresh_seq("branch", "tuple", "bytes")
    E.assume(mk_bool(z3.Length(branch.t) == 8 * z3.Length(key.t)))
    return {"self": o, "key": key, "value": value, "branch": branch}


def pinit_cases(E, ctx):
    def post():
        f = ctx.self.fields
        try:
            return [("key", ops.py_eq(f["_key"], ctx.key)), ("value", ops.py_eq(f["_value"], ctx.value)),
                    ("key-size", mk_bool(as_int_term(f["_key_size"]) == z3.Length(ctx.key.t))),
                    ("branch-copied", mk_bool(f["_branch"].seq.t == ctx.branch.t) if f["_branch"].seq is not None else
                     ops.py_eq(tuple(f["_branch"].items), ctx.branch)),
                    ("branch-size", mk_bool(as_int_term(f["_branch_size"]) == z3.Length(ctx.branch.t)))]
        except (KeyError, AttributeError, Unsupported) as e:
            return [("object-initialised (%r)" % (e,), False)]
    return [Case("initialised", returns=lambda: None, post=post, modifies=[ctx.self])]


def register_proof_api(reg):
    g = "smt_proof"
    P = MOD + ":SparseMerkleProof."
    reg.add(g, Contract(P + "root_hash", ["self"], proof_root_cases, setup=proof_root_setup, props=("C15",), callee=False))
    reg.add(g, Contract(P + "key", ["self"], proof_getter_cases("_key"), setup=lambda E: {"self": objs.mk_smproof(E)},
                        props=("C15",)))
    reg.add(g, Contract(P + "value", ["self"], proof_getter_cases("_value"), setup=lambda E: {"self": objs.mk_smproof(E)},
                        props=("C15",)))
    reg.add(g, Contract(P + "branch", ["self"], proof_getter_cases("_branch", True),
                        setup=lambda E: {"self": objs.mk_smproof(E)}, props=("C15",)))
    reg.add(g, Contract(P + "__init__", ["self", "key", "value", "branch"], pinit_cases, setup=pinit_setup,
                        props=("C15",), callee=False))
