"""C11: HexaryTrieFog -- the functions that do not need the nested validation loops of explore():
is_complete, mark_all_complete, nearest_right, nearest_unknown, _new_trie_fog, __init__.

sortedcontainers.SortedSet is an external dependency: it is modelled (assumed contract, DESIGN 6.1) as an object with
  members   its elements, as a dictionary nibble-tuple -> True (membership array `has`; the frame machinery sees every
            mutation of it)
  order     the same elements as a tuple in ascending (lexicographic) order
and the operations fog.py uses:  SortedSet(iterable), copy(), remove(x) [KeyError when absent], x in s, len(s),
s[i] [IndexError out of range], s.bisect(k) [number of elements <= k].  The two views are linked where an operation
looks at them: an element read by index is a member; bisect's result splits `order` around the key."""
import z3

from pyvc import ops, specfn, lib, interp as I
from pyvc.interp import LoopSpec
from pyvc.sym import (SSeq, SInt, SBool, Obj, DictObj, ExcObj, PyRaise, SeqI, SeqSeqI, IntS, mk_bool, mk_int,
                      as_int_term, Unsupported)
from pyvc.unit import Contract, Case, Is
from contracts import objs
from contracts import hexmodel as HM

MOD = "trie.fog"
lexlt = specfn.lexlt


class _SortedSetCls:
    name = "SortedSet"

    def lookup(self, name):
        return None

    def mro(self):
        return [self]

    def is_exception(self):
        return False

    def py_havoc(self, E, o):
        # loop havoc of a sorted set: its order becomes arbitrary (the membership dictionary is havoced separately)
        o.fields["order"] = E.fresh_seq("order", "tuple", "tuple")


SS = _SortedSetCls()


def is_ss(v):
    return isinstance(v, Obj) and v.cls is SS


def mk_sorted_set(E, has=None, order=None, base="unexplored"):
    d = E.fresh_dict(base, "tuple", "bool")
    if has is not None:
        d.has = has
    d.val = z3.K(SeqI, z3.BoolVal(True))
    if order is None:
        order = E.fresh_seq(base + ".order", "tuple", "tuple").t
    o = Obj(SS, {"members": d, "order": SSeq(order, "tuple", "tuple")})
    return o


def ss_new(E, it=None):
    """SortedSet(iterable) for the iterables fog.py passes: a set display / tuple of concrete tuples"""
    items = [] if it is None else E.concrete_items(it) if not isinstance(it, I._SetLit) else list(it.items)
    if items is None:
        raise Unsupported("SortedSet over a symbolic iterable")
    has = z3.K(SeqI, z3.BoolVal(False))
    conc = []
    for x in items:
        if not (isinstance(x, tuple) and all(isinstance(y, int) for y in x)):
            raise Unsupported("SortedSet element %r" % (x,))
        conc.append(x)
    conc = sorted(set(conc))
    for x in conc:
        has = z3.Store(has, ops.seq_term(x), z3.BoolVal(True))
    from pyvc.sym import seqseq_const
    return mk_sorted_set(E, has, seqseq_const(conc))


def ss_attr(E, obj, name):
    if not is_ss(obj):
        return NotImplemented
    d = obj.fields["members"]
    if name == "copy":
        def copy(E2):
            return mk_sorted_set(E2, d.has, obj.fields["order"].t)
        return I.Builtin("SortedSet.copy", copy)
    if name == "remove":
        def remove(E2, x):
            E2.del_item(d, x)                    # KeyError when absent; counts as a write to this set
            old = obj.fields["order"].t
            new = E2.fresh_seq("order", "tuple", "tuple")
            E2.assume(mk_bool(z3.Length(new.t) == z3.Length(old) - 1))
            E2.check_mut(obj) if hasattr(E2, "check_mut") else None
            obj.fields["order"] = new
            return None
        return I.Builtin("SortedSet.remove", remove)
    if name == "bisect":
        def bisect(E2, key):
            s = obj.fields["order"].t
            k = ops.seq_term_as(key, "int")
            idx = E2.fresh_int("bisect")
            n = z3.Length(s)
            # bisect_right: everything before idx is <= key, everything from idx on is > key (instantiated at the two
            # neighbours the callers look at)
            E2.assume(mk_bool(z3.And(idx.t >= 0, idx.t <= n)))
            E2.assume(mk_bool(z3.Implies(idx.t > 0, z3.Not(lexlt(k, s[idx.t - 1])))))
            E2.assume(mk_bool(z3.Implies(idx.t < n, lexlt(k, s[idx.t]))))
            E2.ghost.setdefault("bisects", []).append((obj, k, idx.t))
            return idx
        return I.Builtin("SortedSet.bisect", bisect)
    return NotImplemented


def ss_contains(E, cont, x):
    if not is_ss(cont):
        return NotImplemented
    return E.dict_contains(cont.fields["members"], x)


def ss_getitem(E, base, key):
    if not is_ss(base):
        return NotImplemented
    s = base.fields["order"]
    n = mk_int(z3.Length(s.t))
    j, ok = ops.norm_index(key, n)
    if not E.decide(ok):
        E.raise_exc(IndexError, "list index out of range")
    e = z3.simplify(s.t[j])
    E.assume(mk_bool(z3.Select(base.fields["members"].has, e)))       # an element of `order` is a member
    from contracts.seqspec import allnib
    E.assume(mk_bool(allnib(e)))
    return SSeq(e, "tuple", "int", rng=(0, 15))


_orig_len = lib.b_len


def ss_len(E, v):
    if is_ss(v):
        return mk_int(z3.Length(v.fields["order"].t))
    return _orig_len(E, v)


def install():
    lib.obj_attr_hook = ss_attr
    lib.contains_hook = ss_contains
    lib.getitem_hook = ss_getitem
    lib.b_len = ss_len
    if "len" in lib.BUILTINS:
        lib.BUILTINS["len"] = I.Builtin("len", ss_len)
    lib.EXT["sortedcontainers.SortedSet"] = lambda E, it=None: ss_new(E, it)


# ---------------------------------------------------------------------------------------------------
def fog_cls(E):
    return objs.cls_of(E, MOD, "HexaryTrieFog")


def mk_fog(E):
    s = mk_sorted_set(E)
    n = z3.Length(s.fields["order"].t)
    x = z3.Const("x!mem", SeqI)
    # link of the two views of the set (assumed contract of SortedSet): it has no element iff `order` is empty
    E.assume(mk_bool((n == 0) == z3.ForAll([x], z3.Not(z3.Select(s.fields["members"].has, x)))))
    return Obj(fog_cls(E), {"_unexplored_prefixes": s})


def complete_cases(E, ctx):
    s = ctx.self.fields["_unexplored_prefixes"]
    has = s.fields["members"].has
    x = z3.Const("x!mem", SeqI)
    return [Case("answer", returns=lambda: mk_bool(z3.ForAll([x], z3.Not(z3.Select(has, x)))))]


# nearest_right ------------------------------------------------------------------------------------------
def nr_setup(E):
    return {"self": mk_fog(E), "key_input": HM.nibs(E, "key_input")}


def member_and_adjacent(E, ctx, r, right_only):
    s = ctx.self.fields["_unexplored_prefixes"]
    has = s.fields["members"].has
    K = ops.seq_term_as(ctx.key_input, "int")
    rt = ops.seq_term_as(r, "int")
    contains_key = z3.PrefixOf(rt, K)
    if right_only:
        pos = z3.Or(contains_key, lexlt(K, rt))
    else:
        pos = z3.BoolVal(True)
    return [("is-an-unexplored-prefix", mk_bool(z3.Select(has, rt))),
            ("contains-the-key-or-lies-to-its-right", mk_bool(pos))]


def nr_cases(E, ctx):
    s = ctx.self.fields["_unexplored_prefixes"]
    n = z3.Length(s.fields["order"].t)
    return [Case("found", when=mk_bool(n > 0), ensures=lambda r: member_and_adjacent(E, ctx, r, True)),
            Case("nothing-left", when=mk_bool(n == 0), raises=objs.exc(E, "PerfectVisibility")),
            Case("nothing-to-the-right", when=mk_bool(n > 0), raises=objs.exc(E, "FullDirectionalVisibility"))]


def nu_cases(E, ctx):
    s = ctx.self.fields["_unexplored_prefixes"]
    n = z3.Length(s.fields["order"].t)
    return [Case("found", when=mk_bool(n > 0), ensures=lambda r: member_and_adjacent(E, ctx, r, False)),
            Case("nothing-left", when=mk_bool(n == 0), raises=objs.exc(E, "PerfectVisibility"))]


def register(reg):
    install()
    g = "fog"
    F = MOD + ":HexaryTrieFog."
    reg.add(g, Contract(F + "is_complete", ["self"], complete_cases, setup=lambda E: {"self": mk_fog(E)},
                        props=("C11", "C09"), callee=False))
    reg.add(g, Contract(F + "nearest_right", ["self", "key_input"], nr_cases, setup=nr_setup, props=("C11", "C09"),
                        callee=False))
    register2(reg)
    register3(reg)
    register4(reg)


# _prefix_distance, nearest_unknown -------------------------------------------------------------------------
class ZipLongest:
    """itertools.zip_longest(a, b, fillvalue=f) over two sequences (assumed contract of itertools): max(|a|, |b|)
    pairs; a missing element is the fill value"""

    def __init__(self, a, b, fill):
        self.a, self.b, self.fill = a, b, fill

    def py_iter_len(self, E):
        la, lb = as_int_term(ops.length(self.a)), as_int_term(ops.length(self.b))
        return mk_int(z3.If(la >= lb, la, lb))

    def py_iter_elem(self, E, i):
        out = []
        for s in (self.a, self.b):
            if E.decide(mk_bool(i.t < as_int_term(ops.length(s)))):
                out.append(E.seq_index_nocheck(s, i))
            else:
                out.append(self.fill)
        return tuple(out)


def x_zip_longest(E, a, b, fillvalue=None):
    return ZipLongest(a, b, fillvalue)


def pd_setup(E):
    return {"low_key": HM.nibs(E, "low_key"), "high_key": HM.nibs(E, "high_key")}


GJ = z3.Int("gj!dist")        # ghost: an arbitrary position of the distance tuple


def dist_at(a, b, j):
    return z3.If(j < z3.Length(b), b[j], 0) - z3.If(j < z3.Length(a), a[j], 15)


def pd_cases(E, ctx):
    a, b = ops.seq_term_as(ctx.low_key, "int"), ops.seq_term_as(ctx.high_key, "int")
    n = z3.If(z3.Length(a) >= z3.Length(b), z3.Length(a), z3.Length(b))
    unit_mode = hasattr(ctx, "outcome")

    def ens(r):
        rt = ops.seq_term_as(r, "int")
        return [("one-difference-per-position", mk_bool(z3.Length(rt) == n)),
                ("difference-with-15-and-0-as-padding", mk_bool(z3.Implies(z3.And(GJ >= 0, GJ < n), rt[GJ] == dist_at(a, b, GJ))))]

    def make():
        r = E.fresh_seq("distance", "tuple", "int")
        E.assume(mk_bool(z3.Length(r.t) == n))
        return r
    return [Case("distance", ensures=ens if unit_mode else None, make=None if unit_mode else make)]


def pd_inv(E, fr, i):
    a = ops.seq_term_as(fr.locals["low_key"], "int")
    b = ops.seq_term_as(fr.locals["high_key"], "int")
    out = fr.gen_out.val.t if hasattr(fr.gen_out, "val") else ops.seq_term(tuple(fr.gen_out))
    it = as_int_term(i)
    return [("length", mk_bool(z3.Length(out) == it)),
            ("differences-so-far", mk_bool(z3.Implies(z3.And(GJ >= 0, GJ < it), out[GJ] == dist_at(a, b, GJ))))]


def register2(reg):
    lib.EXT["itertools.zip_longest"] = x_zip_longest
    g = "fog"
    F = MOD + ":HexaryTrieFog."
    reg.add(g, Contract(F + "_prefix_distance", ["low_key", "high_key"], pd_cases, setup=pd_setup, props=("C11",),
                        loops={0: LoopSpec(pd_inv, fresh={"low_nibble": "unbound", "high_nibble": "unbound",
                                                          "final_low_nibble": "unbound", "final_high_nibble": "unbound"})}))
    reg.add(g, Contract(F + "nearest_unknown", ["self", "key_input"], nu_cases, setup=nr_setup, props=("C11", "C09"),
                        callee=False))


# mark_all_complete, __init__, _new_trie_fog ---------------------------------------------------------------------
class MapIter:
    """map(f, seq) over a sequence of symbolic length: element i is f(seq[i]), evaluated when it is reached"""

    def __init__(self, f, seq):
        self.f, self.seq = f, seq

    def py_iter_len(self, E):
        return lib._iter_len(E, self.seq)

    def py_iter_elem(self, E, i):
        return E.call(self.f, [E.iter_elem(self.seq, i)])


_orig_map = lib.b_map


def x_map(E, f, it):
    if E.concrete_items(it) is None:
        return MapIter(f, it)
    return _orig_map(E, f, it)


XP = z3.Const("x!probe", SeqI)                     # ghost: an arbitrary nibble tuple
seen = z3.Function("fog_listed", SeqSeqI, IntS, z3.BoolSort())     # XP is among the first j listed prefixes


def unfold_seen(E, inputs, j):
    E.assume(mk_bool(z3.Not(seen(inputs, z3.IntVal(0)))))
    E.assume(mk_bool(z3.Implies(j >= 0, seen(inputs, j + 1) == z3.Or(seen(inputs, j), inputs[j] == XP))))


def mac_setup(E):
    f = mk_fog(E)
    inputs = E.fresh_seq("prefix_inputs", "tuple", "tuple")
    s = f.fields["_unexplored_prefixes"]
    E.ghost["mac0"] = (s, s.fields["members"].has)
    return {"self": f, "prefix_inputs": inputs}


def mac_cases(E, ctx):
    s0, has0 = E.ghost["mac0"]
    inputs = ops.seq_term(ctx.prefix_inputs)
    n = z3.Length(inputs)

    def ens(r):
        if not (isinstance(r, Obj) and is_ss(r.fields.get("_unexplored_prefixes"))):
            return [("returns-a-fog", False)]
        ns = r.fields["_unexplored_prefixes"]
        return [("a-new-object", r is not ctx.self and ns is not s0 and ns.fields["members"] is not s0.fields["members"]),
                ("exactly-the-listed-prefixes-are-gone",
                 mk_bool(z3.Select(ns.fields["members"].has, XP) == z3.And(z3.Select(has0, XP), z3.Not(seen(inputs, n)))))]
    return [Case("marked", ensures=ens, modifies=[]),
            Case("unknown-prefix", raises=eth_utils_validation_error(), modifies=[]),
            Case("malformed-nibbles", raises=ValueError, modifies=[])]


def mac_inv(E, fr, i):
    s0, has0 = E.ghost["mac0"]
    inputs = ops.seq_term(fr.locals["prefix_inputs"])
    new = fr.locals["new_unexplored_prefixes"]
    it = as_int_term(i)
    unfold_seen(E, inputs, it)
    unfold_seen(E, inputs, it - 1)
    return [("a-copy-is-being-edited", new is not s0 and new.fields["members"] is not s0.fields["members"]),
            ("exactly-the-listed-prefixes-so-far-are-gone",
             mk_bool(z3.Select(new.fields["members"].has, XP) == z3.And(z3.Select(has0, XP), z3.Not(seen(inputs, it)))))]


def init_cases(E, ctx):
    def post():
        s = ctx.self.fields.get("_unexplored_prefixes")
        if not is_ss(s):
            return [("has-a-sorted-set", False)]
        return [("only-the-root-prefix-is-unexplored",
                 mk_bool(z3.Select(s.fields["members"].has, XP) == (XP == z3.Empty(SeqI))))]
    return [Case("fresh-fog", returns=lambda: None, post=post, modifies=[ctx.self])]


EUV = None


def eth_utils_validation_error():
    """fog.py raises eth_utils.ValidationError (an external exception class, not trie.exceptions.ValidationError)"""
    from pyvc.modules import Ext
    return Ext("eth_utils.ValidationError")


def register3(reg):
    from pyvc.modules import Ext
    lib.EXT["eth_utils.ValidationError"] = lambda E, *a: ExcObj(Ext("eth_utils.ValidationError"), a)
    lib.b_map = x_map
    lib.BUILTINS["map"] = I.Builtin("map", x_map)
    g = "fog"
    F = MOD + ":HexaryTrieFog."
    reg.add(g, Contract(F + "mark_all_complete", ["self", "prefix_inputs"], mac_cases, setup=mac_setup, props=("C11", "C09"),
                        callee=False,
                        loops={0: LoopSpec(mac_inv, havoc=lambda fr: [fr.locals["new_unexplored_prefixes"].fields["members"],
                                                                      fr.locals["new_unexplored_prefixes"]],
                                           fresh={"prefix": "unbound"})}))
    reg.add(g, Contract(F + "__init__", ["self"], init_cases, setup=lambda E: {"self": Obj(fog_cls(E), {})},
                        props=("C11",), callee=False))


# TrieFrontierCache: __init__, get, add, delete ---------------------------------------------------------------
# The cache is a dictionary nibble tuple -> (parent node body, segment from the parent to that prefix).  The node body
# is opaque here (any Python value); a cached value is the pair `Entry(node, segment)`.  What a walk relies on:
#   * get(p) answers exactly what the last add() that listed p stored, KeyError otherwise;
#   * add(P, n, segs) makes P + s -> (n, s) for every listed s, forgets P itself (unless P is the root prefix or is
#     listed again through an empty segment) and leaves every other entry alone;
#   * every entry's segment is a suffix of its key (so traverse_from(node, segment) ends at the key's prefix when the
#     node sits at key[:-len(segment)]) -- a representation invariant, assumed on entry and proved on exit, for an
#     arbitrary key XP.
from pyvc.sym import EntryS, SPy, to_pyval

listed = z3.Function("cache_listed", SeqI, SeqSeqI, IntS, z3.BoolSort())   # XP = P + segs[i] for some i < j
lastseg = z3.Function("cache_lastseg", SeqI, SeqSeqI, IntS, SeqI)          # the segment of the last such i


def unfold_listed(E, P, segs, j):
    E.assume(mk_bool(z3.Not(listed(P, segs, z3.IntVal(0)))))
    hit = z3.Concat(P, segs[j]) == XP
    E.assume(mk_bool(z3.Implies(j >= 0, listed(P, segs, j + 1) == z3.Or(listed(P, segs, j), hit))))
    E.assume(mk_bool(z3.Implies(j >= 0, lastseg(P, segs, j + 1) == z3.If(hit, segs[j], lastseg(P, segs, j)))))


def cache_cls(E):
    return objs.cls_of(E, MOD, "TrieFrontierCache")


def suffix_inv(d):
    e = z3.Select(d.val, XP)
    return z3.Implies(z3.Select(d.has, XP), z3.SuffixOf(EntryS.eseg(e), XP))


def mk_cache(E):
    d = E.fresh_dict("_cache", "tuple", "entry")
    E.assume(mk_bool(suffix_inv(d)))
    return Obj(cache_cls(E), {"_cache": d})


def cache_of(ctx):
    d = ctx.self.fields.get("_cache")
    return d if isinstance(d, DictObj) else None


def cget_setup(E):
    c = mk_cache(E)
    E.ghost["cache0"] = c.fields["_cache"].snapshot()
    return {"self": c, "prefix": E.fresh_seq("prefix", "tuple", "int")}


def cget_cases(E, ctx):
    has0, val0 = E.ghost["cache0"]
    p = ops.seq_term_as(ctx.prefix, "int")

    def ens(r):
        if not (isinstance(r, tuple) and len(r) == 2):
            return [("returns-a-pair", False)]
        e = z3.Select(val0, p)
        return [("the-cached-node", mk_bool(to_pyval(r[0]) == EntryS.enode(e))),
                ("the-cached-segment", mk_bool(ops.seq_term_as(r[1], "int") == EntryS.eseg(e))),
                ("was-cached", mk_bool(z3.Select(has0, p)))]
    return [Case("hit", when=mk_bool(z3.Select(has0, p)), ensures=ens, modifies=[]),
            Case("miss", when=mk_bool(z3.Not(z3.Select(has0, p))), raises=KeyError, modifies=[]),
            Case("malformed-nibbles", raises=ValueError, modifies=[])]


def cadd_setup(E):
    c = mk_cache(E)
    E.ghost["cache0"] = c.fields["_cache"].snapshot()
    return {"self": c, "node_prefix_input": E.fresh_seq("node_prefix_input", "tuple", "int"),
            "trie_node": E.fresh_py("trie_node"), "sub_segments": E.fresh_seq("sub_segments", "tuple", "tuple")}


def cadd_state(d, has0, val0, P, node, segs, j):
    """the cache after the parent's own entry was dropped and the first j segments were entered, at the probe XP"""
    dropped = z3.And(XP == P, P != z3.Empty(SeqI))
    L = listed(P, segs, j)
    return [("entry-present-iff-listed-or-kept", mk_bool(z3.Select(d.has, XP) == z3.Or(L, z3.And(z3.Select(has0, XP), z3.Not(dropped))))),
            ("listed-entry-is-the-node-with-its-last-listed-segment",
             mk_bool(z3.Implies(L, z3.Select(d.val, XP) == EntryS.Entry(node, lastseg(P, segs, j))))),
            ("other-entries-untouched", mk_bool(z3.Implies(z3.Not(L), z3.Select(d.val, XP) == z3.Select(val0, XP)))),
            ("segment-is-a-suffix-of-its-key", mk_bool(suffix_inv(d)))]


def cadd_cases(E, ctx):
    has0, val0 = E.ghost["cache0"]
    P = ops.seq_term_as(ctx.node_prefix_input, "int")
    segs = ops.seq_term(ctx.sub_segments)
    node = to_pyval(ctx.trie_node)
    n = z3.Length(segs)

    def post():
        d = cache_of(ctx)
        if d is None:
            return [("has-a-cache-dictionary", False)]
        return cadd_state(d, has0, val0, P, node, segs, n)
    d = cache_of(ctx)
    return [Case("added", returns=lambda: None, post=post, modifies=[d]),
            # a malformed segment is noticed when the loop reaches it: earlier segments have been entered by then
            Case("malformed-nibbles", raises=ValueError, modifies=[d])]


def cadd_inv(E, fr, i):
    has0, val0 = E.ghost["cache0"]
    P = ops.seq_term_as(fr.locals["node_prefix"], "int")
    segs = ops.seq_term(fr.locals["sub_segments"])
    node = to_pyval(fr.locals["trie_node"])
    d = fr.locals["self"].fields["_cache"]
    it = as_int_term(i)
    unfold_listed(E, P, segs, it)
    unfold_listed(E, P, segs, it - 1)
    return [("prefix-is-the-validated-input", mk_bool(P == ops.seq_term_as(fr.locals["node_prefix_input"], "int")))] + \
        cadd_state(d, has0, val0, P, node, segs, it)


def cdel_setup(E):
    c = mk_cache(E)
    E.ghost["cache0"] = c.fields["_cache"].snapshot()
    return {"self": c, "prefix": E.fresh_seq("prefix", "tuple", "int")}


def cdel_cases(E, ctx):
    has0, val0 = E.ghost["cache0"]
    p = ops.seq_term_as(ctx.prefix, "int")

    def post():
        d = cache_of(ctx)
        if d is None:
            return [("has-a-cache-dictionary", False)]
        return [("only-that-entry-is-gone", mk_bool(z3.Select(d.has, XP) == z3.And(z3.Select(has0, XP), XP != p))),
                ("other-entries-untouched", mk_bool(z3.Implies(XP != p, z3.Select(d.val, XP) == z3.Select(val0, XP)))),
                ("segment-is-a-suffix-of-its-key", mk_bool(suffix_inv(d)))]
    d = cache_of(ctx)
    return [Case("deleted", returns=lambda: None, post=post, modifies=[d]),
            Case("malformed-nibbles", raises=ValueError, modifies=[])]


def cinit_cases(E, ctx):
    def post():
        d = cache_of(ctx)
        if d is None:
            return [("has-a-cache-dictionary", False)]
        return [("empty", d.has is None or mk_bool(z3.Not(z3.Select(d.has, XP))))]
    return [Case("fresh-cache", returns=lambda: None, post=post, modifies=[ctx.self])]


def register4(reg):
    g = "fog"
    F = MOD + ":TrieFrontierCache."
    reg.add(g, Contract(F + "__init__", ["self"], cinit_cases, setup=lambda E: {"self": Obj(cache_cls(E), {})},
                        props=("C09",), callee=False))
    reg.add(g, Contract(F + "get", ["self", "prefix"], cget_cases, setup=cget_setup, props=("C09",), callee=False))
    reg.add(g, Contract(F + "delete", ["self", "prefix"], cdel_cases, setup=cdel_setup, props=("C09",), callee=False))
    reg.add(g, Contract(F + "add", ["self", "node_prefix_input", "trie_node", "sub_segments"], cadd_cases,
                        setup=cadd_setup, props=("C09",), callee=False,
                        loops={0: LoopSpec(cadd_inv, havoc=lambda fr: [fr.locals["self"].fields["_cache"]],
                                           fresh={"segment": "unbound", "new_prefix": "unbound"})}))
