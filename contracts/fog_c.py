"""C11: HexaryTrieFog -- the functions that do not need the nested validation loops of explore():
is_complete, mark_all_complete, nearest_right, nearest_unknown, _new_trie_fog, __init__.

sortedcontainers.SortedSet is an external dependency: it is modelled (assumed contract, DESIGN 6.1) as an object with
  members   its elements, as a dictionary nibble-tuple -> True (membership array `has`; the frame machinery sees every
            mutation of it)
  order     the same elements as a tuple in ascending (lexicographic) order
and the operations fog.py uses:  SortedSet(iterable), copy(), remove(x) [KeyError when absent], x in s, len(s),
s[i] [IndexError out of range], s.bisect(k) [number of elements <= k].  The two views are linked where an operation
looks at them: an element read by index is a member; bisect's result splits `order` around the key."""
import z3

from pyvc import ops, specfn, lib, interp as I
from pyvc.interp import LoopSpec
from pyvc.sym import (SSeq, SInt, SBool, Obj, DictObj, ExcObj, PyRaise, SeqI, SeqSeqI, IntS, mk_bool, mk_int,
                      as_int_term, Unsupported)
from pyvc.unit import Contract, Case, Is
from contracts import objs
from contracts import hexmodel as HM

MOD = "trie.fog"
lexlt = specfn.lexlt


class _SortedSetCls:
    name = "SortedSet"

    def lookup(self, name):
        return None

    def mro(self):
        return [self]

    def is_exception(self):
        return False


SS = _SortedSetCls()


def is_ss(v):
    return isinstance(v, Obj) and v.cls is SS


def mk_sorted_set(E, has=None, order=None, base="unexplored"):
    d = E.fresh_dict(base, "tuple", "bool")
    if has is not None:
        d.has = has
    d.val = z3.K(SeqI, z3.BoolVal(True))
    if order is None:
        order = E.fresh_seq(base + ".order", "tuple", "tuple").t
    o = Obj(SS, {"members": d, "order": SSeq(order, "tuple", "tuple")})
    return o


def ss_new(E, it=None):
    """SortedSet(iterable) for the iterables fog.py passes: a set display / tuple of concrete tuples"""
    items = [] if it is None else E.concrete_items(it) if not isinstance(it, I._SetLit) else list(it.items)
    if items is None:
        raise Unsupported("SortedSet over a symbolic iterable")
    has = z3.K(SeqI, z3.BoolVal(False))
    conc = []
    for x in items:
        if not (isinstance(x, tuple) and all(isinstance(y, int) for y in x)):
            raise Unsupported("SortedSet element %r" % (x,))
        conc.append(x)
    conc = sorted(set(conc))
    for x in conc:
        has = z3.Store(has, ops.seq_term(x), z3.BoolVal(True))
    from pyvc.sym import seqseq_const
    return mk_sorted_set(E, has, seqseq_const(conc))


def ss_attr(E, obj, name):
    if not is_ss(obj):
        return NotImplemented
    d = obj.fields["members"]
    if name == "copy":
        def copy(E2):
            return mk_sorted_set(E2, d.has, obj.fields["order"].t)
        return I.Builtin("SortedSet.copy", copy)
    if name == "remove":
        def remove(E2, x):
            E2.del_item(d, x)                    # KeyError when absent; counts as a write to this set
            old = obj.fields["order"].t
            new = E2.fresh_seq("order", "tuple", "tuple")
            E2.assume(mk_bool(z3.Length(new.t) == z3.Length(old) - 1))
            E2.check_mut(obj) if hasattr(E2, "check_mut") else None
            obj.fields["order"] = new
            return None
        return I.Builtin("SortedSet.remove", remove)
    if name == "bisect":
        def bisect(E2, key):
            s = obj.fields["order"].t
            k = ops.seq_term_as(key, "int")
            idx = E2.fresh_int("bisect")
            n = z3.Length(s)
            # bisect_right: everything before idx is <= key, everything from idx on is > key (instantiated at the two
            # neighbours the callers look at)
            E2.assume(mk_bool(z3.And(idx.t >= 0, idx.t <= n)))
            E2.assume(mk_bool(z3.Implies(idx.t > 0, z3.Not(lexlt(k, s[idx.t - 1])))))
            E2.assume(mk_bool(z3.Implies(idx.t < n, lexlt(k, s[idx.t]))))
            E2.ghost.setdefault("bisects", []).append((obj, k, idx.t))
            return idx
        return I.Builtin("SortedSet.bisect", bisect)
    return NotImplemented


def ss_contains(E, cont, x):
    if not is_ss(cont):
        return NotImplemented
    return E.dict_contains(cont.fields["members"], x)


def ss_getitem(E, base, key):
    if not is_ss(base):
        return NotImplemented
    s = base.fields["order"]
    n = mk_int(z3.Length(s.t))
    j, ok = ops.norm_index(key, n)
    if not E.decide(ok):
        E.raise_exc(IndexError, "list index out of range")
    e = z3.simplify(s.t[j])
    E.assume(mk_bool(z3.Select(base.fields["members"].has, e)))       # an element of `order` is a member
    from contracts.seqspec import allnib
    E.assume(mk_bool(allnib(e)))
    return SSeq(e, "tuple", "int", rng=(0, 15))


_orig_len = lib.b_len


def ss_len(E, v):
    if is_ss(v):
        return mk_int(z3.Length(v.fields["order"].t))
    return _orig_len(E, v)


def install():
    lib.obj_attr_hook = ss_attr
    lib.contains_hook = ss_contains
    lib.getitem_hook = ss_getitem
    lib.b_len = ss_len
    if "len" in lib.BUILTINS:
        lib.BUILTINS["len"] = I.Builtin("len", ss_len)
    lib.EXT["sortedcontainers.SortedSet"] = lambda E, it=None: ss_new(E, it)


# ---------------------------------------------------------------------------------------------------
def fog_cls(E):
    return objs.cls_of(E, MOD, "HexaryTrieFog")


def mk_fog(E):
    s = mk_sorted_set(E)
    n = z3.Length(s.fields["order"].t)
    x = z3.Const("x!mem", SeqI)
    # link of the two views of the set (assumed contract of SortedSet): it has no element iff `order` is empty
    E.assume(mk_bool((n == 0) == z3.ForAll([x], z3.Not(z3.Select(s.fields["members"].has, x)))))
    return Obj(fog_cls(E), {"_unexplored_prefixes": s})


def complete_cases(E, ctx):
    s = ctx.self.fields["_unexplored_prefixes"]
    has = s.fields["members"].has
    x = z3.Const("x!mem", SeqI)
    return [Case("answer", returns=lambda: mk_bool(z3.ForAll([x], z3.Not(z3.Select(has, x)))))]


# nearest_right ------------------------------------------------------------------------------------------
def nr_setup(E):
    return {"self": mk_fog(E), "key_input": HM.nibs(E, "key_input")}


def member_and_adjacent(E, ctx, r, right_only):
    s = ctx.self.fields["_unexplored_prefixes"]
    has = s.fields["members"].has
    K = ops.seq_term_as(ctx.key_input, "int")
    rt = ops.seq_term_as(r, "int")
    contains_key = z3.PrefixOf(rt, K)
    if right_only:
        pos = z3.Or(contains_key, lexlt(K, rt))
    else:
        pos = z3.BoolVal(True)
    return [("is-an-unexplored-prefix", mk_bool(z3.Select(has, rt))),
            ("contains-the-key-or-lies-to-its-right", mk_bool(pos))]


def nr_cases(E, ctx):
    s = ctx.self.fields["_unexplored_prefixes"]
    n = z3.Length(s.fields["order"].t)
    return [Case("found", when=mk_bool(n > 0), ensures=lambda r: member_and_adjacent(E, ctx, r, True)),
            Case("nothing-left", when=mk_bool(n == 0), raises=objs.exc(E, "PerfectVisibility")),
            Case("nothing-to-the-right", when=mk_bool(n > 0), raises=objs.exc(E, "FullDirectionalVisibility"))]


def nu_cases(E, ctx):
    s = ctx.self.fields["_unexplored_prefixes"]
    n = z3.Length(s.fields["order"].t)
    return [Case("found", when=mk_bool(n > 0), ensures=lambda r: member_and_adjacent(E, ctx, r, False)),
            Case("nothing-left", when=mk_bool(n == 0), raises=objs.exc(E, "PerfectVisibility"))]


def register(reg):
    install()
    g = "fog"
    F = MOD + ":HexaryTrieFog."
    reg.add(g, Contract(F + "is_complete", ["self"], complete_cases, setup=lambda E: {"self": mk_fog(E)},
                        props=("C11",), callee=False))
    reg.add(g, Contract(F + "nearest_right", ["self", "key_input"], nr_cases, setup=nr_setup, props=("C11",),
                        callee=False))
