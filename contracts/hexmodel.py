"""Ghost model of the hexary trie (DESIGN 5.1), ideal-hash reading.

    HNode = HBlank | HLeaf(path, val) | HExt(path, child: HRef) | HBranch(c0..c15: HRef, val)
    HRef  = RBlank | RHash(h) | REmb(node)

Raw nodes in the code are Python lists with identity (2 or 17 slots); `alpha` maps a raw node to its HNode and
`ref_of` a slot value to its HRef.  A slot of a node decoded from the database holds an `SRef`: a reference that
has not been looked at yet; `get_node` on an embedded reference materialises the child list *into the slot it was
read from*, so parent slot and returned list alias exactly as `decode_node` makes them (DESIGN D.2).

The hex-prefix encoding is opaque at this level: HPK(path, is_leaf) with hp_path / hp_flag as its inverse
(lemma hp_roundtrip, C16).  The database stores rlp(node) under keccak: `rlpdec(unkeccak(h))` is the node a hash
denotes (A-HASH + the assumed rlp round trip), so what a root means does not depend on the database.

Spec functions (uninterpreted; unfolded one step at the node/key pairs that occur):
    hlk(n, k)      value stored under nibble path k below node n (empty = none)
"""
import z3

from pyvc import ops, specfn
from pyvc.sym import SSeq, SBool, ListObj, V, SeqI, BoolS, IntS, mk_bool, mk_int, seq_const, Unsupported

HNode = z3.Datatype("HNode")
HRef = z3.Datatype("HRef")
HNode.declare("HBlank")
HNode.declare("HLeaf", ("lpath", SeqI), ("lval", SeqI))
HNode.declare("HExt", ("epath", SeqI), ("echild", HRef))
HNode.declare("HBranch", *([("c%d" % i, HRef) for i in range(16)] + [("bval", SeqI)]))
HRef.declare("RBlank")
HRef.declare("RHash", ("rhash", SeqI))
HRef.declare("REmb", ("remb", HNode))
HNode, HRef = z3.CreateDatatypes(HNode, HRef)

rlpenc = z3.Function("rlpenc", HNode, SeqI)       # rlp.codec.encode_raw of the raw node (assumed contract, 6.1)
rlpdec = z3.Function("rlpdec", SeqI, HNode)       # rlp.decode
HPK = z3.Function("hpk", SeqI, BoolS, SeqI)       # hex-prefix encoding of (nibbles, is_leaf)
hp_path = z3.Function("hp_path", SeqI, SeqI)
hp_flag = z3.Function("hp_flag", SeqI, BoolS)
hlk = z3.Function("hlk", HNode, SeqI, SeqI)
unk = specfn.unkeccak


def child(D, i):
    return getattr(HNode, "c%d" % i)(D)


def hnode_of_hash(h):
    return rlpdec(unk(h))


def blank_node_hash(E):
    return seq_const(E.loader.load("trie.constants").ns["BLANK_NODE_HASH"])


def deref(E, r):
    """node a reference denotes"""
    return z3.If(HRef.is_RBlank(r), HNode.HBlank,
                 z3.If(HRef.is_RHash(r), z3.If(HRef.rhash(r) == blank_node_hash(E), HNode.HBlank, hnode_of_hash(HRef.rhash(r))),
                       HRef.remb(r)))


class SRef(V):
    """a child reference that has not been inspected: term of sort HRef; `origin` is the list slot it was read from"""
    __slots__ = ("t", "origin")

    def __init__(self, t, origin=None):
        self.t = t
        self.origin = origin

    def with_origin(self, lst, j):
        return SRef(self.t, (lst, j))

    def py_truth(self):
        # b'' is falsy; a hash (32 bytes) and a list (2 / 17 slots) are truthy
        return mk_bool(z3.Not(HRef.is_RBlank(self.t)))

    def py_eq(self, other):
        return mk_bool(self.t == ref_of(other))

    def py_isinstance(self, cls):
        if cls is list:
            return mk_bool(HRef.is_REmb(self.t))
        if cls is bytes:
            return mk_bool(z3.Not(HRef.is_REmb(self.t)))
        raise Unsupported("isinstance(reference, %r)" % (cls,))

    def __repr__(self):
        return "SRef(%s)" % self.t


def hpk_parts(t):
    """(path term, flag term) of a hex-prefix key term; read off the constructor when it is HPK(p, f)"""
    t = z3.simplify(t)
    if z3.is_app(t) and t.decl().eq(HPK):
        return t.arg(0), t.arg(1)
    return hp_path(t), hp_flag(t)


def ref_of(v):
    """HRef term of a slot value / a value handed to get_node"""
    if isinstance(v, SRef):
        return v.t
    if isinstance(v, ListObj):
        return HRef.REmb(alpha(v))
    if isinstance(v, bytes):
        return HRef.RBlank if len(v) == 0 else HRef.RHash(seq_const(v))
    if isinstance(v, SSeq) and v.kind == "bytes":
        return z3.If(z3.Length(v.t) == 0, HRef.RBlank, HRef.RHash(v.t))
    raise Unsupported("not a node reference: %r" % (v,))


def bytes_of(v):
    if isinstance(v, bytes):
        return seq_const(v)
    if isinstance(v, SSeq) and v.kind == "bytes":
        return v.t
    raise Unsupported("not a byte string: %r" % (v,))


def alpha(v):
    """HNode term of a raw node value (b'', a 2-list or a 17-list), computed from the current heap"""
    if isinstance(v, bytes) and len(v) == 0:
        return HNode.HBlank
    if isinstance(v, SSeq) and v.kind == "bytes":
        return HNode.HBlank        # only b'' is a raw node among byte strings (callers check)
    if isinstance(v, ListObj) and v.items is not None:
        src = getattr(v, "model_term", None)
        if src is not None and len(v.items) == len(v.model_items) and all(a is b for a, b in zip(v.items, v.model_items)):
            return src          # an unmodified list materialised from the node term `src` denotes `src`
        if len(v.items) == 2:
            p, f = hpk_parts(bytes_of(v.items[0]))
            second = v.items[1]
            if z3.is_true(f):
                return HNode.HLeaf(p, bytes_of(second))
            if z3.is_false(f):
                return HNode.HExt(p, ref_of(second))
            if isinstance(second, (bytes, SSeq)):
                return z3.If(f, HNode.HLeaf(p, bytes_of(second)), HNode.HExt(p, ref_of(second)))
            return HNode.HExt(p, ref_of(second))
        if len(v.items) == 17:
            return HNode.HBranch(*([ref_of(x) for x in v.items[:16]] + [bytes_of(v.items[16])]))
    raise Unsupported("not a raw hexary node: %r" % (v,))


def materialize(E, D, origin=None):
    """raw node (b'' or a fresh list) for the node term D; forks over the node kinds that are feasible"""
    k = E.choose([mk_bool(HNode.is_HBlank(D)), mk_bool(HNode.is_HLeaf(D)), mk_bool(HNode.is_HExt(D)),
                  mk_bool(HNode.is_HBranch(D))])
    if k == 0:
        return b""
    if k == 1:
        lst = ListObj(items=[SSeq(HPK(HNode.lpath(D), z3.BoolVal(True)), "bytes"), SSeq(z3.simplify(HNode.lval(D)), "bytes")])
    elif k == 2:
        lst = ListObj(items=[SSeq(HPK(HNode.epath(D), z3.BoolVal(False)), "bytes"), SRef(z3.simplify(HNode.echild(D)))])
    else:
        lst = ListObj(items=[SRef(z3.simplify(child(D, i))) for i in range(16)] + [SSeq(z3.simplify(HNode.bval(D)), "bytes")])
    E.assume(mk_bool(z3.Length(lst.items[0].t) >= 1)) if k in (1, 2) else None     # a hex-prefix key is never empty
    lst.model_term = z3.simplify(D)
    lst.model_items = tuple(lst.items)
    unfold_wf(E, D)
    fl = E.ghost.setdefault("followed", [])
    if not any(x.eq(lst.model_term) for x in fl):
        fl.append(lst.model_term)
    if origin is not None:
        plist, j = origin
        plist.items[j] = lst          # the parent's slot *is* this list (decode_node returns the embedded list itself)
    return lst


def allnib(t):
    from contracts.seqspec import allnib as _a
    return _a(t)


hwfp = z3.Function("hwfp", HNode, BoolS)      # deep well-formedness (the node and every embedded descendant)


def unfold_wf(E, D):
    """definition of hwfp at D: the node's own conditions plus hwfp of its embedded children"""
    D = z3.simplify(D)
    done = E.ghost.setdefault("wf_unfolded", [])
    if any(x.eq(D) for x in done):
        return
    done.append(D)
    E.assume(mk_bool(hwfp(D) == hwf(E, D)))
    # consequences for a branch obtained by a store at a symbolic nibble (valid slot by slot; they spare the solver
    # the case split over the nibble): references stay well formed, and the number of entries does not drop when the
    # stored reference is not blank (it drops by at most one when it is)
    BNHt = blank_node_hash(E)
    for (Dn, Dp, js, rv) in E.ghost.get("sym_stores", []):
        if Dn.eq(D):
            ok_rv = ok_reference(E, rv)
            E.assume(mk_bool(z3.Implies(z3.And(hwf_children(E, Dp), ok_rv), hwf_children(E, Dn))))
            E.assume(mk_bool(z3.Implies(z3.Not(HRef.is_RBlank(rv)), entry_count(Dn) >= entry_count(Dp))))
            E.assume(mk_bool(entry_count(Dn) >= entry_count(Dp) - 1))
            unfold_wf(E, Dp)
    # definitional equations of allnib on the constructors of the node's path (e.g. a path built as (i,) ++ p)
    from contracts.seqspec import allnib_of
    from contracts.nibbles_c import B2N
    side = []
    for pth in (HNode.lpath(D), HNode.epath(D)):
        allnib_of(z3.simplify(pth), side, B2N)
    for f in side:
        E.assume(mk_bool(f))


def unfold_wf_deep(E, D, depth=3):
    """hwfp unfolded at D and, for a node built on this path, at its embedded children"""
    D = z3.simplify(D)
    unfold_wf(E, D)
    if depth <= 0 or not is_constructor(D):
        return
    name = D.decl().name()
    refs = []
    if name == "HExt":
        refs = [D.arg(1)]
    elif name == "HBranch":
        refs = [D.arg(i) for i in range(16)]
    for r in refs:
        for leaf in ref_leaves(r):
            if z3.is_app(leaf) and leaf.decl().name() == "REmb":
                unfold_wf_deep(E, leaf.arg(0), depth - 1)


def hwf(E, D, depth=1):
    """well-formedness of a node as the trie writes it (one level; embedded children deeply through hwfp)"""
    ok_ref = lambda r: ok_reference(E, r)
    cnt = z3.If(z3.Length(HNode.bval(D)) > 0, 1, 0)
    for i in range(16):
        cnt = cnt + z3.If(HRef.is_RBlank(child(D, i)), 0, 1)
    return z3.And(
        z3.Implies(HNode.is_HLeaf(D), z3.And(allnib(HNode.lpath(D)), z3.Length(HNode.lval(D)) > 0)),
        # an extension has a non-empty path and leads to a branch (Yellow Paper: otherwise the paths are merged)
        z3.Implies(HNode.is_HExt(D), z3.And(allnib(HNode.epath(D)), z3.Length(HNode.epath(D)) > 0, ok_ref(HNode.echild(D)),
                                            z3.Not(HRef.is_RBlank(HNode.echild(D))),
                                            HNode.is_HBranch(deref(E, HNode.echild(D))))),
        # a branch keeps at least two of its 17 entries (otherwise it is normalised away)
        z3.Implies(HNode.is_HBranch(D), z3.And(cnt >= 2, *[ok_ref(child(D, i)) for i in range(16)])))


def entry_count(D):
    cnt = z3.If(z3.Length(HNode.bval(D)) > 0, 1, 0)
    for i in range(16):
        cnt = cnt + z3.If(HRef.is_RBlank(child(D, i)), 0, 1)
    return cnt


def ok_reference(E, r):
    """a reference as the trie writes it (the Yellow Paper's n(.)): a hash is 32 bytes, is not the blank-node hash and
    stands for a node whose rlp has at least 32 bytes; an embedded node is well formed, not blank and its rlp is
    shorter than 32 bytes"""
    BNH = blank_node_hash(E)
    return z3.And(z3.Implies(HRef.is_RHash(r), z3.And(z3.Length(HRef.rhash(r)) == 32, HRef.rhash(r) != BNH,
                                                     z3.Length(unk(HRef.rhash(r))) >= 32)),
                  z3.Implies(HRef.is_REmb(r), z3.And(hwfp(HRef.remb(r)), z3.Not(HNode.is_HBlank(HRef.remb(r))),
                                                    z3.Length(rlpenc(HRef.remb(r))) < 32)))


def hwf_children(E, D):
    """the references of a branch are well formed (the branch itself may have lost an entry and await
    normalisation)"""
    return z3.And(*[ok_reference(E, child(D, i)) for i in range(16)])


# ---------------------------------------------------------------------------------------------------
# lookup: one definitional step

def tail(k, n):
    return z3.simplify(z3.Extract(k, n, z3.Length(k) - n))


def ref_leaves(r, out=None):
    """the references a slot term can denote: the leaves of its if-then-else structure"""
    out = [] if out is None else out
    r = z3.simplify(r)
    if z3.is_app(r) and r.decl().kind() == z3.Z3_OP_ITE:
        ref_leaves(r.arg(1), out)
        ref_leaves(r.arg(2), out)
    else:
        if not any(x.eq(r) for x in out):
            out.append(r)
    return out


def resolve_ref(r):
    """node term a reference leaf denotes when that is visible syntactically (an embedded node, or the hash of the
    rlp of a node built on this path); None for an opaque reference"""
    r = z3.simplify(r)
    if not z3.is_app(r):
        return None
    name = r.decl().name()
    if name == "REmb":
        return r.arg(0)
    if name == "RHash":
        h = r.arg(0)
        if z3.is_app(h) and h.decl().eq(specfn.keccak):
            e = h.arg(0)
            if z3.is_app(e) and e.decl().eq(rlpenc):
                return e.arg(0)
    return None


def _mentions(X, D):
    """does the term X contain D as a sub-term?  (X = rlpdec(unkeccak(rhash(c3(D)))) or remb(echild(D)) ...)"""
    stack = [X]
    seen = 0
    while stack and seen < 200:
        t = stack.pop()
        seen += 1
        if t.eq(D):
            return True
        if z3.is_app(t):
            stack.extend(t.children())
    return False


def is_constructor(D):
    D = z3.simplify(D)
    return z3.is_app(D) and D.decl().name() in ("HBlank", "HLeaf", "HExt", "HBranch")


def has_rule(E, D):
    D = z3.simplify(D)
    for (Dres, fn, Dsrc) in E.ghost.get("hview_rules2", []):
        if Dres.eq(D) or Dsrc.eq(D):
            return True
    return False


def unfold_hlk(E, D, k, depth=1):
    """definitional step of hlk at (D, k).  With depth > 0 the children that are visible syntactically (nodes built
    on this path, embedded nodes) are unfolded in turn at the remaining key, and the view rules recorded by callee
    contracts are instantiated at the lookups that occur."""
    D, k = z3.simplify(D), z3.simplify(k)
    done = E.ghost.setdefault("hlk_unfolded", [])
    for (d2, k2) in done:
        if d2.eq(D) and k2.eq(k):
            return
    done.append((D, k))
    for (Dres, fn, Dsrc) in E.ghost.get("hview_rules2", []):
        if Dres.eq(D) or z3.simplify(Dsrc).eq(D):
            E.assume(mk_bool(fn(k)))
            if depth > 0:
                unfold_hlk(E, Dsrc, k, depth - 1)
                unfold_hlk(E, Dres, k, depth - 1)
    empty = z3.Empty(SeqI)
    lk = z3.Length(k)
    ep = HNode.epath(D)
    ext_next = deref(E, HNode.echild(D))
    br = empty
    kt = tail(k, 1)
    for i in reversed(range(16)):
        nx = deref(E, child(D, i))
        br = z3.If(k[0] == i, hlk(nx, kt), br)
    body = z3.If(HNode.is_HBlank(D), empty,
                 z3.If(HNode.is_HLeaf(D), z3.If(k == HNode.lpath(D), HNode.lval(D), empty),
                       z3.If(HNode.is_HExt(D), z3.If(z3.PrefixOf(ep, k), hlk(ext_next, tail(k, z3.Length(ep))), empty),
                             z3.If(lk == 0, HNode.bval(D), br))))
    E.assume(mk_bool(hlk(D, k) == body))
    # consequences of the unfolding for a branch that was read / written at a symbolic nibble j (they spare the solver
    # the 16 x 16 case split): the lookup goes through slot j iff the key starts with j, and a store at j leaves
    # every other lookup as it was
    for (Dr, jr, chain) in E.ghost.get("sym_reads", []):
        if Dr.eq(D):
            E.assume(mk_bool(z3.Implies(z3.And(lk > 0, k[0] == jr), hlk(D, k) == hlk(deref(E, chain), kt))))
    for (Dn, Dp, js, rv) in E.ghost.get("sym_stores", []):
        if Dn.eq(D):
            E.assume(mk_bool(z3.Implies(z3.And(lk > 0, k[0] == js), hlk(D, k) == hlk(deref(E, rv), kt))))
            E.assume(mk_bool(z3.Implies(z3.And(lk > 0, k[0] != js), hlk(D, k) == hlk(Dp, k))))
            E.assume(mk_bool(z3.Implies(lk == 0, hlk(D, k) == hlk(Dp, k))))
            if depth > 0:
                unfold_hlk(E, Dp, k, depth - 1)
                X = resolve_ref(rv)
                if X is not None:
                    unfold_hlk(E, X, kt, depth - 1)
    # a blank child holds nothing (definition of hlk at HBlank, at the two keys a step can continue with)
    E.assume(mk_bool(z3.And(hlk(HNode.HBlank, kt) == empty, hlk(HNode.HBlank, tail(k, z3.Length(ep))) == empty)))
    if depth > 0 and not is_constructor(D):
        # an opaque node (an argument, a node read from the database): the children that were followed on this path
        # (materialised by get_node) are unfolded at the keys a step from D continues with
        for X in list(E.ghost.get("followed", [])):
            if X.eq(D):
                continue
            if _mentions(X, D):
                unfold_hlk(E, X, kt, depth - 1)
                unfold_hlk(E, X, tail(k, z3.Length(ep)), depth - 1)
        for (Dres, fn, Dsrc) in list(E.ghost.get("hview_rules2", [])):
            if _mentions(z3.simplify(Dsrc), D) and not Dres.eq(D):
                unfold_hlk(E, Dres, kt, depth - 1)
                unfold_hlk(E, Dres, tail(k, z3.Length(ep)), depth - 1)
    if depth <= 0 or not is_constructor(D):
        return
    name = D.decl().name()
    nexts = []
    if name == "HExt":
        for leaf in ref_leaves(D.arg(1)):
            nexts.append((leaf, tail(k, z3.Length(D.arg(0)))))
    elif name == "HBranch":
        for i in range(16):
            for leaf in ref_leaves(D.arg(i)):
                nexts.append((leaf, kt))
    seen = []
    for (leaf, kk) in nexts:
        X = resolve_ref(leaf)
        if X is None or any(x.eq(X) for x in seen):
            continue
        seen.append(X)
        # the reference denotes X: make that visible (deref unfolds to X by the hash / rlp facts)
        E.assume(mk_bool(z3.Implies(z3.Not(HNode.is_HBlank(X)), deref(E, leaf) == X))) if leaf.decl().name() == "REmb" else None
        if is_constructor(X) or has_rule(E, X):
            unfold_hlk(E, X, kk, depth - 1)


hneed = z3.Function("hneed", HNode, SeqI, SeqI, BoolS)     # the hashed node h is dereferenced by a walk of key k below D


def ref_needed(E, r, k, h):
    """following the reference r with the rest k of the key dereferences the hashed node h"""
    return z3.If(HRef.is_RHash(r),
                 z3.And(HRef.rhash(r) != blank_node_hash(E),
                        z3.Or(HRef.rhash(r) == h, hneed(hnode_of_hash(HRef.rhash(r)), k, h))),
                 z3.If(HRef.is_REmb(r), hneed(HRef.remb(r), k, h), z3.BoolVal(False)))


def unfold_hneed(E, D, k, h):
    """definitional step of hneed at (D, k): an extension whose path the key runs through needs what its child needs
    (and the child itself when it is hashed), a branch the child selected by the first nibble; nothing else"""
    D, k = z3.simplify(D), z3.simplify(k)
    ep = HNode.epath(D)
    kt = tail(k, 1)
    br = z3.BoolVal(False)
    for i in reversed(range(16)):
        br = z3.If(k[0] == i, ref_needed(E, child(D, i), kt, h), br)
    body = z3.If(HNode.is_HExt(D), z3.And(z3.PrefixOf(ep, k), ref_needed(E, HNode.echild(D), tail(k, z3.Length(ep)), h)),
                 z3.If(HNode.is_HBranch(D), z3.And(z3.Length(k) > 0, br), z3.BoolVal(False)))
    E.assume(mk_bool(hneed(D, k, h) == body))
    # a branch read / written at a symbolic nibble (see unfold_hlk): the selected reference decides
    for (Dr, jr, chain) in E.ghost.get("sym_reads", []):
        if Dr.eq(D):
            E.assume(mk_bool(z3.Implies(z3.And(z3.Length(k) > 0, k[0] == jr),
                                        hneed(D, k, h) == ref_needed(E, chain, kt, h))))


hrefs = z3.Function("hrefs", HNode, SeqI, IntS)     # how often the hashed node h is referenced below D (tree unfolding)


def ref_count_of(E, r, h):
    """contribution of the reference r to the count of h: the reference itself, plus what the node it denotes holds"""
    hashed = z3.And(HRef.is_RHash(r), HRef.rhash(r) != blank_node_hash(E))
    return z3.If(hashed, z3.If(HRef.rhash(r) == h, 1, 0) + hrefs(hnode_of_hash(HRef.rhash(r)), h),
                 z3.If(HRef.is_REmb(r), hrefs(HRef.remb(r), h), 0))


def hrefs_body(E, D, h):
    br = 0
    for i in range(16):
        br = br + ref_count_of(E, child(D, i), h)
    return z3.If(HNode.is_HExt(D), ref_count_of(E, HNode.echild(D), h), z3.If(HNode.is_HBranch(D), br, 0))


def unfold_hrefs(E, D, h, depth=3):
    """definitional step of hrefs at D (and, for a node built on this path, at the nodes its references visibly
    denote, `depth` levels down); for a branch written at a symbolic slot the consequence of the definition (lemma
    refs_store: only that slot's contribution changes) is added as well"""
    D = z3.simplify(D)
    if depth > 0 and is_constructor(D):
        name = D.decl().name()
        kids = [D.arg(1)] if name == "HExt" else ([D.arg(i) for i in range(16)] if name == "HBranch" else [])
        for kr in kids:
            for leaf in ref_leaves(kr):
                X = resolve_ref(leaf)
                if X is not None:
                    # the hash of a node built here denotes that node (A-HASH + rlp round trip)
                    if leaf.decl().name() == "RHash":
                        E.assume(mk_bool(hnode_of_hash(leaf.arg(0)) == X))
                    unfold_hrefs(E, X, h, depth - 1)
    done = E.ghost.setdefault("hrefs_unfolded", [])
    if any(d.eq(D) and hh.eq(h) for (d, hh) in done):
        return
    done.append((D, h))
    E.assume(mk_bool(hrefs(D, h) == hrefs_body(E, D, h)))
    E.assume(mk_bool(hrefs(D, h) >= 0))
    if depth > 0 and not is_constructor(D):
        # an opaque node: the children that were followed on this path (materialised by get_node) are unfolded too
        for X in list(E.ghost.get("followed", [])):
            if not X.eq(D) and _mentions(X, D):
                unfold_hrefs(E, X, h, depth - 1)
    for (Dn, Dp, js, rv) in E.ghost.get("sym_stores", []):
        if Dn.eq(D):
            old = child(Dp, 15)
            for i in reversed(range(15)):
                old = z3.If(js == i, child(Dp, i), old)
            E.assume(mk_bool(hrefs(Dn, h) == hrefs(Dp, h) - ref_count_of(E, old, h) + ref_count_of(E, rv, h)))
            unfold_hrefs(E, Dp, h, depth)
            for leaf in ref_leaves(rv):
                X = resolve_ref(leaf)
                if X is not None and depth > 0:
                    if leaf.decl().name() == "RHash":
                        E.assume(mk_bool(hnode_of_hash(leaf.arg(0)) == X))
                    unfold_hrefs(E, X, h, depth - 1)


class HexDbInvariant:
    """store invariant: every entry is rlp(node) of a well-formed node under its keccak"""

    def on_read(self, E, d, kt, vt):
        E.ghost.setdefault("opened", []).append(z3.simplify(kt))
        E.assume(mk_bool(vt == unk(kt)))
        E.assume(mk_bool(specfn.keccak(unk(kt)) == kt))
        D = hnode_of_hash(kt)
        E.assume(mk_bool(hwfp(D)))
        unfold_wf(E, D)
        E.assume(mk_bool(rlpenc(D) == unk(kt)))
        E.assume(mk_bool(z3.Length(unk(kt)) >= 1))          # an rlp encoding is never empty
        E.assume(mk_bool(z3.Not(HNode.is_HBlank(D))))
        return unk(kt)

    def on_write(self, E, d, kt, vt):
        E.assume(mk_bool(z3.Implies(z3.Select(d.has, kt), z3.Select(d.val, kt) == unk(kt))))
        E.prove("store-write/content-addressed", mk_bool(kt == specfn.keccak(vt)), kind="frame",
                detail="db[k] = v is executed with k = keccak(v)")
        E.prove("store-write/existing-entry-unchanged",
                mk_bool(z3.Implies(z3.Select(d.has, kt), z3.Select(d.val, kt) == vt)), kind="frame")


def mk_trie(E, pruning=None):
    from contracts import objs
    t = objs.mk_hexary(E, pruning=pruning)
    t.fields["db"].hooks = HexDbInvariant()
    E.ghost["hex_model"] = True
    return t


def nibs(E, base):
    k = E.fresh_seq(base, "tuple", "int")
    k.rng = (0, 15)
    E.assume(mk_bool(allnib(k.t)))
    return k


# ---------------------------------------------------------------------------------------------------
# assumed contracts on the rlp library (DESIGN 6.1), in the datatype view

def x_rlp_decode(E, v):
    """rlp.decode(bytes) returns a fresh list structure for the node the bytes encode"""
    t = bytes_of(v)
    return materialize(E, rlpdec(t))


def x_encode_raw(E, node):
    """rlp.codec.encode_raw(raw node) = rlpenc(alpha(node)); decoding gives the node back"""
    D = alpha(node)
    r = z3.simplify(rlpenc(D))
    E.assume(mk_bool(rlpdec(r) == D))
    E.assume(mk_bool(z3.Length(r) >= 1))
    # the encoding of a list starts with a byte >= 0xc0: it is neither b'' nor rlp(b'') = b'\x80'
    E.assume(mk_bool(z3.Implies(z3.Not(HNode.is_HBlank(D)), r[0] >= 192)))
    return SSeq(r, "bytes", "int")


def branch_slot(E, lst, j):
    """node[i] for a symbolic nibble i on a branch whose child slots are all unexplored references, in a unit that
    never mutates nodes: the reference selected by i, without a 16-way split"""
    if not E.ghost.get("read_only") or lst.items is None or len(lst.items) != 17:
        return NotImplemented
    if not all(isinstance(x, SRef) for x in lst.items[:16]):
        return NotImplemented
    jt = j if isinstance(j, z3.ExprRef) else z3.IntVal(j)
    if not E.implied(mk_bool(z3.And(jt >= 0, jt <= 15))):
        return NotImplemented
    t = lst.items[15].t
    for i in reversed(range(15)):
        t = z3.If(jt == i, lst.items[i].t, t)
    return SRef(z3.simplify(t))


def branch_slot_any(E, lst, j):
    """node[i] for a symbolic nibble i on a 17-slot branch (any slot contents): the reference selected by i.
    Identity of an embedded child is forgotten (value semantics); see DESIGN section 0 on aliasing."""
    if not E.ghost.get("hex_value_slots") or lst.items is None or len(lst.items) != 17:
        return NotImplemented
    jt = j if isinstance(j, z3.ExprRef) else z3.IntVal(j)
    if not E.implied(mk_bool(z3.And(jt >= 0, jt <= 15))):
        return NotImplemented
    t = ref_of(lst.items[15])
    for i in reversed(range(15)):
        t = z3.If(jt == i, ref_of(lst.items[i]), t)
    t = z3.simplify(t)
    try:
        E.ghost.setdefault("sym_reads", []).append((z3.simplify(alpha(lst)), jt, t))
    except Unsupported:
        pass
    return SRef(t)


def branch_slot_store(E, lst, j, val):
    """node[i] = v for a symbolic nibble i on a 17-slot branch: every child slot becomes If(i == p, v, old)"""
    if not E.ghost.get("hex_value_slots") or lst.items is None or len(lst.items) != 17:
        return False
    jt = j if isinstance(j, z3.ExprRef) else z3.IntVal(j)
    if not E.implied(mk_bool(z3.And(jt >= 0, jt <= 15))):
        return False
    E.check_mut(lst)
    rv = ref_of(val)
    try:
        Dprev = z3.simplify(alpha(lst))
    except Unsupported:
        Dprev = None
    for p in range(16):
        lst.items[p] = SRef(z3.simplify(z3.If(jt == p, rv, ref_of(lst.items[p]))))
    if Dprev is not None:
        E.ghost.setdefault("sym_stores", []).append((z3.simplify(alpha(lst)), Dprev, jt, z3.simplify(rv)))
    return True


def install():
    from pyvc import lib
    if branch_slot_any not in lib.SLOT_HOOKS:
        lib.SLOT_HOOKS.append(branch_slot_any)
    if branch_slot_store not in lib.SLOT_STORE_HOOKS:
        lib.SLOT_STORE_HOOKS.append(branch_slot_store)
    lib.EXT["rlp.decode"] = x_rlp_decode
    lib.EXT["rlp.codec.encode_raw"] = x_encode_raw
    if branch_slot not in lib.SLOT_HOOKS:
        lib.SLOT_HOOKS.append(branch_slot)


install()
