"""Contracts for trie/utils/nibbles.py -- property C16 (and the leaf facts C01/C02/C10 rely on).

Element-wise functions are verified in the array encoding (a sequence is (Array Int Int, length)); the callers
(hex-prefix encoding, the tries) reason structurally about Seq terms and use the same contracts through the
uninterpreted functions B2N / N2B together with the lemma instances proved here."""
import z3

from pyvc import ops
from pyvc.interp import LoopSpec
from pyvc.sym import ASeq, SSeq, SInt, SBool, ExcObj, IntS, SeqI, mk_bool, mk_int, as_int_term
from pyvc.unit import Contract, Case, TableSummary, NOTHING
from contracts import objs
from contracts.seqspec import allnib, allnib_of

MOD = "trie.utils.nibbles"

B2N = z3.Function("b2n", SeqI, SeqI)        # bytes -> nibbles
N2B = z3.Function("n2b", SeqI, SeqI)        # nibbles (valid, even length) -> bytes


def fresh_aseq(E, base, kind, lo=None, hi=None):
    n = E.fresh_name(base)
    a = ASeq(z3.Const(n + ".a", z3.ArraySort(IntS, IntS)), z3.Int(n + ".n"), kind)
    E.assume(mk_bool(a.n >= 0))
    if lo is not None:
        i = z3.Int(n + ".i")
        E.assume(mk_bool(z3.ForAll([i], z3.Implies(z3.And(i >= 0, i < a.n),
                                                    z3.And(z3.Select(a.arr, i) >= lo, z3.Select(a.arr, i) <= hi)),
                                   patterns=[z3.Select(a.arr, i)])))
    return a


def forall_idx(name, n, body, pats=None):
    i = z3.Int(name)
    b = body(i)
    return z3.ForAll([i], z3.Implies(z3.And(i >= 0, i < n), b), patterns=pats(i) if pats else [])


# ---------------------------------------------------------------------------------------------------
# tables

def _nib_lookup(E, key):
    if not E.decide(mk_bool(z3.And(as_int_term(key) >= 0, as_int_term(key) <= 255))):
        E.raise_exc(KeyError, key)
    k = as_int_term(key)
    return (mk_int(k / 16), mk_int(k % 16))


def _rev_lookup(E, key):
    if not (isinstance(key, tuple) and len(key) == 2):
        E.raise_exc(KeyError, key)
    a, b = as_int_term(key[0]), as_int_term(key[1])
    if not E.decide(mk_bool(z3.And(a >= 0, a <= 15, b >= 0, b <= 15))):
        E.raise_exc(KeyError, key)
    return mk_int(16 * a + b)


TABLES = {
    "NIBBLES_LOOKUPS": TableSummary(MOD, "NIBBLES_LOOKUPS", lambda k: (k // 16, k % 16), range(256), _nib_lookup),
    "REVERSE_NIBBLES_LOOKUP": TableSummary(MOD, "REVERSE_NIBBLES_LOOKUP", lambda k: 16 * k[0] + k[1],
                                           [(a, b) for a in range(16) for b in range(16)], _rev_lookup),
}


# ---------------------------------------------------------------------------------------------------
# bytes_to_nibbles

def b2n_pointwise(v, r):
    """r is the nibble expansion of the byte sequence v (both array-encoded)"""
    return [("length", mk_bool(r.n == 2 * v.n)),
            ("high-nibbles", mk_bool(forall_idx("j!hi", v.n, lambda j: z3.Select(r.arr, 2 * j) == z3.Select(v.arr, j) / 16))),
            ("low-nibbles", mk_bool(forall_idx("j!lo", v.n, lambda j: z3.Select(r.arr, 2 * j + 1) == z3.Select(v.arr, j) % 16)))]


def s_b2n(E, v):
    """structural view for callers: r = b2n(v) with its length, element range and (when |v| >= 1) its head"""
    t = ops.seq_term_as(v, "int")
    r = z3.Const(E.fresh_name("b2n"), SeqI)
    E.assume(mk_bool(r == B2N(t)))
    E.assume(mk_bool(z3.Length(r) == 2 * z3.Length(t)))
    E.assume(mk_bool(allnib(r)))
    E.assume(mk_bool(N2B(r) == t))                     # lemma nib_bytes_inverse/n2b.b2n
    E.assume(mk_bool(z3.Implies(z3.Length(t) >= 1, z3.And(r[0] == t[0] / 16, r[1] == t[0] % 16))))
    return SSeq(r, "tuple", "int", rng=(0, 15))


def b2n_setup(E):
    return {"value": fresh_aseq(E, "value", "bytes", 0, 255)}


def b2n_cases(E, ctx):
    v = ctx.value
    if isinstance(v, ASeq):
        return [Case("nibbles", ensures=lambda r: ([("tuple", isinstance(r, ASeq) and r.kind == "tuple")] +
                                                   (b2n_pointwise(v, r) if isinstance(r, ASeq) else [])),
                     rtype=lambda: _array_result(E, v))]
    return [Case("nibbles", returns=lambda: s_b2n(E, v))]


def _array_result(E, v):
    r = fresh_aseq(E, "b2n", "tuple")
    return r


def b2n_inv(E, fr, i):
    v = fr.locals["value"]
    out = fr.gen_out.val
    it = as_int_term(i)
    return [("length", mk_bool(out.n == 2 * it)),
            ("high", mk_bool(forall_idx("j!ih", it, lambda j: z3.Select(out.arr, 2 * j) == z3.Select(v.arr, j) / 16))),
            ("low", mk_bool(forall_idx("j!il", it, lambda j: z3.Select(out.arr, 2 * j + 1) == z3.Select(v.arr, j) % 16)))]


# ---------------------------------------------------------------------------------------------------
# nibbles_to_bytes

def inv_nibbles(E):
    return objs.exc(E, "InvalidNibbles")


def n2b_setup(E):
    # any tuple of ints (not necessarily nibbles)
    return {"nibbles": fresh_aseq(E, "nibbles", "tuple")}


def n2b_cases(E, ctx):
    n = ctx.nibbles
    if isinstance(n, ASeq):
        i = z3.Int("i!bad")
        bad = z3.Exists([i], z3.And(i >= 0, i < n.n, z3.Or(z3.Select(n.arr, i) < 0, z3.Select(n.arr, i) > 15)))
        odd = n.n % 2 == 1

        def ens(r):
            if not isinstance(r, ASeq):
                return [("bytes", False)]
            return [("bytes", r.kind == "bytes"), ("length", mk_bool(2 * r.n == n.n)),
                    ("packed", mk_bool(forall_idx("j!pk", r.n, lambda j: z3.Select(r.arr, j) ==
                                                  16 * z3.Select(n.arr, 2 * j) + z3.Select(n.arr, 2 * j + 1))))]
        return [Case("invalid-nibble", when=mk_bool(bad), raises=inv_nibbles(E)),
                Case("odd-length", when=mk_bool(z3.And(z3.Not(bad), odd)), raises=inv_nibbles(E)),
                Case("packed", when=mk_bool(z3.And(z3.Not(bad), z3.Not(odd))), ensures=ens)]
    return n2b_struct_cases(E, ops.seq_term_as(n, "int"))


def n2b_struct_cases(E, t):
    """structural view for callers (Seq terms): validity is the unfolded predicate allnib"""
    side = []
    ok = allnib_of(t, side, B2N)
    for f in side:
        E.assume(mk_bool(f))
    odd = z3.Length(t) % 2 == 1

    def ret():
        r = z3.Const(E.fresh_name("n2b"), SeqI)
        E.assume(mk_bool(r == N2B(t)))
        E.assume(mk_bool(2 * z3.Length(r) == z3.Length(t)))
        E.assume(mk_bool(B2N(r) == t))                 # lemma nib_bytes_inverse/b2n.n2b
        return SSeq(r, "bytes", "int")
    return [Case("invalid-nibble", when=mk_bool(z3.Not(ok)), raises=inv_nibbles(E)),
            Case("odd-length", when=mk_bool(z3.And(ok, odd)), raises=inv_nibbles(E)),
            Case("packed", when=mk_bool(z3.And(ok, z3.Not(odd))), returns=ret)]


def register_early(reg):
    pass


# ---------------------------------------------------------------------------------------------------
# lemma nib_bytes_inverse (array encoding): the two pointwise contracts are inverse to each other

def lemma_inverse_nb(E):
    """b2n(n2b(f)) = f for valid nibbles f of even length (instances of the two pointwise contracts at the byte
    that holds nibble k)"""
    f = fresh_aseq(E, "f", "tuple", 0, 15)
    E.assume(mk_bool(f.n % 2 == 0))
    b = fresh_aseq(E, "b", "bytes")
    E.assume(mk_bool(2 * b.n == f.n))
    r = fresh_aseq(E, "r", "tuple")
    E.assume(mk_bool(r.n == 2 * b.n))
    k = z3.Int("k!sk")
    E.assume(mk_bool(z3.And(k >= 0, k < f.n)))
    q = k / 2
    E.assume(mk_bool(z3.Select(b.arr, q) == 16 * z3.Select(f.arr, 2 * q) + z3.Select(f.arr, 2 * q + 1)))   # n2b at q
    E.assume(mk_bool(z3.Select(r.arr, 2 * q) == z3.Select(b.arr, q) / 16))                                   # b2n at q
    E.assume(mk_bool(z3.Select(r.arr, 2 * q + 1) == z3.Select(b.arr, q) % 16))
    for idx in (2 * q, 2 * q + 1):
        E.assume(mk_bool(z3.And(z3.Select(f.arr, idx) >= 0, z3.Select(f.arr, idx) <= 15)))
    E.prove("nib_bytes_inverse/b2n(n2b(f)):length", mk_bool(r.n == f.n), kind="lemma")
    E.prove("nib_bytes_inverse/b2n(n2b(f)):pointwise", mk_bool(z3.Select(r.arr, k) == z3.Select(f.arr, k)), kind="lemma")


def lemma_inverse_bn(E):
    """n2b(b2n(v)) = v for a byte string v; hence b2n is injective"""
    v = fresh_aseq(E, "v", "bytes", 0, 255)
    r = fresh_aseq(E, "r", "tuple")
    for (_, c) in b2n_pointwise(v, r):
        E.assume(c)
    b = fresh_aseq(E, "b", "bytes")
    E.assume(mk_bool(2 * b.n == r.n))
    E.assume(mk_bool(forall_idx("j!1", b.n, lambda j: z3.Select(b.arr, j) == 16 * z3.Select(r.arr, 2 * j) + z3.Select(r.arr, 2 * j + 1),
                                lambda j: [z3.Select(b.arr, j)])))
    E.prove("nib_bytes_inverse/n2b(b2n(v)):length", mk_bool(b.n == v.n), kind="lemma")
    k = z3.Int("k!sk")
    E.assume(mk_bool(z3.And(k >= 0, k < v.n)))
    E.prove("nib_bytes_inverse/n2b(b2n(v)):pointwise", mk_bool(z3.Select(b.arr, k) == z3.Select(v.arr, k)), kind="lemma")
    # b2n(v) is a valid nibble sequence of even length
    E.prove("nib_bytes_inverse/b2n-range", mk_bool(z3.And(z3.Select(r.arr, k * 2) >= 0, z3.Select(r.arr, k * 2) <= 15,
                                                          z3.Select(r.arr, k * 2 + 1) >= 0, z3.Select(r.arr, k * 2 + 1) <= 15)),
            kind="lemma")


# ---------------------------------------------------------------------------------------------------
# hex-prefix encoding (structural reasoning over Seq terms)

def fresh_nibs(E, base):
    x = E.fresh_seq(base, "tuple", "int")
    return x


def all_nib(t, name):
    i = z3.Int(name)
    return z3.ForAll([i], z3.Implies(z3.And(i >= 0, i < z3.Length(t)), z3.And(t[i] >= 0, t[i] <= 15)), patterns=[t[i]])


def terminated(t):
    return z3.And(z3.Length(t) > 0, t[z3.Length(t) - 1] == 16)


def strip(t):
    # built with the same slicing function the interpreter uses for `nibbles[:-1]`, so that both sides talk about
    # the same term
    return z3.If(terminated(t), ops.seq_slice(SSeq(t, "tuple", "int"), None, -1).t, t)


def hp_flagged(x, term):
    """the nibble sequence the Yellow Paper's HP packs: (f(t), 0) ++ x for even |x|, (f(t)+1,) ++ x for odd"""
    f = z3.If(term, z3.IntVal(2), z3.IntVal(0))
    return z3.If(z3.Length(x) % 2 == 1, z3.Concat(z3.Unit(f + 1), x), z3.Concat(z3.Unit(f), z3.Unit(z3.IntVal(0)), x))


def enc_setup(E):
    return {"nibbles": fresh_nibs(E, "nibbles")}


def _hex_view(E, ctx):
    return bool(E.ghost.get("hex_model")) and not hasattr(ctx, "outcome")


def enc_cases_hex(E, ctx):
    """hex-prefix encoding as an opaque bijection (trie-level view): HPK(path, is_leaf) with hp_path / hp_flag as
    inverse; justified by lemma hp_roundtrip"""
    from contracts import hexmodel as HM
    from pyvc.sym import ListObj
    if isinstance(ctx.nibbles, ListObj) and ctx.nibbles.items is not None:
        ctx.nibbles = tuple(ctx.nibbles.items)          # a list of nibbles is read like a tuple
    t = ops.seq_term_as(ctx.nibbles, "int")
    side0 = []
    allnib_of(t, side0, B2N)                       # definitional equations for allnib on the constructors of t
    for f in side0:
        E.assume(mk_bool(f))
    # definition of allnib at the last element
    E.assume(mk_bool(z3.Implies(z3.And(allnib(t), z3.Length(t) > 0),
                                z3.And(t[z3.Length(t) - 1] >= 0, t[z3.Length(t) - 1] <= 15))))
    if isinstance(ctx.nibbles, SSeq) and E.implied(mk_bool(terminated(t))):
        x, term = E.get_slice(ctx.nibbles, None, -1).t, z3.BoolVal(True)
    elif E.implied(mk_bool(z3.Not(terminated(t)))):
        x, term = t, z3.BoolVal(False)
    else:
        x, term = strip(t), terminated(t)
    side = []
    ok = allnib_of(x, side, B2N)
    for f in side:
        E.assume(mk_bool(f))

    def ret():
        r = z3.simplify(HM.HPK(x, term))
        E.assume(mk_bool(z3.And(HM.hp_path(r) == x, HM.hp_flag(r) == term, z3.Length(r) >= 1)))
        return SSeq(r, "bytes", "int")
    return [Case("invalid-nibble", when=mk_bool(z3.Not(ok)), raises=inv_nibbles(E)),
            Case("hex-prefix", when=mk_bool(ok), returns=ret)]


def dec_cases_hex(E, ctx):
    from contracts import hexmodel as HM
    v = ops.seq_term_as(ctx.value, "int")
    p, f = HM.hpk_parts(v)

    def ret():
        E.assume(mk_bool(allnib(p)))
        if z3.is_true(f):
            return SSeq(z3.simplify(z3.Concat(p, z3.Unit(z3.IntVal(16)))), "tuple", "int", rng=(0, 16))
        if z3.is_false(f):
            return SSeq(p, "tuple", "int", rng=(0, 15))
        return SSeq(z3.If(f, z3.Concat(p, z3.Unit(z3.IntVal(16))), p), "tuple", "int", rng=(0, 16))
    return [Case("empty", when=mk_bool(z3.Length(v) == 0), raises=IndexError),
            Case("decoded", when=mk_bool(z3.Length(v) > 0), returns=ret)]


def enc_cases(E, ctx):
    if _hex_view(E, ctx):
        return enc_cases_hex(E, ctx)
    t = ops.seq_term_as(ctx.nibbles, "int")
    x = strip(t)
    if isinstance(ctx.nibbles, SSeq) and E.implied(mk_bool(terminated(t))):
        x = E.get_slice(ctx.nibbles, None, -1).t        # the very term the code computes for nibbles[:-1]
    term = terminated(t)
    side = []
    ok = allnib_of(x, side, B2N)
    for f in side:
        E.assume(mk_bool(f))
    fl = hp_flagged(x, term)

    def ret():
        r = z3.Const(E.fresh_name("hp"), SeqI)
        E.assume(mk_bool(r == N2B(fl)))
        E.assume(mk_bool(2 * z3.Length(r) == z3.Length(fl)))
        E.assume(mk_bool(B2N(r) == fl))                # lemma nib_bytes_inverse/b2n.n2b
        return SSeq(r, "bytes", "int")
    return [Case("invalid-nibble", when=mk_bool(z3.Not(ok)), raises=inv_nibbles(E)),
            Case("hex-prefix", when=mk_bool(ok), returns=ret)]


def dec_setup(E):
    return {"value": E.fresh_seq("value", "bytes")}


def dec_cases(E, ctx):
    if _hex_view(E, ctx):
        return dec_cases_hex(E, ctx)
    v = ops.seq_term_as(ctx.value, "int")

    def ret():
        m = s_b2n(E, ctx.value).t
        g = m[0]
        body = z3.If(z3.Or(g == 1, g == 3), z3.Extract(m, 1, z3.Length(m) - 1), z3.Extract(m, 2, z3.Length(m) - 2))
        res = z3.If(z3.Or(g == 2, g == 3), z3.Concat(body, z3.Unit(z3.IntVal(16))), body)
        return SSeq(z3.simplify(res), "tuple", "int", rng=(0, 16))
    return [Case("empty", when=mk_bool(z3.Length(v) == 0), raises=IndexError),
            Case("decoded", when=mk_bool(z3.Length(v) > 0), returns=ret)]


def lemma_hp_roundtrip(E):
    """decode_nibbles(encode_nibbles(n)) = n for every valid nibble sequence n with or without terminator"""
    from pyvc.unit import find_function
    x = fresh_nibs(E, "x")
    E.assume(mk_bool(allnib(x.t)))
    term = E.fresh_bool("t")
    n = SSeq(z3.If(term.t, z3.Concat(x.t, z3.Unit(z3.IntVal(16))), x.t), "tuple", "int")
    enc = E.call(find_function(E.loader, MOD + ":encode_nibbles"), [n])
    dec = E.call(find_function(E.loader, MOD + ":decode_nibbles"), [enc])
    E.prove("hp_roundtrip", ops.py_eq(dec, n), kind="lemma")
    E.prove("hp_nonempty", mk_bool(z3.Length(enc.t) >= 1), kind="lemma")


def register(reg):
    g = "nibbles"
    reg.tables.update(TABLES)
    reg.add(g, Contract(MOD + ":bytes_to_nibbles", ["value"], b2n_cases, setup=b2n_setup, props=("C16", "C01"),
                        loops={}))
    reg.loops[(MOD + ":_bytes_to_nibbles", 0)] = LoopSpec(b2n_inv, fresh={"__yield__": ("aseq", "tuple")})
    reg.add(g, Contract(MOD + ":nibbles_to_bytes", ["nibbles"], n2b_cases, setup=n2b_setup, props=("C16",)))
    from pyvc.unit import Lemma
    reg.add_lemma(g, Lemma("lemma:nib_bytes_inverse/b2n.n2b", ("C16",), lemma_inverse_nb))
    reg.add_lemma(g, Lemma("lemma:nib_bytes_inverse/n2b.b2n", ("C16", "C01"), lemma_inverse_bn))
    g = "nibbles_hp"
    reg.add(g, Contract(MOD + ":encode_nibbles", ["nibbles"], enc_cases, setup=enc_setup, props=("C16", "C02")))
    reg.add(g, Contract(MOD + ":decode_nibbles", ["value"], dec_cases, setup=dec_setup, props=("C16", "C02")))
    reg.add_lemma(g, Lemma("lemma:hp_roundtrip", ("C16", "C02"), lemma_hp_roundtrip))
