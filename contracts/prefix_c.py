"""Contracts for the key-comparison helpers of trie/utils/nodes.py (get_common_prefix_length, key_starts_with),
used by the hexary and binary tries.  Verified element-wise in the array encoding; callers see the structural
(Seq) statement of the same contract."""
import z3

from pyvc import ops
from pyvc.interp import LoopSpec
from pyvc.sym import ASeq, SSeq, SInt, SBool, IntS, mk_bool, mk_int, as_int_term
from pyvc.unit import Contract, Case
from contracts.nibbles_c import fresh_aseq, forall_idx

MOD = "trie.utils.nodes"


def zmin(a, b):
    return z3.If(a < b, a, b)


def gcpl_setup(E):
    return {"left_key": fresh_aseq(E, "left", "tuple"), "right_key": fresh_aseq(E, "right", "tuple")}


def gcpl_cases(E, ctx):
    a, b = ctx.left_key, ctx.right_key
    if isinstance(a, ASeq) and isinstance(b, ASeq):
        mn = zmin(a.n, b.n)

        def ens(r):
            rt = as_int_term(r)
            return [("range", mk_bool(z3.And(rt >= 0, rt <= mn))),
                    ("common", mk_bool(forall_idx("j!c", rt, lambda j: z3.Select(a.arr, j) == z3.Select(b.arr, j)))),
                    ("maximal", mk_bool(z3.Implies(rt < mn, z3.Select(a.arr, rt) != z3.Select(b.arr, rt))))]
        return [Case("length", ensures=ens, rtype="int")]
    ta, tb = ops.seq_term_as(a, "int"), ops.seq_term_as(b, "int")
    mn = zmin(z3.Length(ta), z3.Length(tb))

    def ens(r):
        rt = as_int_term(r)
        E.ghost.setdefault("gcpl", []).append((ta, tb, rt))
        from contracts import seqlemmas as SL
        return [("range", mk_bool(z3.And(rt >= 0, rt <= mn))),
                ("common", mk_bool(z3.Extract(ta, 0, rt) == z3.Extract(tb, 0, rt))),
                ("maximal", mk_bool(z3.Implies(rt < mn, ta[rt] != tb[rt]))),
                # consequence (lemma seq/lcp_prefix): what the length says about prefix relations
                ("prefix-relations", mk_bool(z3.simplify(z3.And((rt == z3.Length(ta)) == z3.PrefixOf(ta, tb),
                                                                 (rt == z3.Length(tb)) == z3.PrefixOf(tb, ta)))))]
    return [Case("length", ensures=ens, rtype="int")]


def gcpl_inv(E, fr, i):
    a, b = fr.locals["left_key"], fr.locals["right_key"]
    it = as_int_term(i)
    return [("equal-so-far", mk_bool(forall_idx("j!e", it, lambda j: z3.Select(a.arr, j) == z3.Select(b.arr, j))))]


def ksw_setup(E):
    return {"full_key": fresh_aseq(E, "full", "tuple"), "partial_key": fresh_aseq(E, "part", "tuple")}


def ksw_cases(E, ctx):
    f, p = ctx.full_key, ctx.partial_key
    if isinstance(f, ASeq) and isinstance(p, ASeq):
        want = z3.And(f.n >= p.n, forall_idx("j!k", p.n, lambda j: z3.Select(f.arr, j) == z3.Select(p.arr, j)))
        return [Case("answer", returns=lambda: mk_bool(want))]
    tf, tp = ops.seq_term_as(f, "int"), ops.seq_term_as(p, "int")
    return [Case("answer", returns=lambda: mk_bool(z3.PrefixOf(tp, tf)))]


def register(reg):
    g = "prefix"
    reg.add(g, Contract(MOD + ":get_common_prefix_length", ["left_key", "right_key"], gcpl_cases, setup=gcpl_setup,
                        props=("C16", "C12", "C01", "C08"), loops={0: LoopSpec(gcpl_inv)}))
    reg.add(g, Contract(MOD + ":key_starts_with", ["full_key", "partial_key"], ksw_cases, setup=ksw_setup,
                        props=("C16", "C01", "C08", "C11")))
