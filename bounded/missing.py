"""Bounded stand-in for C07: every subset of node bodies removed from the database; get, exists,
set, delete, traverse, traverse_from on the real HexaryTrie must give the complete-database result
or a truthful MissingTrieNode / MissingTraversalNode, fail atomically, and converge under retry."""
import itertools

from vtlib import env  # noqa: F401
from vtlib.par import Partial, run_chunks
from bounded import hexhist as H
from spec import yp

from trie import HexaryTrie
from trie.exceptions import MissingTrieNode, MissingTraversalNode, TraversedPartialPath

RULE = ("(trie, missing subset, operation, key, configuration) enumerated as in bounded_scope; distinct-nontrivial "
        "= distinct (trie shape signature, |missing|, operation, outcome class, prune, batched) tuples")


def hkey(node):
    return yp.keccak(yp.rlp(yp.raw(node)))


def walk(struct, nib):
    """[(prefix, node, looked_up_by_hash)] for the nodes a lookup / traversal of nib visits."""
    out = []
    node, pos, k = struct, 0, tuple(nib)
    first = True
    while True:
        t = node[0]
        if t == "blank":
            return out
        hashed = first or len(yp.rlp(yp.raw(node))) >= 32
        out.append((tuple(nib[:pos]), node, hashed))
        first = False
        rem = k[pos:]
        if t == "leaf":
            return out
        if t == "ext":
            p = node[1]
            if rem[: len(p)] == p and len(rem) >= len(p) and (len(rem) > 0):
                if len(rem) == 0:
                    return out
                node, pos = node[2], pos + len(p)
                continue
            return out
        if not rem:
            return out
        node, pos = node[1][rem[0]], pos + 1


def first_missing(struct, nib, missing):
    for prefix, node, hashed in walk(struct, nib):
        if hashed and hkey(node) in missing:
            return hkey(node), prefix
    return None


def near_path_hashes(struct, nib):
    """Hashes of the hashed nodes on the path of nib and of their direct children (a delete may
    have to read the one remaining sibling to normalise a branch)."""
    out = set()
    for prefix, node, hashed in walk(struct, nib):
        if hashed:
            out.add(hkey(node))
        kids = []
        if node[0] == "ext":
            kids = [node[2]]
        elif node[0] == "branch":
            kids = list(node[1])
        for c in kids:
            if c[0] != "blank" and len(yp.rlp(yp.raw(c))) >= 32:
                out.add(hkey(c))
            # grandchildren reached through an embedded child are still "below the path"; the code
            # only ever reads children of path nodes, so they are not included.
    return out


def needed_for_write(struct, nib, is_delete):
    """Hashes of the node bodies a set / delete of nib really needs: the hashed nodes on the path of nib, plus --
    for a delete that removes a stored key and leaves a branch with a single child and no value -- that one
    remaining child (it is read to normalise the branch).  Nothing else lies "on the requested path"."""
    out = set()
    steps = walk(struct, nib)
    for prefix, node, hashed in steps:
        if hashed:
            out.add(hkey(node))
    if not is_delete or yp.lookup(struct, nib) == b"":
        return out
    # the branch from which the key (its leaf child or its own value) is removed
    k = tuple(nib)
    for prefix, node, hashed in reversed(steps):
        if node[0] != "branch":
            continue
        rem = k[len(prefix):]
        kids = list(node[1])
        val = node[2]
        if not rem:
            val = b""                      # the value stored at the branch is cleared
        else:
            sub = kids[rem[0]]
            # the child under rem[0] disappears only if it holds nothing but this key
            if sub[0] == "leaf" or (sub[0] != "blank" and _only_key(sub, rem[1:])):
                kids[rem[0]] = ("blank",)
            else:
                break                      # deeper structure remains: this branch keeps its child
        left = [c for c in kids if c[0] != "blank"]
        if len(left) == 1 and not val:
            c = left[0]
            if len(yp.rlp(yp.raw(c))) >= 32:
                out.add(hkey(c))
        break
    return out


def _only_key(node, rem):
    """does the subtree hold exactly the one key rem?"""
    if node[0] == "leaf":
        return tuple(node[1]) == tuple(rem)
    return False


def snapshot(t):
    return (t.root_hash, dict(t.db.copy()), dict(t._ref_count) if t.is_pruning else None, t._pending_prune_keys)


def read_ops(t, struct, root, k, missing, p, shape, cfg):
    """get / exists with the expected truthful report."""
    nib = yp.nibbles_of(k)
    fm = first_missing(struct, nib, missing)
    want = yp.lookup(struct, nib)
    for opname in ("get", "exists", "getitem", "contains"):
        before = snapshot(t)
        try:
            if opname == "get":
                got = t.get(k)
            elif opname == "exists":
                got = t.exists(k)
            elif opname == "getitem":
                got = t[k]
            else:
                got = k in t
            outcome = "value"
        except MissingTrieNode as e:
            outcome, exc = "missing", e
        except Exception as e:
            return "%s(%r) with %d nodes missing raised %s: %s" % (opname, k, len(missing), type(e).__name__, e)
        if snapshot(t) != before:
            return "%s(%r) changed the trie state" % (opname, k)
        p.sig(shape, len(missing), opname, outcome, cfg)
        if fm is None:
            if outcome != "value":
                return "%s(%r): no node on the path is missing, but MissingTrieNode(%s) raised" % (
                    opname, k, bytes(exc.missing_node_hash).hex()[:12])
            exp = want if opname in ("get", "getitem") else (want != b"")
            if got != exp:
                return "%s(%r) = %r with off-path nodes missing, complete database gives %r" % (opname, k, got, exp)
        else:
            if outcome != "missing":
                return "%s(%r): node %s on the path is missing but the call returned %r" % (
                    opname, k, fm[0].hex()[:12], got)
            if bytes(exc.missing_node_hash) != fm[0]:
                return "%s(%r): reported missing hash %s, first missing path node is %s" % (
                    opname, k, bytes(exc.missing_node_hash).hex()[:12], fm[0].hex()[:12])
            if bytes(exc.root_hash) != root or bytes(exc.requested_key) != k:
                return "%s(%r): MissingTrieNode carries wrong root hash / key" % (opname, k)
            if exc.prefix is None or tuple(exc.prefix) != fm[1]:
                return "%s(%r): reported prefix %r, path to the missing node is %r" % (opname, k, exc.prefix, fm[1])
    return None


def traverse_ops(t, struct, root, path, missing, p, shape, cfg):
    fm = first_missing(struct, path, missing)
    before = snapshot(t)
    try:
        try:
            t.traverse(path)
            outcome = "node"
        except TraversedPartialPath:
            outcome = "partial"
    except MissingTraversalNode as e:
        outcome, exc = "missing", e
    except Exception as e:
        return "traverse(%r) raised %s: %s" % (path, type(e).__name__, e)
    if snapshot(t) != before:
        return "traverse changed the trie state"
    p.sig(shape, len(missing), "traverse", outcome, cfg)
    if fm is None:
        if outcome == "missing":
            return "traverse(%r): nothing on the path is missing, but MissingTraversalNode raised" % (path,)
        exp = yp.node_at(struct, path)[0]
        if {"blank": "node"}.get(exp, exp) != outcome:
            return "traverse(%r): outcome %s differs from the complete database (%s)" % (path, outcome, exp)
    else:
        if outcome != "missing":
            return "traverse(%r): node %s on the path is missing but no MissingTraversalNode" % (path, fm[0].hex()[:12])
        if bytes(exc.missing_node_hash) != fm[0] or tuple(exc.nibbles_traversed) != fm[1]:
            return "traverse(%r): reported (%s, %r), expected (%s, %r)" % (
                path, bytes(exc.missing_node_hash).hex()[:12], tuple(exc.nibbles_traversed), fm[0].hex()[:12], fm[1])
    # traverse_from the root node (when the root body is there)
    if hkey(struct) not in missing and struct[0] != "blank":
        rn = t.root_node
        fm2 = first_missing(struct, path, missing)
        try:
            try:
                t.traverse_from(rn, path)
                o2 = "node"
            except TraversedPartialPath:
                o2 = "partial"
        except MissingTraversalNode as e:
            o2 = "missing"
            if fm2 is None or bytes(e.missing_node_hash) != fm2[0] or tuple(e.nibbles_traversed) != fm2[1]:
                return "traverse_from(root_node, %r): untruthful MissingTraversalNode" % (path,)
        except Exception as e:
            return "traverse_from(root_node, %r) raised %s: %s" % (path, type(e).__name__, e)
        if (fm2 is not None) != (o2 == "missing"):
            return "traverse_from(root_node, %r): outcome %s, first missing %r" % (path, o2, fm2)
        p.sig(shape, len(missing), "traverse_from", o2, cfg)
    return None


def write_op(make_trie, full, struct, mu, root, op, missing, p, shape, cfg):
    """One write under a missing set: truthful failure + atomicity, then retry to convergence."""
    t, db = make_trie()
    k = op[1]
    nib = yp.nibbles_of(k)
    mu2 = dict(mu)
    H.apply_model(mu2, op)
    want_root = yp.root(mu2)
    near = needed_for_write(struct, nib, op[0] != "set" or op[2] == b"")
    asked = []
    for attempt in range(len(missing) + 2):
        before = snapshot(t)
        try:
            H.apply_real(t, op, attempt % 2)
            outcome = "done"
        except MissingTrieNode as e:
            outcome, exc = "missing", e
        except Exception as e:
            return "%s(%r) with %d nodes missing raised %s: %s" % (op[0], k, len(missing), type(e).__name__, e)
        if attempt == 0:
            p.sig(shape, len(missing), op[0], len(op) > 2 and len(op[2]), outcome, cfg)
        if outcome == "done":
            if t.root_hash != want_root:
                return "%s(%r) with nodes missing produced root %s, complete database gives %s" % (
                    op[0], k, t.root_hash.hex()[:12], want_root.hex()[:12])
            if t.is_pruning and t._pending_prune_keys is not None:
                return "pending prune keys left behind"
            return None
        h = bytes(exc.missing_node_hash)
        if snapshot(t) != before:
            return "failed %s(%r) changed root / database / reference counts" % (op[0], k)
        if h in db:
            return "%s(%r): reported hash %s is not absent" % (op[0], k, h.hex()[:12])
        if h not in full:
            return "%s(%r): reported hash %s is not a node of the trie" % (op[0], k, h.hex()[:12])
        if h not in near:
            return "%s(%r): reported hash %s does not lie on the requested path" % (op[0], k, h.hex()[:12])
        if bytes(exc.root_hash) != root or bytes(exc.requested_key) != k:
            return "%s(%r): MissingTrieNode carries wrong root hash / key" % (op[0], k)
        if h in asked:
            return "%s(%r): node %s requested twice during retry" % (op[0], k, h.hex()[:12])
        asked.append(h)
        db[h] = full[h]  # supply only the reported node
    return "%s(%r): retry did not converge" % (op[0], k)


def get_retry(t, db, full, struct, k, missing):
    asked = []
    want = yp.lookup(struct, yp.nibbles_of(k))
    for _ in range(len(missing) + 2):
        try:
            got = t.get(k)
        except MissingTrieNode as e:
            h = bytes(e.missing_node_hash)
            if h in db or h not in full:
                return "get retry: untruthful report"
            if h in asked:
                return "get retry: node requested twice"
            asked.append(h)
            db[h] = full[h]
            continue
        if got != want:
            return "get retry converged to %r, expected %r" % (got, want)
        return None
    return "get retry did not converge"


def check_case(mu, missing, prune, batched, p):
    full_trie = H.build_trie(mu)
    full = dict(full_trie.db)
    root = full_trie.root_hash
    struct = yp.structure(mu)
    shape = H.shape_signature(mu)
    cfg = (prune, batched)
    missing = set(missing)

    def make_plain():
        db = {a: b for a, b in full.items() if a not in missing}
        if prune:
            rc = H.build_trie(mu, prune=True)  # true counts for this content
            t = HexaryTrie(db, root, prune=True, ref_count=rc.ref_count.copy())
        else:
            t = HexaryTrie(db, root)
        return t, db

    probes = sorted(set(list(mu)[:3]) | {b"\x12", b"\x12\x34\x57", b"\x12\x34\x56\x78\x9a", b""})
    n = 0
    t, db = make_plain()
    if not batched:
        for k in probes:
            n += 4
            r = read_ops(t, struct, root, k, missing, p, shape, cfg)
            if r:
                return r, n
        for path in H.nibble_paths(mu, 1)[:40]:
            n += 2
            r = traverse_ops(t, struct, root, path, missing, p, shape, cfg)
            if r:
                return r, n
        for k in probes[:3]:
            t2, db2 = make_plain()
            n += 1
            r = get_retry(t2, db2, full, struct, k, missing)
            if r:
                return r, n
    else:
        # reads inside a batch see the same truth
        with t.squash_changes() as b:
            for k in probes:
                n += 4
                r = read_ops(b, struct, root, k, missing, p, shape, cfg)
                if r:
                    return "inside squash_changes: " + r, n
    ops = []
    for k in probes:
        ops.append(("set", k, b"n"))
        ops.append(("set", k, b"N" * 33))
        ops.append(("del", k))
    for op in ops:
        n += 1
        if not batched:
            r = write_op(make_plain, full, struct, mu, root, op, missing, p, shape, cfg)
        else:
            r = batched_write(make_plain, full, struct, mu, root, op, missing, p, shape, cfg)
        if r:
            return r, n
    return None, n


def batched_write(make_plain, full, struct, mu, root, op, missing, p, shape, cfg):
    t, db = make_plain()
    k = op[1]
    near = near_path_hashes(struct, yp.nibbles_of(k))
    mu2 = dict(mu)
    H.apply_model(mu2, op)
    asked = []
    for attempt in range(len(missing) + 2):
        before = snapshot(t)
        try:
            with t.squash_changes() as b:
                H.apply_real(b, op)
            outcome = "done"
        except MissingTrieNode as e:
            outcome, exc = "missing", e
        except Exception as e:
            return "batched %s(%r) raised %s: %s" % (op[0], k, type(e).__name__, e)
        if attempt == 0:
            p.sig(shape, len(missing), op[0], outcome, cfg)
        if outcome == "done":
            if t.root_hash != yp.root(mu2):
                return "batched %s(%r) with nodes missing produced a different root" % (op[0], k)
            return None
        if snapshot(t) != before:
            return "failed batched %s(%r) changed root / database / reference counts of the outer trie" % (op[0], k)
        h = bytes(exc.missing_node_hash)
        if h in db or h not in full or h not in near:
            return "batched %s(%r): untruthful MissingTrieNode(%s)" % (op[0], k, h.hex()[:12])
        if bytes(exc.requested_key) != k:
            return "batched %s(%r): wrong requested key" % (op[0], k)
        if h in asked:
            return "batched %s(%r): node requested twice" % (op[0], k)
        asked.append(h)
        db[h] = full[h]
    return "batched %s(%r): retry did not converge" % (op[0], k)


def _work(chunk):
    p = Partial()
    for mu, missing, prune, batched in chunk:
        try:
            res, n = check_case(mu, missing, prune, batched, p)
        except Exception as e:
            import traceback
            p.errors.append(traceback.format_exc())
            continue
        p.evaluations += n
        if res:
            p.violation(res, {"driver": "missing", "mu": {a.hex(): b.hex() for a, b in mu.items()},
                              "missing": sorted(h.hex() for h in missing), "prune": prune, "batched": batched})
        elif len(missing) == 2 and len(mu) == 3:
            p.sample({"trie": {a.hex(): b.hex()[:8] for a, b in mu.items()},
                      "missing": [h.hex()[:12] for h in missing], "prune": prune, "batched": batched})
    return p


def cases(tier):
    tries = H.small_tries(3, 7 if tier == "thorough" else 6)
    out = []
    for mu in tries:
        if not mu:
            continue
        nodes = sorted(yp.hashed_nodes(mu))
        if len(nodes) > (7 if tier == "thorough" else 6):
            continue
        for r in range(0, len(nodes) + 1):
            for combo in itertools.combinations(nodes, r):
                for prune in (False, True):
                    for batched in (False, True):
                        if tier != "thorough" and batched and r > 2:
                            continue
                        out.append((mu, combo, prune, batched))
    return out


def run(prop, tier, seed):
    items = cases(tier)
    total = run_chunks(_work, items, chunks_per_proc=8)
    return total, ["%d (trie, missing subset, prune, batched) cases: tries of <=3 keys over %d prefix-related keys x 3 "
                   "value-size patterns with <=%d stored nodes, EVERY subset of their node bodies removed; per case: "
                   "get/exists/[]/in on 7 keys, traverse and traverse_from(root_node) on up to 40 nibble paths, "
                   "set (1- and 33-byte value) and delete on 7 keys each with state snapshot comparison and a retry "
                   "loop supplying only the reported node" % (len(items), 7 if tier == "thorough" else 6,
                                                             7 if tier == "thorough" else 6)]


def replay(case):
    mu = {bytes.fromhex(a): bytes.fromhex(b) for a, b in case["mu"].items()}
    missing = [bytes.fromhex(h) for h in case["missing"]]
    return check_case(mu, missing, case["prune"], case["batched"], Partial())[0]
