"""Bounded stand-in for C09 (fog-guided walk, also under concurrent modification) and C10
(NodeIterator order / strict successor) on the real code, against sorted() and the canonical
structure of spec/yp.py."""
import itertools
import random

from vtlib import env  # noqa: F401
from vtlib.par import Partial, run_chunks
from bounded import hexhist as H
from spec import yp

from trie import HexaryTrie
from trie.exceptions import (TraversedPartialPath, PerfectVisibility, FullDirectionalVisibility,
                             MissingTraversalNode)
from trie.fog import HexaryTrieFog, TrieFrontierCache
from trie.iter import NodeIterator
from trie.utils.nibbles import nibbles_to_bytes

RULE = ("cases enumerated as in bounded_scope; distinct-nontrivial = distinct (trie shape signature, query kind / "
        "exploration-order class, mutation kinds, cache flag, prune) tuples")


# ------------------------------------------------------------------------------- C10
def check_iter(mu, p=None):
    t = H.build_trie(mu)
    it = NodeIterator(t)
    shape = H.shape_signature(mu)
    skeys = sorted(mu)
    n = 0
    try:
        keys = list(it.keys())
        items = list(it.items())
        values = list(it.values())
    except Exception as e:
        return "iteration raised %s: %s" % (type(e).__name__, e), 1
    n += 3
    if keys != skeys:
        return "keys() = %r, sorted contents %r" % (keys, skeys), n
    if items != [(k, mu[k]) for k in skeys]:
        return "items() wrong", n
    if values != [mu[k] for k in skeys]:
        return "values() wrong", n
    # nodes(): every node once, parents before children, left to right, each == traverse(prefix)
    struct = yp.structure(mu)
    want = [(pre, yp.annotate(nd)) for pre, nd in yp.all_nodes_preorder(struct)]
    try:
        got = [(tuple(int(x) for x in pre), (int(nd.node_type), tuple(tuple(int(y) for y in s) for s in nd.sub_segments),
                                              bytes(nd.value), tuple(int(y) for y in nd.suffix)), nd)
               for pre, nd in it.nodes()]
    except Exception as e:
        return "nodes() raised %s: %s" % (type(e).__name__, e), n
    n += 1
    if struct[0] == "blank":
        # an empty trie has a single (blank) root node position
        if [(a, b) for a, b, _ in got] != [((), (0, (), b"", ()))]:
            return "nodes() of the empty trie = %r" % ([(a, b) for a, b, _ in got],), n
    else:
        if [(a, b) for a, b, _ in got] != want:
            return "nodes() differs from the pre-order of the canonical trie", n
        for pre, _, nd in got:
            tn = t.traverse(pre)
            if tn != nd:
                return "nodes() entry at %r differs from traverse()" % (pre,), n
    # next(k)
    queries = sorted(set(H.PROBES) | set(mu) | {k + b"\x00" for k in mu} | {k[:-1] for k in mu if k})
    for q in [None] + queries:
        n += 1
        try:
            got = it.next(q) if q is not None else it.next()
        except Exception as e:
            return "next(%r) raised %s: %s" % (q, type(e).__name__, e), n
        if q is None:
            exp = skeys[0] if skeys else None
        else:
            bigger = [k for k in skeys if k > q]
            exp = bigger[0] if bigger else None
        if got != exp:
            return "next(%r) = %r, strict successor is %r" % (q, got, exp), n
        if p is not None:
            p.sig(shape, "next", q is None, q in mu if q is not None else None, exp is None)
    return None, n


# ------------------------------------------------------------------------------- C09
def walk(t, order_rng, mutations, use_cache, mode):
    """A fog-guided walk; `mutations` maps step index -> op applied to the trie before that step.
    Returns (met dict key->value, steps) or raises."""
    fog = HexaryTrieFog()
    cache = TrieFrontierCache()
    met = {}
    step = 0
    limit = 400
    while not fog.is_complete:
        if step in mutations:
            for op in mutations[step]:
                H.apply_real(t, op)
        step += 1
        if step > limit:
            raise RuntimeError("walk did not terminate within %d steps" % limit)
        # take any unexplored prefix: either query, any query key
        qkey = tuple(order_rng.randrange(16) for _ in range(order_rng.randrange(0, 5)))
        if mode == "right":
            try:
                prefix = fog.nearest_right(qkey)
            except FullDirectionalVisibility:
                prefix = fog.nearest_unknown(qkey)
        elif mode == "left0":
            prefix = fog.nearest_right(())
        else:
            prefix = fog.nearest_unknown(qkey)
        node = None
        if use_cache:
            try:
                parent, seg = cache.get(prefix)
            except KeyError:
                parent = None
            if parent is not None:
                try:
                    node = t.traverse_from(parent, seg)
                except TraversedPartialPath as e:
                    node = e.simulated_node
                except MissingTraversalNode:
                    # a stale cache entry of a pruning trie may point at a node that has since been
                    # pruned: the walk protocol drops the entry and traverses from the root instead
                    # (tests/core/test_hexary_trie_walk.py does the same)
                    cache.delete(prefix)
                    node = None
        if node is None:
            try:
                node = t.traverse(prefix)
            except TraversedPartialPath as e:
                node = e.simulated_node
        if node.value:
            full = tuple(prefix) + tuple(node.suffix)
            if len(full) % 2 == 0:
                met[nibbles_to_bytes(full)] = bytes(node.value)
            else:
                met[("odd", full)] = bytes(node.value)
        fog = fog.explore(prefix, node.sub_segments)
        if use_cache:
            if node.sub_segments:
                cache.add(prefix, node, node.sub_segments)
            else:
                cache.delete(prefix)
    return met, step


def check_walk(mu, mut_plan, use_cache, prune, mode, seed):
    """mut_plan: list of (step, op)."""
    t = H.build_trie(mu, prune=prune)
    muts = {}
    ever = {}   # key -> set of values it ever had
    cur = dict(mu)
    for k, v in mu.items():
        ever.setdefault(k, set()).add(v)
    stable = dict(mu)
    for step, op in mut_plan:
        muts.setdefault(step, []).append(op)
    for step, op in sorted(mut_plan, key=lambda x: x[0]):
        before = cur.get(op[1])
        H.apply_model(cur, op)
        after = cur.get(op[1])
        if after is not None:
            ever.setdefault(op[1], set()).add(after)
        if before != after:
            stable.pop(op[1], None)
    rng = random.Random(seed)
    try:
        met, steps = walk(t, rng, muts, use_cache, mode)
    except Exception as e:
        return "walk raised %s: %s" % (type(e).__name__, e)
    applied = {s for s in muts if s < steps}
    if not mut_plan or not applied:
        if met != mu:
            return "walk on an unchanging trie met %r, contents are %r" % (sorted(met.items(), key=repr)[:4], sorted(mu.items())[:4])
        return None
    # keys whose value stayed the same for the whole walk are met with that value
    # (mutations scheduled after the walk ended were never applied)
    stable2 = dict(mu)
    cur2 = dict(mu)
    for step, op in sorted(mut_plan, key=lambda x: x[0]):
        if step >= steps:
            continue
        b = cur2.get(op[1])
        H.apply_model(cur2, op)
        if cur2.get(op[1]) != b:
            stable2.pop(op[1], None)
    for k, v in stable2.items():
        if met.get(k) != v:
            return "key %r kept its value for the whole walk but was %s" % (k, "missed" if k not in met else "met with another value")
    for k, v in met.items():
        if k not in ever or v not in ever[k]:
            return "walk met %r -> %r which was never stored" % (k, v)
    return None


def _work10(chunk):
    p = Partial()
    for mu in chunk:
        res, n = check_iter(mu, p)
        p.evaluations += n
        if res:
            p.violation(res, {"driver": "walk", "prop": "C10", "mu": {a.hex(): b.hex() for a, b in mu.items()}})
        elif len(mu) == 3:
            p.sample({"trie": {a.hex(): b.hex()[:8] for a, b in mu.items()}, "checked": "keys/items/values/nodes/next"})
    return p


def _work09(chunk):
    p = Partial()
    for mu, plan, cache, prune, mode, seed in chunk:
        res = check_walk(mu, plan, cache, prune, mode, seed)
        p.evaluations += 1
        p.sig(H.shape_signature(mu), tuple(o[0] for _, o in plan), tuple(s for s, _ in plan), cache, prune, mode)
        if res:
            p.violation(res, {"driver": "walk", "prop": "C09", "mu": {a.hex(): b.hex() for a, b in mu.items()},
                              "plan": [[s, H.jop(o)] for s, o in plan], "cache": cache, "prune": prune,
                              "mode": mode, "seed": seed})
        elif p.evaluations % 499 == 1:
            p.sample({"trie": {a.hex(): b.hex()[:8] for a, b in mu.items()},
                      "mutations": [[s, H.jop(o)] for s, o in plan], "cache": cache, "mode": mode})
    return p


def run(prop, tier, seed):
    thorough = tier == "thorough"
    tries = H.small_tries(4 if thorough else 3)
    if prop == "C10":
        total = run_chunks(_work10, tries)
        return total, ["%d tries (subsets of <=%d of 8 prefix-related keys incl. the empty key x 3 value-size "
                       "patterns): keys()/items()/values() against sorted(), nodes() against the canonical pre-order "
                       "and traverse(), next(k) for None and every probe key, stored key, stored key + 00 and "
                       "stored key minus its last byte" % (len(tries), 4 if thorough else 3)]
    rng = random.Random(seed)
    items = []
    keys = H.ALPHABET[:8]
    mut_ops = [("set", k, v) for k in keys[:6] for v in (b"m", b"M" * 33)] + [("del", k) for k in keys[:6]]
    for mu in tries:
        for cache in (False, True):
            for mode in ("unknown", "right", "left0"):
                # unchanging trie, several exploration orders
                for s in range(3 if thorough else 2):
                    items.append((mu, [], cache, False, mode, rng.randrange(1 << 30)))
                # one and two mutations at every early position
                for step in range(0, 5):
                    for op in (mut_ops if thorough else rng.sample(mut_ops, 4)):
                        items.append((mu, [(step, op)], cache, bool(step % 2), mode, rng.randrange(1 << 30)))
                for _ in range(12 if thorough else 4):
                    plan = [(rng.randrange(0, 8), rng.choice(mut_ops)) for _ in range(rng.choice([2, 3]))]
                    items.append((mu, plan, cache, rng.random() < 0.5, mode, rng.randrange(1 << 30)))
    total = run_chunks(_work09, items)
    return total, ["%d walks: %d tries x cache on/off x three ways of picking the next unexplored prefix "
                   "(nearest_unknown / nearest_right with seeded random query keys, left-most) x (unchanging trie | "
                   "one mutation before each of the first 5 steps | 2-3 mutations at random steps), pruning on and off; "
                   "seed %d" % (len(items), len(tries), seed)]


def replay(case):
    mu = {bytes.fromhex(a): bytes.fromhex(b) for a, b in case["mu"].items()}
    if case["prop"] == "C10":
        return check_iter(mu)[0]
    plan = [(s, H.unjop(o)) for s, o in case["plan"]]
    return check_walk(mu, plan, case["cache"], case["prune"], case["mode"], case["seed"])
