"""Shared machinery of the bounded tier for HexaryTrie histories (C01, C02, C04, C05, C06).

Runs the REAL trie.HexaryTrie on enumerated / seeded-random operation histories and hands
the state after every operation to property-specific checkers that compare it with the
independent oracles of /verif/spec (dict model, Yellow-Paper root, hashed-node set,
reference multiset).  Nothing here is counted as proof.
"""
import itertools
import random

from eth_hash.auto import keccak

from spec import yp

# ten keys: empty key, a key, two extensions of it, a sibling diverging in the last nibble,
# one diverging in the first nibble, a key extending a leaf, a sibling in the middle ...
ALPHABET = [
    b"",
    b"\x12",
    b"\x12\x34",
    b"\x12\x35",
    b"\x12\x34\x56",
    b"\x13",
    b"\x22",
    b"\x12\x34\x56\x78",
    b"\x12\x40",
    b"\x02",
]
VALUES = [b"v", b"w" * 20, b"x" * 33]
# lookup keys: the alphabet plus keys that are prefixes / extensions / divergences of it
PROBES = sorted(
    set(ALPHABET)
    | {b"\x10", b"\x12\x34\x57", b"\x12\x34\x56\x78\x9a", b"\x12\x3f", b"\x1f", b"\x00", b"\x12\x34\x56\x79"}
)


def ops_over(keys, values=VALUES):
    out = []
    for k in keys:
        for v in values:
            out.append(("set", k, v))
        out.append(("del", k))
        out.append(("set", k, b""))
    return out


def enum_histories(keys, length, values=VALUES):
    return itertools.product(ops_over(keys, values), repeat=length)


def random_history(rng, n_ops, max_key=33):
    pool = []
    base = bytes(rng.randrange(256) for _ in range(max_key))
    for _ in range(rng.randrange(3, 12)):
        ln = rng.choice([0, 1, 1, 2, 2, 3, 4, 8, 31, 32, 33])
        k = bytearray(base[:ln])
        if ln and rng.random() < 0.7:
            pos = rng.randrange(ln)
            k[pos] = rng.choice([k[pos] ^ 1, k[pos] ^ 0x10, rng.randrange(256)])
        pool.append(bytes(k))
    vals = [bytes([rng.randrange(1, 256)]) * rng.choice([1, 2, 5, 20, 27, 28, 29, 30, 31, 32, 33, 40])
            for _ in range(4)]
    ops = []
    for _ in range(n_ops):
        k = rng.choice(pool)
        r = rng.random()
        if r < 0.6:
            ops.append(("set", k, rng.choice(vals)))
        elif r < 0.9:
            ops.append(("del", k))
        else:
            ops.append(("set", k, b""))
    return tuple(ops), sorted(set(pool))


def apply_model(mu, op):
    if op[0] == "set" and op[2] != b"":
        mu[op[1]] = op[2]
    else:
        mu.pop(op[1], None)


def apply_real(trie, op, syntax=0):
    if op[0] == "set":
        if syntax:
            trie[op[1]] = op[2]
        else:
            trie.set(op[1], op[2])
    else:
        if syntax:
            del trie[op[1]]
        else:
            trie.delete(op[1])


def shape_signature(mu):
    """Node-type tree with embedded/hashed marks of the canonical trie holding mu."""
    def sig(node):
        t = node[0]
        if t == "blank":
            return "_"
        e = len(yp.rlp(yp.raw(node))) >= 32
        m = "H" if e else "e"
        if t == "leaf":
            return "L" + m
        if t == "ext":
            return "E" + m + "(" + sig(node[2]) + ")"
        return "B" + m + ("v" if node[2] else "") + "(" + "".join(sig(c) for c in node[1]) + ")"
    return sig(yp.structure(mu))


def jop(op):
    return [op[0], op[1].hex()] + ([op[2].hex()] if len(op) > 2 else [])


def unjop(j):
    return (j[0], bytes.fromhex(j[1])) + ((bytes.fromhex(j[2]),) if len(j) > 2 else ())


def content_addressed(db):
    return all(keccak(v) == k for k, v in db.items())


def small_tries(max_keys=3, nkeys=8):
    """Mappings over the first nkeys alphabet keys with three value-size patterns (mixed, all
    small -> embedded nodes, all large -> hashed nodes)."""
    keys = ALPHABET[:nkeys]
    pats = [
        [1, 33, 1, 20, 33, 1, 20, 1, 33, 1],
        [1] * 10,
        [33] * 10,
    ]
    out = []
    seen = set()
    for pat in pats:
        for r in range(0, max_keys + 1):
            for combo in itertools.combinations(range(len(keys)), r):
                mu = {keys[i]: bytes([0x61 + i]) * pat[i] for i in combo}
                key = tuple(sorted(mu.items()))
                if key not in seen:
                    seen.add(key)
                    out.append(mu)
    return out


def build_trie(mu, prune=False, db=None, order=None):
    from trie import HexaryTrie
    db = {} if db is None else db
    t = HexaryTrie(db, prune=prune)
    for k in (order or sorted(mu)):
        t.set(k, mu[k])
    return t


def nibble_paths(mu, extra=2):
    """Every nibble path over the nibbles that occur (plus one that does not), up to `extra`
    beyond the longest key."""
    ks = [yp.nibbles_of(k) for k in mu]
    longest = max([len(k) for k in ks] + [0])
    paths = {()}
    for k in ks:
        for i in range(len(k) + 1):
            p = k[:i]
            paths.add(p)
            for n in (0, 5, 15, (k[i] + 1) % 16 if i < len(k) else 7):
                paths.add(p + (n,))
                if len(p) + 2 <= longest + extra:
                    paths.add(p + (n, 3))
    return sorted(paths)
