"""Bounded stand-in for C01, C02, C04, C05, C06: the real HexaryTrie under enumerated and
seeded-random *programs* (direct operations, squash_changes batches that commit or abort,
commit-write faults), observed after every step and compared with the oracles of
/verif/spec.  `bounded`, never counted as proved.
"""
import random

from eth_hash.auto import keccak

from spec import yp
from vtlib.par import Partial, run_chunks
from bounded import hexhist as H

from vtlib import env  # noqa: F401  (puts the repo under test on sys.path)
from trie import HexaryTrie
from trie.exceptions import MissingTrieNode


class Abort(Exception):
    pass


class WriteFault(Exception):
    pass


class FaultyDict(dict):
    """dict whose n-th __setitem__ (counted from arming) raises instead of writing."""

    def __init__(self, *a):
        super().__init__(*a)
        self.fail_at = None
        self.writes = 0

    def __setitem__(self, k, v):
        if self.fail_at is not None:
            if self.writes == self.fail_at:
                self.writes += 1
                raise WriteFault("injected write fault")
            self.writes += 1
        super().__setitem__(k, v)


# --------------------------------------------------------------------------- program runner
# program: list of steps; step = ("op", op) | ("batch", [ops], abort_at or None, fault_at or None)
#   abort_at  = index i: an exception is raised inside the block before its i-th op (i may be len)
#   fault_at  = index j: the j-th write of the commit phase raises (non-pruning tries only)


class Obs:
    """What a checker sees at an observation point."""
    __slots__ = ("kind", "trie", "db", "mu", "prev_db", "prev_root", "prev_rc", "prev_mu",
                 "inner", "inner_mu", "prune", "roots", "exc")


def run_program(prog, prune, check, syntax=0):
    """check(obs) -> None or a string describing the violation."""
    db = FaultyDict()
    t = HexaryTrie(db, prune=prune)
    mu = {}
    roots = [(t.root_hash, {})]
    o = Obs()
    o.trie, o.db, o.prune, o.roots = t, db, prune, roots
    for si, step in enumerate(prog):
        o.prev_db = dict(db)
        o.prev_root = t.root_hash
        o.prev_rc = dict(t._ref_count) if prune else None
        o.prev_mu = dict(mu)
        o.inner = o.inner_mu = o.exc = None
        if step[0] == "op":
            try:
                H.apply_real(t, step[1], syntax)
            except Exception as e:  # a complete database never makes an operation fail
                return "step %d %r raised %s: %s" % (si, step[1], type(e).__name__, e)
            H.apply_model(mu, step[1])
            o.kind, o.mu = "op", mu
            r = check(o)
            if r:
                return "step %d after %r: %s" % (si, step[1], r)
        else:
            _, ops, abort_at, fault_at = step
            bmu = dict(mu)
            outcome = "commit"
            try:
                with t.squash_changes() as b:
                    for oi, op in enumerate(ops):
                        if abort_at == oi:
                            raise Abort()
                        H.apply_real(b, op, syntax)
                        H.apply_model(bmu, op)
                        o.kind, o.mu, o.inner, o.inner_mu = "in-batch", mu, b, bmu
                        r = check(o)
                        if r:
                            return "step %d batch op %d %r: %s" % (si, oi, op, r)
                    if abort_at == len(ops):
                        raise Abort()
                    if fault_at is not None:
                        db.writes = 0
                        db.fail_at = fault_at
            except Abort:
                outcome = "abort"
            except WriteFault:
                outcome = "fault"
            except Exception as e:
                return "step %d batch raised %s: %s" % (si, type(e).__name__, e)
            finally:
                db.fail_at = None
            o.inner, o.inner_mu = None, bmu
            if outcome == "commit":
                mu.clear()
                mu.update(bmu)
            o.kind, o.mu = "batch-" + outcome, mu
            r = check(o)
            if r:
                return "step %d batch(%s): %s" % (si, outcome, r)
        roots.append((t.root_hash, dict(mu)))
    o.kind, o.mu = "end", mu
    r = check(o)
    if r:
        return "end: %s" % r
    return None


# --------------------------------------------------------------------------- checkers
def _reads_agree(t, mu, probes):
    for k in probes:
        want = mu.get(k, b"")
        try:
            got = t.get(k)
            ex = t.exists(k)
            inn = k in t
            gi = t[k]
        except Exception as e:
            return "lookup of %r raised %s (%s)" % (k, type(e).__name__, e)
        if got != want or gi != want:
            return "get(%r) = %r, model says %r" % (k, got, want)
        if ex != (want != b"") or inn != ex:
            return "exists(%r) = %r / in = %r, model says %r" % (k, ex, inn, want != b"")
    return None


def check_c01(o, probes=H.PROBES):
    if o.kind == "in-batch":
        return _reads_agree(o.inner, o.inner_mu, probes)
    return _reads_agree(o.trie, o.mu, probes)


def check_c02(o):
    if o.kind == "in-batch":
        t, mu = o.inner, o.inner_mu
    else:
        t, mu = o.trie, o.mu
    want = yp.root(mu)
    if t.root_hash != want:
        return "root %s is not the Yellow-Paper root %s of %d keys" % (
            t.root_hash.hex()[:16], want.hex()[:16], len(mu))
    if not mu and t.root_hash != yp.BLANK_ROOT:
        return "empty mapping without the blank root"
    return None


def check_c06(o):
    if not o.prune or o.kind == "in-batch":
        return None
    want_nodes = yp.hashed_nodes(o.mu)
    if dict(o.db) != want_nodes:
        missing = [h.hex()[:12] for h in want_nodes if h not in o.db]
        extra = [h.hex()[:12] for h in o.db if h not in want_nodes]
        return "database is not exactly the live nodes: missing %s left over %s" % (missing, extra)
    want_rc = yp.ref_multiset(o.mu)
    rc = {k: v for k, v in o.trie.ref_count.items() if v != 0}
    if rc != want_rc:
        return "reference counts differ from the true multiset (%d vs %d entries)" % (len(rc), len(want_rc))
    regen = {k: v for k, v in o.trie.regenerate_ref_count().items() if v != 0}
    if regen != want_rc:
        return "regenerate_ref_count differs from the true multiset"
    if o.trie._pending_prune_keys is not None:
        return "_pending_prune_keys left non-None"
    return None


def check_c04(o):
    if o.prune or o.kind == "in-batch":
        return None
    for k, v in o.prev_db.items():
        if o.db.get(k) != v:
            return "entry %s removed or changed by a non-pruning trie" % k.hex()[:12]
    for k, v in o.db.items():
        if k not in o.prev_db and keccak(v) != k:
            return "entry %s is not keyed by the keccak of its value" % k.hex()[:12]
    if o.kind in ("end", "batch-fault", "batch-abort"):
        # every root the trie ever had is still readable with the contents it had then
        for r, m in o.roots:
            fresh = HexaryTrie(o.db, r)
            msg = _reads_agree(fresh, m, list(m) + [b"\x12", b"\x12\x34\x57"])
            if msg:
                return "old root %s: %s" % (r.hex()[:12], msg)
            with o.trie.at_root(r) as snap:
                for k in m:
                    if snap.get(k) != m[k]:
                        return "at_root(%s).get(%r) wrong" % (r.hex()[:12], k)
    return None


def check_c05(o):
    k = o.kind
    if k == "batch-commit":
        want = yp.root(o.mu)
        if o.trie.root_hash != want:
            return "outer root after commit is not the canonical root of the result"
        need = yp.hashed_nodes(o.mu)
        for h, e in need.items():
            if o.db.get(h) != e:
                return "node %s needed for the new root is not in the database" % h.hex()[:12]
        if not o.prune:
            for h, v in o.prev_db.items():
                if o.db.get(h) != v:
                    return "non-pruning commit removed/changed %s" % h.hex()[:12]
        for h in o.db:
            if h not in o.prev_db and h not in need:
                return "node %s serving only an intermediate state was added" % h.hex()[:12]
        if o.prune:
            if dict(o.db) != need:
                return "pruning commit left the database different from the live set"
            rc = {a: b for a, b in o.trie.ref_count.items() if b != 0}
            if rc != yp.ref_multiset(o.mu):
                return "reference counts wrong after commit"
        return _reads_agree(o.trie, o.mu, H.PROBES)
    if k in ("batch-abort", "batch-fault"):
        if o.trie.root_hash != o.prev_root:
            return "outer root changed by a batch that did not complete"
        if k == "batch-abort":
            if dict(o.db) != o.prev_db:
                return "database changed by an aborted batch"
        else:
            for h, v in o.prev_db.items():
                if o.db.get(h) != v:
                    return "previously stored entry lost in a failed commit"
        if o.prune:
            rc = {a: b for a, b in o.trie._ref_count.items() if b != 0}
            prc = {a: b for a, b in o.prev_rc.items() if b != 0}
            if rc != prc:
                return "reference counts changed by a batch that did not complete"
        return _reads_agree(o.trie, o.mu, H.PROBES)
    if k == "op" or k == "end":
        # the trie remains fully usable and correct afterwards
        r = _reads_agree(o.trie, o.mu, H.PROBES)
        if r:
            return r
        if o.trie.root_hash != yp.root(o.mu):
            return "root after later operation is not canonical"
        if o.prune:
            if dict(o.db) != yp.hashed_nodes(o.mu):
                return "database not the live set after later operation"
    return None


CHECKERS = {"C01": check_c01, "C02": check_c02, "C04": check_c04, "C05": check_c05, "C06": check_c06}


# --------------------------------------------------------------------------- case generation
def jprog(prog):
    out = []
    for s in prog:
        if s[0] == "op":
            out.append(["op", H.jop(s[1])])
        else:
            out.append(["batch", [H.jop(x) for x in s[1]], s[2], s[3]])
    return out


def unjprog(j):
    out = []
    for s in j:
        if s[0] == "op":
            out.append(("op", H.unjop(s[1])))
        else:
            out.append(("batch", [H.unjop(x) for x in s[1]], s[2], s[3]))
    return out


def programs_from_history(hist, modes):
    """The ways one history is applied."""
    out = []
    if "direct" in modes:
        out.append([("op", o) for o in hist])
    if "batch" in modes and hist:
        out.append([("batch", list(hist), None, None)])
    if "mixed" in modes and len(hist) >= 2:
        out.append([("op", hist[0]), ("batch", list(hist[1:]), None, None)])
        out.append([("batch", list(hist[:-1]), None, None), ("op", hist[-1])])
    return out


def abort_programs(hist):
    """A batch at every position of the history, aborted at every op; then the rest direct."""
    out = []
    n = len(hist)
    for start in range(n):
        for end in range(start + 1, n + 1):
            pre = [("op", o) for o in hist[:start]]
            post = [("op", o) for o in hist[end:]]
            body = list(hist[start:end])
            for a in range(len(body) + 1):
                out.append(pre + [("batch", body, a, None)] + post)
            out.append(pre + [("batch", body, None, None)] + post)
    return out


def fault_programs(hist, max_writes=6):
    out = []
    n = len(hist)
    for start in range(n):
        pre = [("op", o) for o in hist[:start]]
        body = list(hist[start:])
        for f in range(max_writes):
            out.append(pre + [("batch", body, None, f)])
    return out


def _work(chunk, prop, kind):
    p = Partial()
    check = CHECKERS[prop]
    for item in chunk:
        hist, prune, syntax = item
        if kind == "modes":
            progs = programs_from_history(hist, ("direct", "batch", "mixed"))
        elif kind == "abort":
            progs = abort_programs(hist)
            if not prune:
                progs += fault_programs(hist)
        else:
            progs = [hist]  # already a program
        for prog in progs:
            p.evaluations += 1
            res = run_program(prog, prune, check, syntax)
            mu = {}
            kinds = []
            for s in prog:
                if s[0] == "op":
                    H.apply_model(mu, s[1])
                    kinds.append(s[1][0])
                else:
                    kinds.append("B%s%s" % ("a" if s[2] is not None else "", "f" if s[3] is not None else ""))
            p.sig(H.shape_signature(mu), tuple(kinds), prune)
            if res:
                p.violation(res, {"driver": "hexary_props", "prop": prop, "prune": prune,
                                  "syntax": syntax, "program": jprog(prog)})
            elif p.evaluations % 997 == 1:
                p.sample({"prune": prune, "program": jprog(prog)})
    return p


def random_programs(seed, n, n_ops):
    rng = random.Random(seed)
    out = []
    for _ in range(n):
        hist, _pool = H.random_history(rng, rng.randrange(3, n_ops + 1))
        prog = []
        i = 0
        while i < len(hist):
            if rng.random() < 0.35:
                ln = rng.randrange(1, 6)
                body = list(hist[i:i + ln])
                r = rng.random()
                abort_at = rng.randrange(len(body) + 1) if r < 0.3 else None
                fault_at = rng.randrange(5) if 0.3 <= r < 0.4 else None
                prog.append(("batch", body, abort_at, fault_at))
                i += ln
            else:
                prog.append(("op", hist[i]))
                i += 1
        prune = rng.random() < 0.5
        if prune:
            prog = [s if s[0] == "op" else (s[0], s[1], s[2], None) for s in prog]
        out.append((prog, prune, rng.randrange(2)))
    return out


def run(prop, tier, seed):
    thorough = tier == "thorough"
    total = Partial()
    scope = []
    if prop in ("C01", "C02", "C06"):
        items = []
        prunes = (False, True) if prop != "C06" else (True,)
        for pr in prunes:
            for h in H.enum_histories(H.ALPHABET, 1):
                items.append((h, pr, 0))
            for h in H.enum_histories(H.ALPHABET, 2):
                items.append((h, pr, len(items) % 2))
            keys3 = H.ALPHABET[:6] if thorough else [H.ALPHABET[i] for i in (0, 2, 3, 4, 5)]
            vals3 = H.VALUES if thorough else [H.VALUES[0], H.VALUES[2]]
            for h in H.enum_histories(keys3, 3, vals3):
                items.append((h, pr, 0))
        scope.append("all histories of length<=2 over 10 keys x 5 ops; length 3 over %d keys x %d ops; "
                     "each applied direct / in one batch / mixed; prune in %s"
                     % (len(keys3), len(H.ops_over(keys3[:1], vals3)), list(prunes)))
        total.merge(run_chunks(_work, items, (prop, "modes")))
    if prop in ("C04", "C05"):
        items = []
        prunes = (False,) if prop == "C04" else (False, True)
        keys = [H.ALPHABET[i] for i in (0, 2, 3, 4, 5, 7)]
        vals = [H.VALUES[0], H.VALUES[2]]
        for pr in prunes:
            for h in H.enum_histories(keys, 2, vals):
                items.append((h, pr, 0))
            k3 = keys if thorough else keys[1:4]
            for h in H.enum_histories(k3, 3, vals):
                items.append((h, pr, 0))
        scope.append("histories of length 2 over 6 keys and 3 over %d keys (4 ops per key); a batch over every "
                     "contiguous segment, aborted before every op and at the end, or committed; commit-write "
                     "fault at each of the first 6 writes (non-pruning); prune in %s" % (len(k3), list(prunes)))
        total.merge(run_chunks(_work, items, (prop, "abort")))
    # seeded random programs: longer keys (<=33 bytes), values around the 32-byte threshold
    nrand = 6000 if thorough else 600
    rp = random_programs(seed, nrand, 40 if thorough else 24)
    if prop == "C06":
        rp = [(p, True, s) for p, _, s in rp]
        rp = [([s if s[0] == "op" else (s[0], s[1], s[2], None) for s in p], pr, sy) for p, pr, sy in rp]
    if prop == "C04":
        rp = [(p, False, s) for p, _, s in rp]
    scope.append("%d seeded random programs (seed %d): <=%d ops, keys <=33 bytes sharing prefixes, values of "
                 "1..40 bytes, batches committed / aborted / commit-faulted" % (nrand, seed, 40 if thorough else 24))
    total.merge(run_chunks(_work, rp, (prop, "prog")))
    return total, scope


def replay(case):
    prog = unjprog(case["program"])
    return run_program(prog, case["prune"], CHECKERS[case["prop"]], case.get("syntax", 0))
