"""Bounded stand-in for C14 (SparseMerkleTree) and C15 (SparseMerkleProof) on the real trie.smt,
against an independently computed full-depth Merkle root."""
import itertools
import random

from eth_hash.auto import keccak

from vtlib import env  # noqa: F401
from vtlib.par import Partial, run_chunks

from trie.smt import SparseMerkleTree, SparseMerkleProof, calc_root
from trie.exceptions import ValidationError

RULE = ("histories enumerated as in bounded_scope; distinct-nontrivial = distinct (key size, default kind, multiset of "
        "op kinds, divergence-bit pattern of the keys used, outcome class) tuples")


def default_hashes(D, default):
    out = [keccak(default)]
    for _ in range(D):
        out.append(keccak(out[-1] + out[-1]))
    return out


def M(m, D, dh, d, prefix, memo=None):
    """Merkle root of the subtree at depth d below `prefix` of the full depth-D tree with leaves
    keccak(m.get(key, default))."""
    if memo is not None and (d, prefix) in memo:
        return memo[(d, prefix)]
    inside = [k for k in m if (k >> (D - d)) == prefix]
    if not inside:
        r = dh[D - d]
    elif d == D:
        r = keccak(m[prefix])
    else:
        sub = {k: m[k] for k in inside}
        r = keccak(M(sub, D, dh, d + 1, 2 * prefix, memo) + M(sub, D, dh, d + 1, 2 * prefix + 1, memo))
    if memo is not None:
        memo[(d, prefix)] = r
    return r


def keys_for(size):
    """Keys diverging at the first, a middle and the last bit."""
    D = 8 * size
    base = int.from_bytes(bytes([0x5A] * size), "big")
    ks = [base, base ^ 1, base ^ (1 << (D - 1)), base ^ (1 << (D // 2)), base ^ 3, 0, (1 << D) - 1]
    out = []
    for k in ks:
        b = k.to_bytes(size, "big")
        if b not in out:
            out.append(b)
    return out


def path_hashes(m, D, dh, key_int):
    memo = {}
    return tuple(M(m, D, dh, d, key_int >> (D - d), memo) for d in range(1, D + 1))


def check_tree(t, m, D, dh, default, size, keys, init_root):
    root = M(m, D, dh, 0, 0)
    if t.root_hash != root:
        return "root %s is not the Merkle root %s of the full depth-%d tree" % (t.root_hash.hex()[:12], root.hex()[:12], D)
    if all(v == default for v in m.values()) and t.root_hash != init_root:
        return "everything cleared but the root is not the initial root"
    fd = SparseMerkleTree.from_db(t.db, t.root_hash, key_size=size, default=default)
    for kb in keys:
        k = int.from_bytes(kb, "big")
        val = m.get(k, default)
        for tree in (t, fd):
            try:
                g = tree.get(kb)
                oc = "value"
            except KeyError:
                oc = "absent"
            except Exception as e:
                return "get(%r) raised %s" % (kb, type(e).__name__)
            ex = tree.exists(kb)
            inn = kb in tree
            if val == b"":
                if oc != "absent" or ex or inn:
                    return "blank value under %r must read as absent (get %s, exists %r)" % (kb, oc, ex)
            else:
                if oc != "value" or g != val or not ex or not inn or tree[kb] != val:
                    return "get(%r) = %r (%s), last written / default is %r" % (kb, g if oc == "value" else None, oc, val)
                br = tree.branch(kb)
                if calc_root(kb, val, br) != root:
                    return "calc_root(key, value, branch(key)) != root for %r" % (kb,)
                if len(br) != D:
                    return "branch of wrong length"
    return None


def run_tree_history(size, default, hist, p=None, reopen=None):
    """reopen: index of the operation before which the tree is replaced by SparseMerkleTree.from_db over the same
    database and root (the history continues on the re-opened tree, which must behave as the same map)"""
    D = 8 * size
    dh = default_hashes(D, default)
    try:
        t = SparseMerkleTree(key_size=size, default=default)
    except Exception as e:
        return "constructor raised %s" % type(e).__name__
    init_root = t.root_hash
    if init_root != dh[D]:
        return "initial root is not the all-default root"
    m = {}
    keys = keys_for(size)
    for i, op in enumerate(hist):
        kb = op[1]
        k = int.from_bytes(kb, "big")
        if reopen == i:
            try:
                t = SparseMerkleTree.from_db(t.db, t.root_hash, key_size=size, default=default)
            except Exception as e:
                return "from_db before op %d raised %s" % (i, type(e).__name__)
        db_before = dict(t.db)
        try:
            if op[0] == "set":
                ret = t.set(kb, op[2])
                m[k] = op[2]
            elif op[0] == "setitem":
                t[kb] = op[2]
                ret = None
                m[k] = op[2]
            elif op[0] == "del":
                ret = t.delete(kb)
                m[k] = default
            else:
                del t[kb]
                ret = None
                m[k] = default
        except Exception as e:
            return "op %d %s raised %s: %s" % (i, op[0], type(e).__name__, e)
        for h, v in db_before.items():
            if t.db.get(h) != v:
                return "op %d changed an existing database entry" % i
        if ret is not None:
            want = path_hashes(m, D, dh, k)
            if tuple(ret) != want:
                return "op %d (%s %r): returned hashes are not the updated path hashes root-to-leaf" % (i, op[0], kb)
        r = check_tree(t, m, D, dh, default, size, keys, init_root)
        if r:
            return "after op %d (%s %r): %s" % (i, op[0], kb, r)
    return None


def run_proof_history(size, default, tracked, hist, trunc_plan, p=None):
    """hist: updates of the tree; the proof for `tracked` is fed each; trunc_plan: index -> length."""
    D = 8 * size
    t = SparseMerkleTree(key_size=size, default=default)
    m = {}
    ti = int.from_bytes(tracked, "big")
    if default == b"":
        t.set(tracked, b"init")
        m[ti] = b"init"
    try:
        pr = SparseMerkleProof(tracked, t.get(tracked), t.branch(tracked))
    except Exception as e:
        return "creating the proof raised %s" % type(e).__name__
    for i, op in enumerate(hist):
        kb = op[1]
        k = int.from_bytes(kb, "big")
        if op[0] == "set":
            val = op[2]
            upd = t.set(kb, val)
        else:
            val = default
            upd = t.delete(kb)
        m[k] = val
        diff = k ^ ti
        bp = None if diff == 0 else D - diff.bit_length()
        if i in trunc_plan:
            L = trunc_plan[i]
            short = tuple(upd[:L])
            before = (pr.key, pr.value, pr.branch)
            try:
                pr.update(kb, val, short)
                oc = "ok"
            except ValidationError:
                oc = "refused"
            except Exception as e:
                return "update with a list truncated to %d raised %s instead of ValidationError" % (L, type(e).__name__)
            must_refuse = bp is not None and L <= bp
            if p is not None:
                p.sig(size, default == b"", "trunc", bp, L > (bp or -1), oc)
            if must_refuse:
                if oc != "refused":
                    return "update accepted a node list of length %d, first differing bit is %d" % (L, bp)
                if (pr.key, pr.value, pr.branch) != before:
                    return "refused update changed the proof"
                pr.update(kb, val, upd)
            else:
                if oc != "ok":
                    return "update refused a node list of length %d although only %s hashes are needed" % (L, bp)
        else:
            try:
                pr.update(kb, val, upd)
            except Exception as e:
                return "update raised %s: %s" % (type(e).__name__, e)
            if p is not None:
                p.sig(size, default == b"", "full", bp)
        # the proof agrees with the tree without querying it: compare with the tree's own data
        tv, tb = t._get(tracked)
        if pr.value != tv or pr.value != m.get(ti, default):
            return "after update %d: proof value %r, tree value %r" % (i, pr.value, tv)
        if tuple(pr.branch) != tuple(tb):
            bad = [j for j in range(D) if pr.branch[j] != tb[j]]
            return "after update %d (key %r): proof branch differs from the tree's at depths %r" % (i, kb, bad)
        if pr.root_hash != t.root_hash:
            return "after update %d: proof root differs from the tree root" % i
        if pr.key != tracked:
            return "tracked key changed"
    return None


def jh(hist):
    return [[o[0], o[1].hex()] + ([o[2].hex()] if len(o) > 2 else []) for o in hist]


def ujh(j):
    return [(o[0], bytes.fromhex(o[1])) + ((bytes.fromhex(o[2]),) if len(o) > 2 else ()) for o in j]


def _work14(chunk):
    p = Partial()
    for size, default, hist in chunk:
        res = run_tree_history(size, default, hist, p)
        p.evaluations += 1
        ro = None
        if not res:
            # the same history continued on a tree re-opened with from_db (before the first / the second operation)
            ro = 0 if len(hist) == 1 else 1
            res = run_tree_history(size, default, hist, None, reopen=ro)
            p.evaluations += 1
            if res:
                res = "tree re-opened with from_db before op %d: %s" % (ro, res)
        p.sig(size, default == b"", tuple(sorted(o[0] for o in hist)), tuple(keys_for(size).index(o[1]) for o in hist))
        if res:
            p.violation(res, {"driver": "smtb", "prop": "C14", "size": size, "default": default.hex(), "hist": jh(hist),
                              "reopen": ro})
        elif p.evaluations % 499 == 1:
            p.sample({"key_size": size, "default": default.hex(), "history": jh(hist)})
    return p


def _work15(chunk):
    p = Partial()
    for size, default, tracked, hist, plan in chunk:
        res = run_proof_history(size, default, tracked, hist, plan, p)
        p.evaluations += 1
        if res:
            p.violation(res, {"driver": "smtb", "prop": "C15", "size": size, "default": default.hex(),
                              "tracked": tracked.hex(), "hist": jh(hist), "plan": {str(a): b for a, b in plan.items()}})
        elif p.evaluations % 499 == 1:
            p.sample({"key_size": size, "tracked": tracked.hex(), "updates": jh(hist), "truncate": plan})
    return p


def ops_for(size, default, nkeys):
    out = []
    for kb in keys_for(size)[:nkeys]:
        out.append(("set", kb, b"a"))
        out.append(("set", kb, b"bb" * 20))
        out.append(("setitem", kb, b""))
        out.append(("del", kb))
        out.append(("delitem", kb))
    return out


def run(prop, tier, seed):
    thorough = tier == "thorough"
    rng = random.Random(seed)
    sizes = [1, 2, 3]
    defaults = [b"", b"dflt"]
    if prop == "C14":
        items = []
        for size in sizes:
            for default in defaults:
                ops = ops_for(size, default, 6)
                for L in (1, 2):
                    for h in itertools.product(ops, repeat=L):
                        items.append((size, default, h))
                ops3 = ops_for(size, default, 4 if thorough else 3)
                ops3 = [o for o in ops3 if o[0] in ("set", "del", "setitem")]
                for h in itertools.product(ops3, repeat=3):
                    if thorough or size < 3 or rng.random() < 0.3:
                        items.append((size, default, h))
        for size in ([32, 17, 8] if thorough else [32]):
            for default in defaults:
                ops = ops_for(size, default, 5)
                for _ in range(40 if thorough else 10):
                    items.append((size, default, tuple(rng.choice(ops) for _ in range(rng.randrange(2, 6)))))
        total = run_chunks(_work14, items)
        return total, ["%d histories: key sizes 1,2,3 x default b'' / b'dflt' x all histories of length <=2 over 6 keys "
                       "(diverging at first / middle / last bit, all-zero, all-one) x 5 ops (set 1-byte / 40-byte, "
                       "set blank via []=, delete, del []) and of length 3 over %d keys x 3 ops%s; key size 32 sampled "
                       "(seed %d); after every op: root vs independent full-tree root, database only extended, returned "
                       "path hashes, get/exists/in/[] and calc_root(branch) for 7 keys, from_db reads identically; every history is run a second time with the tree re-opened "
                       "through from_db before its first (length 1) / second operation"
                       % (len(items), 4 if thorough else 3, "" if thorough else " (size 3 sampled 30%)", seed)]
    items = []
    for size in sizes:
        D = 8 * size
        ks = keys_for(size)
        for default in defaults:
            upd = []
            for kb in ks[:6]:
                upd.append(("set", kb, b"u"))
                upd.append(("del", kb))
            for tracked in ks[:5]:
                for L in (1, 2):
                    for h in itertools.product(upd, repeat=L):
                        items.append((size, default, tracked, h, {}))
                # every truncation length of the update list, at the first update
                for op in upd:
                    for ln in range(0, D + 1):
                        items.append((size, default, tracked, (op,), {0: ln}))
                for _ in range(60 if thorough else 15):
                    h = tuple(rng.choice(upd) for _ in range(rng.randrange(3, 7)))
                    plan = {rng.randrange(len(h)): rng.randrange(0, D + 1)}
                    items.append((size, default, tracked, h, plan))
    for _ in range(30 if thorough else 8):
        size = 32
        ks = keys_for(size)
        upd = [("set", kb, b"u") for kb in ks[:6]] + [("del", kb) for kb in ks[:6]]
        h = tuple(rng.choice(upd) for _ in range(4))
        items.append((size, rng.choice(defaults), rng.choice(ks[:5]), h, {1: rng.randrange(0, 257)}))
    total = run_chunks(_work15, items)
    return total, ["%d update streams: key sizes 1,2,3 (32 sampled) x default b'' / b'dflt' x 5 tracked keys x all streams "
                   "of length <=2 over 12 updates (set / delete of 6 keys differing from the tracked key at the first, "
                   "middle, last bit, or equal to it) x EVERY truncation length 0..depth of the node-hash list, plus seeded "
                   "random streams of length 3-6 with one truncated update (seed %d); after every update the proof's "
                   "value, branch and root are compared with the tree's" % (len(items), seed)]


def replay(case):
    default = bytes.fromhex(case["default"])
    if case["prop"] == "C14":
        return run_tree_history(case["size"], default, ujh(case["hist"]), reopen=case.get("reopen"))
    return run_proof_history(case["size"], default, bytes.fromhex(case["tracked"]), ujh(case["hist"]),
                             {int(a): b for a, b in case["plan"].items()})
