"""Bounded stand-in for C12 (BinaryTrie map + canonical root) and C13 (branches / witnesses) on the
real trie.binary / trie.branches, against the map model and canonical builder of spec/binmodel.py."""
import itertools
import random

from vtlib import env  # noqa: F401
from vtlib.par import Partial, run_chunks
from spec import binmodel as B

from trie.binary import BinaryTrie
from trie.branches import (check_if_branch_exist, get_branch, if_branch_valid, get_trie_nodes,
                           get_witness_for_key_prefix)
from trie.exceptions import NodeOverrideError, InvalidKeyError

RULE = ("histories / tries enumerated as in bounded_scope; distinct-nontrivial = distinct (canonical trie shape, "
        "operation kind, key relation to stored keys, outcome class) tuples")

# keys of 1-3 bytes sharing long bit prefixes
KEYS = [b"\x12", b"\x13", b"\x12\x34", b"\x12\x35", b"\x12\x34\x56", b"\x92", b"\x12\xb4", b"\x10",
        b"\x12\x34\x57", b"\x13\x00"]
VALS = [b"v", b"w" * 40]
PROBE = sorted(set(KEYS) | {b"\x11", b"\x12\x34\x56\x78", b"\x12\x36", b"\x93"})


def shape(mu):
    def sg(n):
        if n is None:
            return "_"
        if n[0] == "leaf":
            return "L"
        if n[0] == "kv":
            return "K%d(%s)" % (min(len(n[1]), 9), sg(n[2]))
        return "B(%s,%s)" % (sg(n[1]), sg(n[2]))
    return sg(B.build(sorted((B.bits_of(k), v) for k, v in mu.items())))


def relation(mu, k):
    if k in mu:
        return "stored"
    if B.conflict(mu, k):
        return "conflict"
    return "free"


def all_ops(keys):
    out = []
    for k in keys:
        for v in VALS:
            out.append(("set", k, v))
        out.append(("del", k))
        out.append(("sub", k))
    return out


def apply_checked(t, mu, op, p=None):
    """Apply op to the real trie and the model according to the refusal table (DESIGN 7 C12).
    Returns violation or None."""
    kind, k = op[0], op[1]
    root_before = t.root_hash
    db_before = dict(t.db)
    rel = relation(mu, k)
    try:
        if kind == "set":
            if len(op[2]) % 2:
                t[k] = op[2]
            else:
                t.set(k, op[2])
        elif kind == "del":
            t.delete(k)
        else:
            t.delete_subtrie(k)
        oc = "ok"
    except NodeOverrideError:
        oc = "refused"
    except Exception as e:
        return "%s(%r) raised %s: %s" % (kind, k, type(e).__name__, e)
    if p is not None:
        p.sig(shape(mu), kind, rel, oc)
    for h, v in db_before.items():
        if t.db.get(h) != v:
            return "%s(%r) removed or changed a database entry" % (kind, k)
    if oc == "refused":
        if t.root_hash != root_before:
            return "%s(%r) raised and changed the root" % (kind, k)
        if kind == "set":
            if rel != "conflict":
                return "set(%r) refused although the key is neither a proper prefix nor extension of a stored key" % (k,)
        elif kind == "del":
            if k in mu:
                return "delete(%r) of a stored key refused" % (k,)
        else:
            if any(B.bits_of(s)[: len(B.bits_of(k))] == B.bits_of(k) for s in mu):
                return "delete_subtrie(%r) refused although stored keys start with it" % (k,)
        return None
    # returned normally
    if kind == "set":
        if rel == "conflict":
            return "set(%r) accepted although the key is a proper prefix / extension of a stored key" % (k,)
        mu[k] = op[2]
    elif kind == "del":
        mu.pop(k, None)
    else:
        kb = B.bits_of(k)
        for s in list(mu):
            if B.bits_of(s)[: len(kb)] == kb:
                del mu[s]
    return None


def check_state(t, mu, roots):
    want = B.canonical_root(mu)
    if t.root_hash != want:
        return "root %s is not the canonical root %s of the contents" % (t.root_hash.hex()[:12], want.hex()[:12])
    if not mu and t.root_hash != B.BLANK:
        return "empty trie without the blank hash"
    for k in PROBE:
        try:
            g = t.get(k)
            e = t.exists(k)
            i = k in t
            gi = t[k]
        except Exception as ex:
            return "get(%r) raised %s" % (k, type(ex).__name__)
        if g != mu.get(k) or gi != mu.get(k) or e != (k in mu) or i != e:
            return "get(%r) = %r, model %r" % (k, g, mu.get(k))
    return None


def run_history(hist, p=None):
    db = {}
    t = BinaryTrie(db)
    mu = {}
    roots = [(t.root_hash, {})]
    for i, op in enumerate(hist):
        r = apply_checked(t, mu, op, p)
        if r:
            return "op %d: %s" % (i, r)
        r = check_state(t, mu, roots)
        if r:
            return "after op %d %r: %s" % (i, op[:2], r)
        roots.append((t.root_hash, dict(mu)))
    for rh, m in roots:
        old = BinaryTrie(db, rh)
        for k in list(m) + [b"\x11"]:
            try:
                if old.get(k) != m.get(k):
                    return "earlier root %s no longer reads %r correctly" % (rh.hex()[:12], k)
            except Exception as ex:
                return "earlier root %s: get(%r) raised %s" % (rh.hex()[:12], k, type(ex).__name__)
    return None


# ------------------------------------------------------------------------------------- C13
def build(mu):
    t = BinaryTrie({})
    for k in sorted(mu):
        t.set(k, mu[k])
    return t


def check_branches(mu, mu2, p=None):
    t = build(mu)
    db, root = t.db, t.root_hash
    struct = B.build(sorted((B.bits_of(k), v) for k, v in mu.items()))
    nodes = B.all_nodes(struct)
    sh = shape(mu)
    n = 0
    # get_trie_nodes: exactly the nodes reachable from the root
    got = get_trie_nodes(db, root)
    n += 1
    if set(got) != set(nodes.values()):  # as a set: a node shared by identical subtrees is listed once per occurrence
        return "get_trie_nodes is not exactly the reachable node set", n
    other = build(mu2)
    foreign = list(other.db.values())
    for k in PROBE:
        kb = B.bits_of(k)
        rel = relation(mu, k)
        # check_if_branch_exist
        n += 1
        want = any(B.bits_of(s)[: len(kb)] == kb for s in mu)
        try:
            g = check_if_branch_exist(db, root, k)
        except Exception as e:
            return "check_if_branch_exist(%r) raised %s" % (k, type(e).__name__), n
        if g != want:
            return "check_if_branch_exist(%r) = %r, model %r" % (k, g, want), n
        # get_branch
        n += 1
        try:
            br = get_branch(db, root, k)
            oc = "ok"
        except InvalidKeyError:
            oc = "invalid"
        except Exception as e:
            return "get_branch(%r) raised %s" % (k, type(e).__name__), n
        if p is not None:
            p.sig(sh, "branch", rel, oc)
        if oc == "invalid":
            if rel != "conflict":
                return "get_branch(%r) refused a key that is stored or unrelated to stored keys" % (k,), n
        else:
            if mu:
                for x in br:
                    if x not in nodes.values():
                        return "get_branch(%r) returned a node that is not in the trie" % (k,), n
                truth = mu.get(k)
                try:
                    ok = if_branch_valid(br, root, k, truth)
                except Exception as e:
                    return "if_branch_valid rejects the genuine branch for %r: %s" % (k, type(e).__name__), n
                if ok is not True:
                    return "if_branch_valid did not confirm the genuine branch for %r" % (k,), n
                # corruptions never validate an answer the trie does not give
                wrong_answers = [b"zz", None] if truth is not None else [b"zz", b"v"]
                variants = [("genuine", list(br))]
                for i in range(len(br)):
                    variants.append(("drop%d" % i, [x for j, x in enumerate(br) if j != i]))
                    alt = bytearray(br[i])
                    alt[-1] ^= 1
                    variants.append(("flip%d" % i, [bytes(alt) if j == i else x for j, x in enumerate(br)]))
                variants.append(("foreign", list(br) + foreign))
                variants.append(("otherkey", list(get_branch(db, root, sorted(mu)[0]))))
                for name, cand in variants:
                    for ans in wrong_answers:
                        if ans == truth:
                            continue
                        n += 1
                        try:
                            r = if_branch_valid(cand, root, k, ans) if cand else None
                        except Exception:
                            r = None
                        if r is True:
                            return "if_branch_valid confirmed the wrong answer %r for %r from a %s branch" % (ans, k, name), n
                    # and the true answer, when confirmed, must be the true answer (trivial) -- but a
                    # truncated branch must not confirm absence of a stored key
                if p is not None:
                    p.sig(sh, "corrupt", rel, len(br))
        # witness
        n += 1
        try:
            w = get_witness_for_key_prefix(db, root, k)
            oc = "ok"
        except InvalidKeyError:
            oc = "invalid"
        except Exception as e:
            return "get_witness_for_key_prefix(%r) raised %s" % (k, type(e).__name__), n
        if p is not None:
            p.sig(sh, "witness", rel, oc)
        if oc == "invalid":
            # refused only for running past a leaf: some stored key is a proper prefix of k
            if not any(B.is_proper_prefix(B.bits_of(s), kb) for s in mu):
                return "get_witness_for_key_prefix(%r) refused although the prefix does not run past a leaf" % (k,), n
        else:
            for x in w:
                if x not in nodes.values():
                    return "witness for %r contains a node that is not in the trie" % (k,), n
            wdb = {B.keccak(x): x for x in w}
            for s in PROBE + [k + b"\x00", k + b"\xff"]:
                if B.bits_of(s)[: len(kb)] != kb:
                    continue
                try:
                    g = BinaryTrie(wdb, root).get(s)
                except KeyError:
                    return "witness for prefix %r is not sufficient to answer get(%r)" % (k, s), n
                if g != mu.get(s):
                    return "witness for prefix %r answers get(%r) = %r, trie says %r" % (k, s, g, mu.get(s)), n
    return None, n


def _work12(chunk):
    p = Partial()
    for hist in chunk:
        res = run_history(hist, p)
        p.evaluations += 1
        if res:
            p.violation(res, {"driver": "binary", "prop": "C12",
                              "hist": [[o[0], o[1].hex()] + ([o[2].hex()] if len(o) > 2 else []) for o in hist]})
        elif p.evaluations % 997 == 1:
            p.sample([[o[0], o[1].hex()] + ([o[2].hex()[:6]] if len(o) > 2 else []) for o in hist])
    return p


def _work13(chunk):
    p = Partial()
    for mu, mu2 in chunk:
        res, n = check_branches(mu, mu2, p)
        p.evaluations += n
        if res:
            p.violation(res, {"driver": "binary", "prop": "C13", "mu": {a.hex(): b.hex() for a, b in mu.items()},
                              "mu2": {a.hex(): b.hex() for a, b in mu2.items()}})
        elif len(mu) == 3 and p.evaluations % 7 == 0:
            p.sample({"trie": {a.hex(): b.hex()[:6] for a, b in mu.items()}, "probe_keys": len(PROBE)})
    return p


def prefix_free_maps(max_keys):
    out = []
    for r in range(0, max_keys + 1):
        for combo in itertools.combinations(range(len(KEYS)), r):
            ks = [KEYS[i] for i in combo]
            bits = [B.bits_of(k) for k in ks]
            if any(a != b and b[: len(a)] == a for a in bits for b in bits):
                continue
            out.append({k: VALS[i % 2] for i, k in enumerate(ks)})
    return out


def run(prop, tier, seed):
    thorough = tier == "thorough"
    if prop == "C12":
        ops = all_ops(KEYS)
        hists = [(a,) for a in ops] + list(itertools.product(ops, repeat=2))
        k3 = KEYS[:7] if thorough else KEYS[:5]
        hists += list(itertools.product(all_ops(k3), repeat=3))
        rng = random.Random(seed)
        for _ in range(3000 if thorough else 400):
            hists.append(tuple(rng.choice(ops) for _ in range(rng.randrange(4, 12))))
        total = run_chunks(_work12, hists)
        return total, ["%d histories: all of length <=2 over 10 keys of 1-3 bytes sharing long bit prefixes x 4 ops (set "
                       "1-byte / 40-byte value, delete, delete_subtrie); all of length 3 over %d keys; seeded random of "
                       "length 4-11 (seed %d); after every op: refusal table, root unchanged on refusal, database only "
                       "extended, canonical root, get/exists/[]/in on %d probe keys; at the end every earlier root re-read"
                       % (len(hists), len(k3), seed, len(PROBE))]
    maps = prefix_free_maps(4 if thorough else 3)
    items = [(m, maps[(i * 5 + 2) % len(maps)]) for i, m in enumerate(maps)]
    total = run_chunks(_work13, items)
    return total, ["%d prefix-free key sets of <=%d keys x %d probe keys / prefixes (present, absent, too long, too short): "
                   "check_if_branch_exist, get_trie_nodes, get_branch + if_branch_valid on the genuine branch and on every "
                   "single-node drop, single-bit flip, foreign-node mix and branch-of-another-key with wrong answers, "
                   "get_witness_for_key_prefix sufficiency for every probe key below the prefix"
                   % (len(items), 4 if thorough else 3, len(PROBE))]


def replay(case):
    if case["prop"] == "C12":
        hist = [(o[0], bytes.fromhex(o[1])) + ((bytes.fromhex(o[2]),) if len(o) > 2 else ()) for o in case["hist"]]
        return run_history(hist)
    mu = {bytes.fromhex(a): bytes.fromhex(b) for a, b in case["mu"].items()}
    mu2 = {bytes.fromhex(a): bytes.fromhex(b) for a, b in case["mu2"].items()}
    return check_branches(mu, mu2)[0]
