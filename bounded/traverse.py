"""Bounded stand-in for C08: traverse / traverse_from / root_node on the real HexaryTrie against a
key-set oracle (the canonical structure computed by spec/yp.py), for every nibble path up to two
beyond the longest key."""
from vtlib import env  # noqa: F401
from vtlib.par import Partial, run_chunks
from bounded import hexhist as H
from spec import yp

from trie import HexaryTrie
from trie.exceptions import TraversedPartialPath

RULE = ("(trie, nibble path) pairs enumerated as in bounded_scope; distinct-nontrivial = distinct (trie shape "
        "signature, outcome class T1-node/T1-blank/T2-partial, node type, relation of path to keys) tuples")


class CountingDict(dict):
    reads = 0

    def __getitem__(self, k):
        self.reads += 1
        return dict.__getitem__(self, k)


def _describe(node):
    return (int(node.node_type), tuple(tuple(int(x) for x in s) for s in node.sub_segments), bytes(node.value),
            tuple(int(x) for x in node.suffix))


def _raw_ok(node, struct_node):
    """node.raw must be the raw form of the structural node (embedded children as lists)."""
    return node.raw == yp.raw(struct_node)


def traverse_outcome(t, path):
    try:
        n = t.traverse(path)
        return ("node", n)
    except TraversedPartialPath as e:
        return ("partial", e)


def expected_sim(struct_node, tail):
    if struct_node[0] == "leaf":
        return ("leaf", struct_node[1][len(tail):], struct_node[2])
    return ("ext", struct_node[1][len(tail):], struct_node[2])


def check_path(t, struct, path):
    exp = yp.node_at(struct, path)
    try:
        got = traverse_outcome(t, path)
    except Exception as e:
        return "traverse(%r) raised %s: %s" % (path, type(e).__name__, e), None
    if exp[0] == "blank":
        if got[0] != "node" or _describe(got[1]) != (0, (), b"", ()):
            return "traverse(%r): no stored key starts with the path, expected blank node, got %r" % (path, got), None
        return None, ("blank",)
    if exp[0] == "node":
        if got[0] != "node":
            return "traverse(%r): a node sits there but TraversedPartialPath was raised" % (path,), None
        if _describe(got[1]) != yp.annotate(exp[1]):
            return "traverse(%r) = %r, canonical node is %r" % (path, _describe(got[1]), yp.annotate(exp[1])), None
        if not _raw_ok(got[1], exp[1]):
            return "traverse(%r).raw is not the canonical raw node" % (path,), None
        return None, ("node", exp[1][0])
    # partial
    _, reached, snode, tail = exp
    if got[0] != "partial":
        return "traverse(%r): path ends inside a %s, expected TraversedPartialPath, got %r" % (path, snode[0], _describe(got[1])), None
    e = got[1]
    if tuple(e.nibbles_traversed) != tuple(path[:reached]) or tuple(e.untraversed_tail) != tuple(tail):
        return "traverse(%r): partial pieces %r + %r, expected %r + %r" % (
            path, tuple(e.nibbles_traversed), tuple(e.untraversed_tail), path[:reached], tail), None
    if _describe(e.node) != yp.annotate(snode) or not _raw_ok(e.node, snode):
        return "traverse(%r): enclosing node wrong" % (path,), None
    sim = e.simulated_node
    want = expected_sim(snode, tail)
    if _describe(sim) != yp.annotate(want) or sim.raw != yp.raw(want):
        return "traverse(%r): simulated node %r, expected %r" % (path, _describe(sim), yp.annotate(want)), None
    return None, ("partial", snode[0], len(tail) == len(snode[1]))


def check_from(t, db, struct, prefix, seg):
    """traverse_from(node at prefix, seg) == traverse(prefix + seg), <= one db read per hop."""
    first = traverse_outcome(t, prefix)
    parent = first[1] if first[0] == "node" else first[1].simulated_node
    full = tuple(prefix) + tuple(seg)
    try:
        a = traverse_outcome(t, full)
    except Exception as e:
        return "traverse(%r) raised %s" % (full, type(e).__name__)
    db.reads = 0
    try:
        n = t.traverse_from(parent, seg)
        b = ("node", n)
    except TraversedPartialPath as e:
        b = ("partial", e)
    except Exception as e:
        return "traverse_from(node@%r, %r) raised %s: %s" % (prefix, seg, type(e).__name__, e)
    reads = db.reads
    simulated = first[0] == "partial"
    if simulated and len(seg) == 0:
        # traverse(prefix) itself reports the simulated node; traverse_from(sim, ()) must hand it back
        if b[0] != "node" or _describe(b[1]) != _describe(parent) or b[1].raw != parent.raw:
            return "traverse_from(simulated node@%r, ()) is not that simulated node" % (prefix,)
        return None
    if reads > len(seg):
        return "traverse_from(node@%r, %r) read %d database entries for %d hops" % (prefix, seg, reads, len(seg))
    if a[0] != b[0]:
        return "traverse_from(node@%r, %r) outcome %s but traverse(%r) outcome %s" % (prefix, seg, b[0], full, a[0])
    if a[0] == "node":
        if _describe(a[1]) != _describe(b[1]) or a[1].raw != b[1].raw:
            return "traverse_from(node@%r, %r) != traverse(%r)" % (prefix, seg, full)
    else:
        ea, eb = a[1], b[1]
        if simulated:
            # still inside the same leaf / extension: the split point differs by construction (the
            # simulated node starts at `prefix`), the described remainder must be the same
            if (tuple(prefix) + tuple(eb.nibbles_traversed) + tuple(eb.untraversed_tail) != full
                    or _describe(ea.simulated_node) != _describe(eb.simulated_node)
                    or ea.simulated_node.raw != eb.simulated_node.raw):
                return "traverse_from(simulated node@%r, %r) describes a different remainder than traverse(%r)" % (
                    prefix, seg, full)
        elif (tuple(prefix) + tuple(eb.nibbles_traversed) != tuple(ea.nibbles_traversed)
                or tuple(ea.untraversed_tail) != tuple(eb.untraversed_tail)
                or _describe(ea.simulated_node) != _describe(eb.simulated_node)
                or ea.simulated_node.raw != eb.simulated_node.raw
                or _describe(ea.node) != _describe(eb.node)):
            return "traverse_from(node@%r, %r) partial-path report differs from traverse(%r)" % (prefix, seg, full)
    return None


def check_trie(mu, p=None):
    db = CountingDict()
    t = H.build_trie(mu, db=db)
    struct = yp.structure(mu)
    shape = H.shape_signature(mu)
    paths = H.nibble_paths(mu)
    n = 0
    rn = t.root_node
    if _describe(rn) != _describe(t.traverse(())) or rn.raw != t.traverse(()).raw:
        return "root_node != traverse(())", n
    for path in paths:
        n += 1
        res, sig = check_path(t, struct, path)
        if res:
            return res, n
        if p is not None:
            p.sig(shape, sig)
        for cut in range(len(path) + 1):
            prefix, seg = path[:cut], path[cut:]
            if yp.node_at(struct, prefix)[0] == "blank" and prefix != ():
                continue  # no node (real or simulated) is obtained at a prefix where nothing is stored
            n += 1
            res = check_from(t, db, struct, prefix, seg)
            if res:
                return res, n
    return None, n


def check_root_node_history(mu):
    """root_node equals traverse(()) on ONE long-lived trie object after every kind of root change: direct set /
    delete, committed and aborted squash_changes batches, direct assignment of an earlier root hash"""
    from trie import HexaryTrie
    items = sorted(mu.items())
    n = 0
    for prune in (False, True):
        t = HexaryTrie({}, prune=prune)
        model = {}
        roots = []

        def same(where):
            rn, tv = t.root_node, t.traverse(())
            if _describe(rn) != _describe(tv) or rn.raw != tv.raw:
                return "root_node != traverse(()) %s (prune=%r): root_node describes %r, traverse(()) %r" % (
                    where, prune, _describe(rn), _describe(tv))
            want = yp.node_at(yp.structure(model), ())
            if _describe(rn)[0] != {"blank": 0, "leaf": 1, "ext": 2, "branch": 3}.get(want[0], -1) and False:
                return "root_node type differs from the model " + where
            return None
        r = same("on the empty trie")
        if r:
            return r, n
        for i, (k, v) in enumerate(items):
            n += 1
            if i % 2 == 0:
                t[k] = v
            else:
                with t.squash_changes() as b:
                    b[k] = v
            model[k] = v
            roots.append(t.root_hash)
            r = same("after %s of %r" % ("a direct set" if i % 2 == 0 else "a committed batch", k))
            if r:
                return r, n
        if items:
            k0 = items[0][0]
            try:
                with t.squash_changes() as b:
                    del b[k0]
                    raise KeyboardInterrupt()
            except KeyboardInterrupt:
                pass
            r = same("after an aborted batch")
            if r:
                return r, n
            with t.squash_changes() as b:
                del b[k0]
            model.pop(k0)
            r = same("after a committed batch that deletes %r" % (k0,))
            if r:
                return r, n
            if not prune and len(roots) > 1:
                t.root_hash = roots[0]
                r = same("after assigning an earlier root hash")
                if r:
                    return r, n
    return None, n


def _work(chunk):
    p = Partial()
    for mu in chunk:
        res, n = check_trie(mu, p)
        if not res:
            res, n2 = check_root_node_history(mu)
            n += n2
        p.evaluations += n
        if res:
            p.violation(res, {"driver": "traverse", "mu": {a.hex(): b.hex() for a, b in mu.items()}})
        elif len(mu) == 3:
            p.sample({"trie": {a.hex(): b.hex()[:8] for a, b in mu.items()}, "paths": len(H.nibble_paths(mu))})
    return p


def run(prop, tier, seed):
    tries = H.small_tries(4 if tier == "thorough" else 3)
    total = run_chunks(_work, tries)
    return total, ["root_node against traverse(()) on one long-lived object per trie after direct sets, committed and "
                   "aborted squash_changes batches and assignment of an earlier root hash (prune off and on)",
                   "%d tries (subsets of <=%d of 8 prefix-related keys x 3 value-size patterns: embedded and "
                   "hashed nodes, values on branches, keys prefixing keys) x every nibble path built from the key "
                   "nibbles and diverging nibbles up to two beyond the longest key; every split prefix+segment "
                   "for traverse_from (from real and simulated nodes) with a database-read counter"
                   % (len(tries), 4 if tier == "thorough" else 3)]


def replay(case):
    mu = {bytes.fromhex(a): bytes.fromhex(b) for a, b in case["mu"].items()}
    return check_trie(mu)[0] or check_root_node_history(mu)[0]
