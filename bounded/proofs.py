"""Bounded stand-in for C03: Merkle proofs complete and sound, on the real get_proof /
get_from_proof, for every key of the probe set and every sub-list / transposition /
duplication / foreign-node mix of the proof."""
import itertools

from vtlib import env  # noqa: F401
from vtlib.par import Partial, run_chunks
from bounded import hexhist as H
from spec import yp

from trie import HexaryTrie
from trie.exceptions import BadTrieProof

RULE = ("tries enumerated as in bounded_scope; a case is (trie, key, offered node list); distinct-nontrivial = "
        "distinct (trie shape signature, key situation, corruption kind, outcome class) tuples")


def _needed(struct, nib):
    """(indices of proof nodes that are looked up by hash, their hashes)."""
    pn = yp.path_nodes(struct, nib)
    idx = []
    for i, n in enumerate(pn):
        e = yp.rlp(yp.raw(n))
        if i == 0 or len(e) >= 32:
            idx.append(i)
    return pn, idx


def check_one(mu, k, foreign):
    """Returns (violation or None, list of signature tuples, evaluations)."""
    t = H.build_trie(mu)
    struct = yp.structure(mu)
    nib = yp.nibbles_of(k)
    want = mu.get(k, b"")
    sigs = []
    n = 0
    proof = t.get_proof(k)
    pn, hashed_idx = _needed(struct, nib)
    expect_proof = tuple(yp.raw(x) for x in pn)
    if tuple(proof) != expect_proof:
        return "get_proof(%r) is not the node path of the key (len %d vs %d)" % (k, len(proof), len(expect_proof)), sigs, 1
    root = t.root_hash
    # completeness
    try:
        got = HexaryTrie.get_from_proof(root, k, proof)
    except Exception as e:
        return "get_from_proof of the genuine proof for %r raised %s: %s" % (k, type(e).__name__, e), sigs, 1
    if got != want:
        return "get_from_proof(%r) = %r but get = %r" % (k, got, want), sigs, 1
    n += 1
    situation = "stored" if k in mu else "absent"
    shape = H.shape_signature(mu)
    # every sub-list (by index set), plus adjacent transpositions and one duplication
    L = len(proof)
    offered = []
    for r in range(L + 1):
        for combo in itertools.combinations(range(L), r):
            offered.append(("sub", combo))
    for i in range(L - 1):
        order = list(range(L))
        order[i], order[i + 1] = order[i + 1], order[i]
        offered.append(("swap", tuple(order)))
    if L:
        offered.append(("dup", tuple(range(L)) + (0,)))
        offered.append(("rev", tuple(reversed(range(L)))))
    for kind, idxs in offered:
        nodes = [proof[i] for i in idxs]
        for with_foreign in (False, True):
            lst = nodes + (foreign if with_foreign else [])
            n += 1
            withheld = any(i not in idxs for i in hashed_idx)
            if with_foreign:
                # a foreign list may happen to contain a withheld node only if equal nodes exist
                fh = {yp.keccak(yp.rlp(x)) for x in foreign}
                withheld = any(i not in idxs and yp.keccak(yp.rlp(proof[i])) not in fh for i in hashed_idx)
            try:
                got = HexaryTrie.get_from_proof(root, k, lst)
                outcome = "value"
            except BadTrieProof:
                got, outcome = None, "bad"
            except Exception as e:
                return ("get_from_proof(%r) with %s%s raised %s instead of BadTrieProof: %s"
                        % (k, kind, idxs, type(e).__name__, e)), sigs, n
            if outcome == "value" and got != want:
                return "proof %s%s for %r validated the wrong value %r (true %r)" % (kind, idxs, k, got, want), sigs, n
            if withheld and outcome != "bad":
                return "hashed path node withheld (%s%s) for %r but no BadTrieProof" % (kind, idxs, k), sigs, n
            if not withheld and outcome == "bad":
                return "all needed nodes offered (%s%s) for %r but BadTrieProof raised" % (kind, idxs, k), sigs, n
            sigs.append((shape, situation, kind if len(idxs) == L else kind + "-", with_foreign, outcome))
    return None, sigs, n


def _work(chunk):
    p = Partial()
    for mu, mu2 in chunk:
        t2 = H.build_trie(mu2)
        foreign = []
        for k2 in mu2:
            foreign.extend(t2.get_proof(k2))
        probes = sorted(set(H.PROBES) | set(mu))
        for k in probes:
            res, sigs, n = check_one(mu, k, foreign)
            p.evaluations += n
            for s in sigs:
                p.sig(*s)
            if res:
                p.violation(res, {"driver": "proofs", "mu": {a.hex(): b.hex() for a, b in mu.items()},
                                  "mu2": {a.hex(): b.hex() for a, b in mu2.items()}, "key": k.hex()})
            # a root of another trie: the answer must be that trie's
            if mu2:
                both = list(t2.get_proof(k)) + list(H.build_trie(mu).get_proof(k))
                try:
                    got = HexaryTrie.get_from_proof(t2.root_hash, k, both)
                    if got != mu2.get(k, b""):
                        p.violation("proof against another root returned %r, that trie holds %r" % (got, mu2.get(k, b"")),
                                    {"driver": "proofs", "mu": {a.hex(): b.hex() for a, b in mu.items()},
                                     "mu2": {a.hex(): b.hex() for a, b in mu2.items()}, "key": k.hex()})
                except Exception as e:
                    p.violation("complete node set against the other root raised %s" % type(e).__name__,
                                {"driver": "proofs", "mu": {a.hex(): b.hex() for a, b in mu.items()},
                                 "mu2": {a.hex(): b.hex() for a, b in mu2.items()}, "key": k.hex()})
                p.evaluations += 1
        if p.evaluations % 50 < 5:
            p.sample({"trie": {a.hex(): b.hex()[:8] for a, b in mu.items()}, "keys_probed": len(probes)})
    return p


def run(prop, tier, seed):
    tries = H.small_tries(4 if tier == "thorough" else 3)
    items = [(mu, tries[(i * 7 + 3) % len(tries)]) for i, mu in enumerate(tries)]
    total = run_chunks(_work, items)
    scope = ["%d tries (every subset of <=%d of 8 prefix-related keys x 3 value-size patterns) x %d probe keys "
             "(stored, absent, prefixes, extensions, divergences) x every sub-list of the proof, every adjacent "
             "transposition, reversal, duplication, each with and without the nodes of a second trie mixed in; "
             "plus the proof offered against the root of the second trie"
             % (len(tries), 4 if tier == "thorough" else 3, len(H.PROBES))]
    return total, scope


def replay(case):
    mu = {bytes.fromhex(a): bytes.fromhex(b) for a, b in case["mu"].items()}
    mu2 = {bytes.fromhex(a): bytes.fromhex(b) for a, b in case["mu2"].items()}
    t2 = H.build_trie(mu2)
    foreign = []
    for k2 in mu2:
        foreign.extend(t2.get_proof(k2))
    res, _, _ = check_one(mu, bytes.fromhex(case["key"]), foreign)
    return res
