"""Bounded stand-in for C18: ill-typed / ill-sized arguments at every public entry point of the real
code, at every position of a fixed history per structure, with full state snapshots."""
import copy

from vtlib import env  # noqa: F401
from vtlib.par import Partial, run_chunks

from trie import HexaryTrie, BinaryTrie
from trie.smt import SparseMerkleTree, SparseMerkleProof, calc_root
from trie.branches import check_if_branch_exist, get_branch, if_branch_valid, get_witness_for_key_prefix
from trie.exceptions import ValidationError
from trie.fog import HexaryTrieFog
from trie.typing import Nibbles

RULE = ("(entry point, bad argument, position in history, configuration) enumerated as in bounded_scope; "
        "distinct-nontrivial = distinct (structure, entry point, class of bad argument, position, configuration)")
EXHAUSTIVE = True

NOT_BYTES = [None, 5, "str", bytearray(b"k"), [1], (1,), 1.5, {}, object]
BAD_NIBBLES_TYPE = [None, 5, b"\x01", "12", 1.5]            # TypeError: not list-like
BAD_NIBBLES_VALUE = [(16,), (1, -1), (1, 2, 99), ("a",), (None,)]  # ValueError: not nibbles


def cls_of(x):
    return x.__name__ if isinstance(x, type) else type(x).__name__


def expect(p, tag, fn, excs, snap, pos, cfg):
    """fn must raise one of excs and leave snap() unchanged."""
    before = snap()
    try:
        fn()
    except excs:
        pass
    except Exception as e:
        return "%s raised %s (%s) instead of %s" % (tag, type(e).__name__, e, "/".join(x.__name__ for x in excs))
    else:
        return "%s was accepted" % tag
    after = snap()
    if after != before:
        return "%s was refused but changed the state" % tag
    p.sig(tag, pos, cfg)
    p.evaluations += 1
    return None


def hex_snapshot(t):
    return (t.root_hash, dict(t.db.copy()), copy.deepcopy(dict(t._ref_count)) if t._ref_count is not None else None,
            t._pending_prune_keys, t.is_pruning)


def hexary_battery(p, t, pos, cfg):
    snap = lambda: hex_snapshot(t)  # noqa: E731
    V = (ValidationError,)
    for bad in NOT_BYTES:
        c = cls_of(bad)
        calls = [
            ("HexaryTrie.get(%s)" % c, lambda: t.get(bad)),
            ("HexaryTrie.exists(%s)" % c, lambda: t.exists(bad)),
            ("HexaryTrie.delete(%s)" % c, lambda: t.delete(bad)),
            ("HexaryTrie.set(%s, v)" % c, lambda: t.set(bad, b"v")),
            ("HexaryTrie.set(k, %s)" % c, lambda: t.set(b"\x12\x34", bad)),
            ("HexaryTrie.get_proof(%s)" % c, lambda: t.get_proof(bad)),
            ("HexaryTrie[%s]" % c, lambda: t[bad]),
            ("HexaryTrie[%s]=v" % c, lambda: t.__setitem__(bad, b"v")),
            ("HexaryTrie[k]=%s" % c, lambda: t.__setitem__(b"\x12\x34", bad)),
            ("del HexaryTrie[%s]" % c, lambda: t.__delitem__(bad)),
            ("%s in HexaryTrie" % c, lambda: bad in t),
            ("HexaryTrie(db, root_hash=%s)" % c, lambda: HexaryTrie(t.db, bad)),
            ("HexaryTrie.get_from_proof(root, %s, [])" % c, lambda: HexaryTrie.get_from_proof(t.root_hash, bad, [])),
            ("HexaryTrie.get_from_proof(%s, k, [])" % c, lambda: HexaryTrie.get_from_proof(bad, b"k", [])),
        ]
        if not t.is_pruning:
            calls.append(("at_root(%s)" % c, lambda: t.at_root(bad).__enter__()))
        for tag, fn in calls:
            r = expect(p, tag, fn, V, snap, pos, cfg)
            if r:
                return r
    if t.is_pruning:
        r = expect(p, "at_root on a pruning trie", lambda: t.at_root(t.root_hash).__enter__(), V, snap, pos, cfg)
        if r:
            return r
    else:
        r = expect(p, "HexaryTrie(db, ref_count=..., prune=False)",
                   lambda: HexaryTrie({}, ref_count={}, prune=False), (ValueError,), snap, pos, cfg)
        if r:
            return r
    root = t.root_node
    for bad in BAD_NIBBLES_TYPE:
        for tag, fn in [("traverse(%s)" % cls_of(bad), lambda: t.traverse(bad)),
                        ("traverse_from(node, %s)" % cls_of(bad), lambda: t.traverse_from(root, bad))]:
            r = expect(p, tag, fn, (TypeError,), snap, pos, cfg)
            if r:
                return r
    for bad in BAD_NIBBLES_VALUE:
        for tag, fn in [("traverse(%r)" % (bad,), lambda: t.traverse(bad)),
                        ("traverse_from(node, %r)" % (bad,), lambda: t.traverse_from(root, bad))]:
            r = expect(p, tag, fn, (ValueError, TypeError), snap, pos, cfg)
            if r:
                return r
    return None


def bin_battery(p, t, pos, cfg):
    snap = lambda: (t.root_hash, dict(t.db))  # noqa: E731
    V = (ValidationError,)
    for bad in NOT_BYTES:
        c = cls_of(bad)
        calls = [
            ("BinaryTrie.get(%s)" % c, lambda: t.get(bad)),
            ("BinaryTrie.exists(%s)" % c, lambda: t.exists(bad)),
            ("BinaryTrie.delete(%s)" % c, lambda: t.delete(bad)),
            ("BinaryTrie.delete_subtrie(%s)" % c, lambda: t.delete_subtrie(bad)),
            ("BinaryTrie.set(%s, v)" % c, lambda: t.set(bad, b"v")),
            ("BinaryTrie.set(k, %s)" % c, lambda: t.set(b"\x55", bad)),
            ("BinaryTrie[%s]" % c, lambda: t[bad]),
            ("BinaryTrie[%s]=v" % c, lambda: t.__setitem__(bad, b"v")),
            ("BinaryTrie[k]=%s" % c, lambda: t.__setitem__(b"\x55", bad)),
            ("del BinaryTrie[%s]" % c, lambda: t.__delitem__(bad)),
            ("%s in BinaryTrie" % c, lambda: bad in t),
            ("BinaryTrie(db, root_hash=%s)" % c, lambda: BinaryTrie(t.db, bad)),
            ("check_if_branch_exist(%s)" % c, lambda: check_if_branch_exist(t.db, t.root_hash, bad)),
            ("get_branch(%s)" % c, lambda: get_branch(t.db, t.root_hash, bad)),
            ("get_witness_for_key_prefix(%s)" % c, lambda: get_witness_for_key_prefix(t.db, t.root_hash, bad)),
            ("if_branch_valid(key=%s)" % c, lambda: if_branch_valid([b"\x02v"], t.root_hash, bad, b"v")),
        ]
        for tag, fn in calls:
            r = expect(p, tag, fn, V, snap, pos, cfg)
            if r:
                return r
    return None


def smt_battery(p, t, size, pos, cfg):
    snap = lambda: (t.root_hash, dict(t.db), t._key_size, t.depth, t._default)  # noqa: E731
    V = (ValidationError,)
    good = b"\x01" * size
    for bad in NOT_BYTES + [b"\x01" * (size + 1), b"\x01" * (size - 1)]:
        c = cls_of(bad) if not isinstance(bad, bytes) else "len%+d" % (len(bad) - size)
        calls = [
            ("smt.get(%s)" % c, lambda: t.get(bad)),
            ("smt.branch(%s)" % c, lambda: t.branch(bad)),
            ("smt.exists(%s)" % c, lambda: t.exists(bad)),
            ("smt.delete(%s)" % c, lambda: t.delete(bad)),
            ("smt.set(%s, v)" % c, lambda: t.set(bad, b"v")),
            ("smt[%s]" % c, lambda: t[bad]),
            ("smt[%s]=v" % c, lambda: t.__setitem__(bad, b"v")),
            ("del smt[%s]" % c, lambda: t.__delitem__(bad)),
            ("%s in smt" % c, lambda: bad in t),
        ]
        if not isinstance(bad, bytes):
            calls += [
                ("smt.set(k, %s)" % c, lambda: t.set(good, bad)),
                ("calc_root(%s, v, br)" % c, lambda: calc_root(bad, b"v", [b""] * (8 * size))),
                ("calc_root(k, %s, br)" % c, lambda: calc_root(good, bad, [b""] * (8 * size))),
                ("SparseMerkleProof(%s, v, br)" % c, lambda: SparseMerkleProof(bad, b"v", [b""] * (8 * size))),
                ("SparseMerkleProof(k, %s, br)" % c, lambda: SparseMerkleProof(good, bad, [b""] * (8 * size))),
                ("from_db(root=%s)" % c, lambda: SparseMerkleTree.from_db(t.db, bad, key_size=size)),
            ]
        for tag, fn in calls:
            r = expect(p, tag, fn, V, snap, pos, cfg)
            if r:
                return r
    for n in (8 * size - 1, 8 * size + 1, 0):
        for tag, fn in [("calc_root(branch of length %+d)" % (n - 8 * size), lambda: calc_root(good, b"v", [b""] * n)),
                        ("SparseMerkleProof(branch of length %+d)" % (n - 8 * size),
                         lambda: SparseMerkleProof(good, b"v", [b""] * n))]:
            r = expect(p, tag, fn, V, snap, pos, cfg)
            if r:
                return r
    for rl in (31, 33, 0):
        r = expect(p, "from_db(root of length %d)" % rl,
                   lambda: SparseMerkleTree.from_db(t.db, b"\x00" * rl, key_size=size), V, snap, pos, cfg)
        if r:
            return r
    for ks in (0, 33, -1, 100):
        r = expect(p, "SparseMerkleTree(key_size=%d)" % ks, lambda: SparseMerkleTree(key_size=ks), V, snap, pos, cfg)
        if r:
            return r
        r = expect(p, "from_db(key_size=%d)" % ks,
                   lambda: SparseMerkleTree.from_db(t.db, t.root_hash, key_size=ks), V, snap, pos, cfg)
        if r:
            return r
    # a proof object refuses ill-typed / ill-sized update keys and stays unchanged
    pr = SparseMerkleProof(good, t._get(good)[0], t._get(good)[1])
    psnap = lambda: (pr.key, pr.value, pr.branch)  # noqa: E731
    for bad in NOT_BYTES + [good + b"\x00", good[:-1]]:
        c = cls_of(bad) if not isinstance(bad, bytes) else "len%+d" % (len(bad) - size)
        r = expect(p, "SparseMerkleProof.update(%s, ...)" % c, lambda: pr.update(bad, b"v", [b""] * (8 * size)), V, psnap, pos, cfg)
        if r:
            return r
    return None


def fog_battery(p, f, pos, cfg):
    snap = lambda: tuple(f._unexplored_prefixes)  # noqa: E731
    for bad in BAD_NIBBLES_TYPE:
        c = cls_of(bad)
        for tag, fn in [("fog.explore(%s, ())" % c, lambda: f.explore(bad, ())),
                        ("fog.nearest_unknown(%s)" % c, lambda: f.nearest_unknown(bad)),
                        ("fog.nearest_right(%s)" % c, lambda: f.nearest_right(bad)),
                        ("fog.mark_all_complete([%s])" % c, lambda: f.mark_all_complete([bad])),
                        ("fog.explore((), [%s])" % c, lambda: f.explore(tuple(f._unexplored_prefixes[0]), [bad])),
                        ("Nibbles(%s)" % c, lambda: Nibbles(bad))]:
            r = expect(p, tag, fn, (TypeError,), snap, pos, cfg)
            if r:
                return r
    for bad in BAD_NIBBLES_VALUE:
        for tag, fn in [("fog.explore(%r, ())" % (bad,), lambda: f.explore(bad, ())),
                        ("fog.nearest_unknown(%r)" % (bad,), lambda: f.nearest_unknown(bad)),
                        ("fog.nearest_right(%r)" % (bad,), lambda: f.nearest_right(bad)),
                        ("fog.mark_all_complete([%r])" % (bad,), lambda: f.mark_all_complete([bad])),
                        ("fog.explore(p, [%r])" % (bad,), lambda: f.explore(tuple(f._unexplored_prefixes[0]), [bad])),
                        ("Nibbles(%r)" % (bad,), lambda: Nibbles(bad))]:
            r = expect(p, tag, fn, (ValueError, TypeError), snap, pos, cfg)
            if r:
                return r
    return None


HEX_HISTORY = [("set", b"\x12\x34", b"v"), ("set", b"\x12\x35", b"w" * 33), ("set", b"\x12", b"x" * 20),
               ("del", b"\x12\x34"), ("set", b"", b"e"), ("del", b"\x77")]
BIN_HISTORY = [("set", b"\x12", b"v"), ("set", b"\x13", b"w" * 40), ("set", b"\x92\x00", b"x"), ("del", b"\x12"),
               ("sub", b"\x92"), ("set", b"\x12", b"y")]


def _work(chunk):
    p = Partial()
    for what in chunk:
        r = None
        try:
            if what[0] == "hex":
                prune = what[1]
                t = HexaryTrie({}, prune=prune)
                for pos in range(len(HEX_HISTORY) + 1):
                    r = hexary_battery(p, t, pos, ("hex", prune))
                    if r:
                        break
                    if pos < len(HEX_HISTORY):
                        op = HEX_HISTORY[pos]
                        if op[0] == "set":
                            t.set(op[1], op[2])
                        else:
                            t.delete(op[1])
                if not r and t.root_hash != __import__("spec.yp", fromlist=["root"]).root(
                        {b"\x12\x35": b"w" * 33, b"\x12": b"x" * 20, b"": b"e"}):
                    r = "history interleaved with refused calls ends in a different root"
            elif what[0] == "hexbatch":
                t = HexaryTrie({}, prune=what[1])
                t.set(b"\x12\x34", b"v")
                with t.squash_changes() as b:
                    b.set(b"\x12\x35", b"w" * 33)
                    r = hexary_battery(p, b, "in-batch", ("hexbatch", what[1]))
                if not r:
                    r = hexary_battery(p, t, "after-batch", ("hexbatch", what[1]))
            elif what[0] == "bin":
                t = BinaryTrie({})
                for pos in range(len(BIN_HISTORY) + 1):
                    r = bin_battery(p, t, pos, ("bin",))
                    if r:
                        break
                    if pos < len(BIN_HISTORY):
                        op = BIN_HISTORY[pos]
                        if op[0] == "set":
                            t.set(op[1], op[2])
                        elif op[0] == "del":
                            t.delete(op[1])
                        else:
                            t.delete_subtrie(op[1])
            elif what[0] == "smt":
                size, default = what[1], what[2]
                t = SparseMerkleTree(key_size=size, default=default)
                hist = [(b"\x01" * size, b"a"), (b"\x02" * size, b"b"), (b"\x01" * size, default)]
                for pos in range(len(hist) + 1):
                    r = smt_battery(p, t, size, pos, ("smt", size, default))
                    if r:
                        break
                    if pos < len(hist):
                        t.set(*hist[pos])
            else:
                f = HexaryTrieFog()
                steps = [((), ((1,), (2,))), ((1,), ((3, 4),)), ((2,), ())]
                for pos in range(len(steps) + 1):
                    r = fog_battery(p, f, pos, ("fog",))
                    if r:
                        break
                    if pos < len(steps):
                        f = f.explore(*steps[pos])
        except Exception as e:
            import traceback
            p.errors.append(traceback.format_exc())
            continue
        if r:
            p.violation(r, {"driver": "invalid", "what": list(what) if not isinstance(what[-1], bytes) else
                            [what[0], what[1], what[2].hex()]})
        else:
            p.sample({"structure": what[0], "battery": "9 non-bytes values, 5+5 malformed nibble sequences, wrong sizes"})
    return p


def run(prop, tier, seed):
    items = [("hex", False), ("hex", True), ("hexbatch", False), ("hexbatch", True), ("bin",),
             ("smt", 1, b""), ("smt", 2, b"dflt"), ("smt", 32, b""), ("fog",)]
    if tier == "thorough":
        items += [("smt", 3, b""), ("smt", 16, b"d"), ("smt", 31, b"dflt")]
    total = run_chunks(_work, items, chunks_per_proc=1)
    return total, ["every public read/write entry point of HexaryTrie (direct, inside and after a squash_changes batch, "
                   "pruning on/off), BinaryTrie + the four branch helpers, SparseMerkleTree (key sizes %s), calc_root, "
                   "SparseMerkleProof construction and update, HexaryTrieFog and Nibbles x a fixed battery (9 non-bytes "
                   "values, 5 non-list-like and 5 out-of-range nibble sequences, keys / branches / roots one too long, one "
                   "too short, empty, key sizes 0/33/-1/100) x before and after every operation of a fixed 6-op (3-op for "
                   "the sparse tree and fog) history; each refusal is checked for the exception class and a full state "
                   "snapshot (root, database, reference counts, pending prunes)"
                   % ("1, 2, 32" if tier != "thorough" else "1, 2, 3, 16, 31, 32")]


def replay(case):
    w = case["what"]
    if w[0] == "smt":
        w = (w[0], w[1], bytes.fromhex(w[2]))
    p = _work([tuple(w)])
    return p.violations[0]["what"] if p.violations else None
