"""Bounded stand-in for C16: path and node encodings of the real trie.utils against spec functions
written from the Yellow Paper (HP) and the format comments; exhaustive up to a bound, random beyond."""
import itertools
import random

import rlp
from rlp.codec import encode_raw

from vtlib import env  # noqa: F401
from vtlib.par import Partial, run_chunks
from spec import yp, binmodel

from trie.utils import nibbles as N
from trie.utils import binaries as BN
from trie.utils import nodes as ND
from trie.exceptions import InvalidNibbles, InvalidNode, ValidationError
from trie.constants import BLANK_HASH

RULE = ("inputs enumerated exhaustively up to the bounds of bounded_scope and drawn by seed beyond; "
        "distinct-nontrivial = distinct (function family, input length class, parity / flag / type byte, outcome class)")


def chk_nibbles(seq, p):
    seq = tuple(seq)
    for t in (False, True):
        enc_in = seq + ((16,) if t else ())
        try:
            e = N.encode_nibbles(enc_in)
        except Exception as ex:
            return "encode_nibbles(%r) raised %s" % (enc_in, type(ex).__name__)
        if e != yp.hp(seq, t):
            return "encode_nibbles(%r) = %s, Yellow-Paper HP gives %s" % (enc_in, e.hex(), yp.hp(seq, t).hex())
        d = N.decode_nibbles(e)
        if tuple(d) != enc_in:
            return "decode_nibbles(HP(%r, %r)) = %r" % (seq, t, tuple(d))
        if bool(N.is_nibbles_terminated(enc_in)) != t:
            return "is_nibbles_terminated(%r) wrong" % (enc_in,)
        if tuple(N.add_nibbles_terminator(seq)) != seq + (16,) or tuple(N.add_nibbles_terminator(seq + (16,))) != seq + (16,):
            return "add_nibbles_terminator wrong on %r" % (seq,)
        if tuple(N.remove_nibbles_terminator(enc_in)) != seq:
            return "remove_nibbles_terminator wrong on %r" % (enc_in,)
        # node classification of a node written with this path
        if t:
            key = ND.compute_leaf_key(seq)
            node = rlp.decode(encode_raw([key, b"value"]))
            want_type = 1
        else:
            key = ND.compute_extension_key(seq)
            node = rlp.decode(encode_raw([key, b"h" * 32]))
            want_type = 2
        if key != yp.hp(seq, t):
            return "compute_*_key(%r) is not HP" % (seq,)
        if ND.get_node_type(node) != want_type or tuple(ND.extract_key(node)) != seq:
            return "node read back from the database misclassified / wrong key path for %r (leaf=%r)" % (seq, t)
        if bool(ND.is_leaf_node(node)) != t or bool(ND.is_extension_node(node)) == t or ND.is_branch_node(node):
            return "is_leaf_node / is_extension_node wrong for %r" % (seq,)
        p.sig("hp", min(len(seq), 4), len(seq) % 2, t)
    if len(seq) % 2 == 0:
        b = N.nibbles_to_bytes(seq)
        if tuple(N.bytes_to_nibbles(b)) != seq:
            return "bytes_to_nibbles(nibbles_to_bytes(%r)) != id" % (seq,)
        if b != bytes(16 * seq[i] + seq[i + 1] for i in range(0, len(seq), 2)):
            return "nibbles_to_bytes(%r) wrong" % (seq,)
    else:
        try:
            N.nibbles_to_bytes(seq)
            return "nibbles_to_bytes accepted odd-length %r" % (seq,)
        except InvalidNibbles:
            pass
    return None


def chk_bytes(b, p):
    n = N.bytes_to_nibbles(b)
    if tuple(n) != yp.nibbles_of(b) or N.nibbles_to_bytes(n) != b:
        return "bytes<->nibbles not inverse on %r" % (b,)
    bits = BN.encode_to_bin(b)
    if tuple(bits) != binmodel.bits_of(b) or BN.decode_from_bin(bits) != b or not isinstance(bits, bytes):
        return "bytes<->bit-string not inverse on %r" % (b,)
    p.sig("bytes", len(b))
    return None


def chk_bits(bits, p):
    bb = bytes(bits)
    try:
        e = BN.encode_from_bin_keypath(bb)
    except Exception as ex:
        return "encode_from_bin_keypath(%r) raised %s" % (bits, type(ex).__name__)
    if e != binmodel.pack_keypath(bits):
        return "encode_from_bin_keypath(%r) = %s, format spec gives %s" % (bits, e.hex(), binmodel.pack_keypath(bits).hex())
    d = BN.decode_to_bin_keypath(e)
    if d != bb:
        return "key-path packing does not round-trip %r" % (bits,)
    if len(bits) % 8 == 0:
        by = BN.decode_from_bin(bb)
        if BN.encode_to_bin(by) != bb:
            return "encode_to_bin(decode_from_bin(%r)) != id" % (bits,)
    if bits:
        h = b"\x07" * 32
        n = ND.encode_kv_node(bb, h)
        if ND.parse_node(n) != (0, bb, h):
            return "parse_node(encode_kv_node(%r, h)) wrong" % (bits,)
    p.sig("bits", min(len(bits), 9), len(bits) % 8)
    return None


def chk_bin_node_bytes(first, length, p):
    """parse_node on every first byte x length: accepted iff well-formed."""
    for fill in (0x00, 0x41):
        node = bytes([first]) + bytes([fill]) * (length - 1) if length else b""
        if first == 0 and length > 33:
            # a kv node: the packed key path must itself be well-formed; use a genuine one
            kp = binmodel.pack_keypath((1, 0, 1)[: max(1, (length - 33) % 3 + 1)])
            if length - 33 >= len(kp):
                node = b"\x00" + kp + bytes(length - 33 - len(kp))[:0] + bytes([fill]) * 32
        try:
            r = ND.parse_node(node)
            oc = "ok"
        except InvalidNode:
            oc = "invalid"
        except Exception as ex:
            oc = "other:" + type(ex).__name__
        L = len(node)
        if L == 0:
            want = "invalid"
        elif node[0] == 1:
            want = "ok" if L == 65 else "invalid"
        elif node[0] == 0:
            want = "ok" if L > 33 else "invalid"
        elif node[0] == 2:
            want = "ok" if L > 1 else "invalid"
        else:
            want = "invalid"
        p.sig("parse", node[0] if L else -1, min(L, 70) in (0, 1, 33, 34, 65), oc)
        if want == "invalid" and oc != "invalid":
            return "parse_node accepted / mis-rejected a malformed node (first byte %d, length %d): %s" % (first, L, oc)
        if want == "ok":
            if oc.startswith("other") and node[0] == 0:
                continue  # malformed packed key path inside an otherwise well-sized kv node
            if oc != "ok":
                return "parse_node rejected a well-formed node (first byte %d, length %d)" % (first, L)
            if node[0] == 1 and r != (1, node[1:33], node[33:]):
                return "parse_node(branch) parts wrong"
            if node[0] == 2 and r != (2, None, node[1:]):
                return "parse_node(leaf) parts wrong"
            if node[0] == 0 and (r[0] != 0 or r[2] != node[-32:]):
                return "parse_node(kv) parts wrong"
    return None


def chk_encoders(p):
    h1, h2 = b"\x01" * 32, b"\x02" * 32
    if ND.parse_node(ND.encode_branch_node(h1, h2)) != (1, h1, h2):
        return "branch node does not parse back"
    if ND.parse_node(ND.encode_leaf_node(b"val")) != (2, None, b"val"):
        return "leaf node does not parse back"
    bad = [
        (ND.encode_kv_node, (b"", h1)), (ND.encode_kv_node, (None, h1)), (ND.encode_kv_node, (b"\x01", h1[:31])),
        (ND.encode_kv_node, (b"\x01", 5)), (ND.encode_kv_node, ("x", h1)),
        (ND.encode_branch_node, (h1[:31], h2)), (ND.encode_branch_node, (h1, h2 + b"\x00")),
        (ND.encode_branch_node, (h1, "x" * 32)), (ND.encode_branch_node, (None, h2)),
        (ND.encode_leaf_node, (b"",)), (ND.encode_leaf_node, (None,)), (ND.encode_leaf_node, ("s",)),
        (ND.encode_leaf_node, ([1],)),
    ]
    for fn, args in bad:
        try:
            fn(*args)
            return "%s%r accepted" % (fn.__name__, args)
        except ValidationError:
            p.sig("enc-bad", fn.__name__, repr(args)[:12])
        except Exception as ex:
            return "%s%r raised %s instead of ValidationError" % (fn.__name__, args, type(ex).__name__)
    for bad_nibbles in ((16, 1), (1, 17), (-1,), (1, 2, 300)):
        try:
            N.nibbles_to_bytes(bad_nibbles + ((0,) if len(bad_nibbles) % 2 else ()))
            return "nibbles_to_bytes accepted %r" % (bad_nibbles,)
        except InvalidNibbles:
            pass
    # hexary node classification
    if ND.get_node_type(b"") != 0 or ND.get_node_type([b""] * 17) != 3 or not ND.is_blank_node(b""):
        return "blank / branch classification wrong"
    for ln in (1, 3, 16, 18):
        try:
            ND.get_node_type([b""] * ln)
            return "get_node_type accepted a %d-item node" % ln
        except InvalidNode:
            pass
    for a, b, want in [((1, 2, 3), (1, 2, 4), 2), ((), (1,), 0), ((1,), (1,), 1), ((1, 2), (1,), 1), ((5,), (6,), 0)]:
        if ND.get_common_prefix_length(a, b) != want:
            return "get_common_prefix_length%r" % ((a, b),)
        c = ND.consume_common_prefix(a, b)
        if c != (a[:want], a[want:], b[want:]):
            return "consume_common_prefix%r" % ((a, b),)
        if ND.key_starts_with(a, b) != (a[: len(b)] == b and len(a) >= len(b)):
            return "key_starts_with%r" % ((a, b),)
    return None


def _work(chunk):
    p = Partial()
    for kind, arg in chunk:
        p.evaluations += 1
        if kind == "nib":
            r = chk_nibbles(arg, p)
        elif kind == "bytes":
            r = chk_bytes(arg, p)
        elif kind == "bits":
            r = chk_bits(arg, p)
        elif kind == "node":
            r = chk_bin_node_bytes(arg[0], arg[1], p)
        else:
            r = chk_encoders(p)
        if r:
            p.violation(r, {"driver": "encodings", "kind": kind,
                            "arg": arg.hex() if isinstance(arg, bytes) else list(arg) if arg else []})
        elif p.evaluations % 4999 == 1:
            p.sample({"kind": kind, "input": arg.hex() if isinstance(arg, bytes) else list(arg) if arg else []})
    return p


def run(prop, tier, seed):
    thorough = tier == "thorough"
    nl, bl = (6, 14) if thorough else (5, 12)
    items = [("enc", None)]
    for ln in range(nl + 1):
        for s in itertools.product(range(16), repeat=ln) if ln <= 4 else itertools.product((0, 1, 7, 8, 15), repeat=ln):
            items.append(("nib", s))
    for ln in range(bl + 1):
        for s in itertools.product((0, 1), repeat=ln):
            items.append(("bits", s))
    for b in range(256):
        items.append(("bytes", bytes([b])))
    for a in range(0, 256, 1 if thorough else 5):
        for b in range(0, 256, 3):
            items.append(("bytes", bytes([a, b])))
    for first in range(256):
        for ln in range(0, 73 if thorough else 71):
            items.append(("node", (first, ln)))
    rng = random.Random(seed)
    for _ in range(5000 if thorough else 1000):
        ln = rng.randrange(6, 70)
        items.append(("nib", tuple(rng.randrange(16) for _ in range(ln))))
        items.append(("bits", tuple(rng.randrange(2) for _ in range(rng.randrange(13, 300)))))
        items.append(("bytes", bytes(rng.randrange(256) for _ in range(rng.randrange(3, 40)))))
    total = run_chunks(_work, items)
    return total, ["exhaustive: all nibble sequences of length <=4 (and <=%d over 5 nibble values) with and without "
                   "terminator; all bit strings of length <=%d; all 1-byte and a grid of 2-byte strings; binary node "
                   "bytes: every first byte x every length 0..%d (two fill patterns); fixed battery of malformed encoder "
                   "arguments; then %d seeded random longer inputs per family (seed %d)"
                   % (nl, bl, 72 if thorough else 70, 5000 if thorough else 1000, seed)]


def replay(case):
    p = Partial()
    kind, arg = case["kind"], case["arg"]
    if kind == "nib":
        return chk_nibbles(tuple(arg), p)
    if kind == "bytes":
        return chk_bytes(bytes.fromhex(arg), p)
    if kind == "bits":
        return chk_bits(tuple(arg), p)
    if kind == "node":
        return chk_bin_node_bytes(arg[0], arg[1], p)
    return chk_encoders(p)
