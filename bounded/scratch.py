"""Bounded stand-in for C17: the real ScratchDB against a dict model over every action sequence of
bounded length, every pre-existing content, both exit modes at every position, do_deletes on/off."""
import itertools

from vtlib import env  # noqa: F401
from vtlib.par import Partial, run_chunks

from trie.utils.db import ScratchDB

RULE = ("action sequences enumerated exhaustively as in bounded_scope; distinct-nontrivial = distinct (initial store, "
        "action kinds, exit mode, do_deletes) tuples")
EXHAUSTIVE = True


class Boom(Exception):
    pass


class SpyDict(dict):
    """Underlying database that records writes/deletes."""

    def __init__(self, *a):
        super().__init__(*a)
        self.mutations = 0

    def __setitem__(self, k, v):
        self.mutations += 1
        dict.__setitem__(self, k, v)

    def __delitem__(self, k):
        self.mutations += 1
        dict.__delitem__(self, k)

    def pop(self, *a):
        self.mutations += 1
        return dict.pop(self, *a)


def run_case(init, actions, abort_at, do_deletes):
    """actions: ("w", key, val) | ("d", key) | ("r", key) | ("c", key).  abort_at: index or None."""
    wrapped = SpyDict(init)
    before = dict(init)
    s = ScratchDB(wrapped)
    latest = {}   # key -> ("w", val) | ("d",)
    try:
        with s.batch_commit(do_deletes=do_deletes):
            for i, a in enumerate(actions):
                if abort_at == i:
                    raise Boom()
                if a[0] == "w":
                    s[a[1]] = a[2]
                    latest[a[1]] = ("w", a[2])
                elif a[0] == "d":
                    del s[a[1]]
                    latest[a[1]] = ("d",)
                elif a[0] == "r":
                    lw = latest.get(a[1])
                    want = lw[1] if lw and lw[0] == "w" else before.get(a[1], KeyError)
                    try:
                        got = s[a[1]]
                    except KeyError:
                        got = KeyError
                    if got != want:
                        return "read of %r inside the batch = %r, expected %r (latest buffered action %r)" % (a[1], got, want, lw)
                else:
                    lw = latest.get(a[1])
                    want = True if lw and lw[0] == "w" else (a[1] in before)
                    if (a[1] in s) != want:
                        return "`%r in scratch` = %r, expected %r" % (a[1], a[1] in s, want)
                if wrapped.mutations or dict(wrapped) != before:
                    return "wrapped database written while the batch is open (action %d %r)" % (i, a)
            if abort_at == len(actions):
                raise Boom()
    except Boom:
        if dict(wrapped) != before or wrapped.mutations:
            return "exceptional exit changed the wrapped database"
        if s.cache != {}:
            return "buffer not empty after exceptional exit"
        return None
    except Exception as e:
        return "unexpected %s: %s" % (type(e).__name__, e)
    want = dict(before)
    for k, lw in latest.items():
        if lw[0] == "w":
            want[k] = lw[1]
        elif do_deletes:
            want.pop(k, None)
    if dict(wrapped) != want:
        return "after commit the wrapped database is %r, expected %r" % (dict(wrapped), want)
    if s.cache != {}:
        return "buffer not empty after commit"
    return None


def _work(chunk):
    p = Partial()
    for init, actions, abort_at, dd in chunk:
        p.evaluations += 1
        r = run_case(init, actions, abort_at, dd)
        p.sig(tuple(sorted(init)), tuple(a[0] for a in actions), abort_at is None, dd)
        if r:
            p.violation(r, {"driver": "scratch", "init": init, "actions": [list(a) for a in actions],
                            "abort_at": abort_at, "do_deletes": dd})
        elif p.evaluations % 9973 == 1:
            p.sample({"init": init, "actions": [list(a) for a in actions], "abort_at": abort_at, "do_deletes": dd})
    return p


def run(prop, tier, seed):
    thorough = tier == "thorough"
    keys = ["a", "b", "c"] if thorough else ["a", "b"]
    maxlen = 5 if thorough else 4
    acts = []
    for k in keys:
        acts += [("w", k, 1), ("w", k, 2), ("d", k), ("r", k), ("c", k)]
    inits = [{}, {"a": 0}, {"b": 0}, {"a": 0, "b": 9}]
    items = []
    for ln in range(0, maxlen + 1):
        for seq in itertools.product(acts, repeat=ln):
            if ln == maxlen and not thorough and (hash(seq) % 3):
                continue
            for init in inits:
                for dd in (False, True):
                    items.append((init, seq, None, dd))
                    if ln <= 3:
                        for ab in range(ln + 1):
                            items.append((init, seq, ab, dd))
                    else:
                        items.append((init, seq, ln, dd))
                        items.append((init, seq, ln // 2, dd))
    total = run_chunks(_work, items)
    return total, ["%d cases: every sequence of <=%d actions (write two values / delete / read / contains) over %d keys "
                   "x 4 pre-existing stores x do_deletes off/on x normal exit and exceptional exit at every position "
                   "(length <=3) or at the middle and end (longer)%s; the wrapped store is a dict that counts every write"
                   % (len(items), maxlen, len(keys), "" if thorough else "; length-%d sequences sampled 1 in 3" % maxlen)]


def replay(case):
    return run_case(case["init"], [tuple(a) for a in case["actions"]], case["abort_at"], case["do_deletes"])
