"""Bounded stand-in for C11: the real HexaryTrieFog against a plain set model, over every
exploration sequence of bounded depth with leaf / extension / branch / mixed / invalid sub-segment
shapes and every query key of bounded length."""
import itertools

from vtlib import env  # noqa: F401
from vtlib.par import Partial, run_chunks

from eth_utils import ValidationError as EthValidationError
from trie.fog import HexaryTrieFog
from trie.exceptions import PerfectVisibility, FullDirectionalVisibility

RULE = ("exploration sequences enumerated as in bounded_scope; distinct-nontrivial = distinct (resulting unexplored "
        "set, last action, outcome class) tuples")

SHAPES = [
    (),                              # leaf: nothing below
    ((7, 15),),                      # extension
    ((0,), (7,), (15,)),             # branch
    ((0,), (7, 15)),                 # mixed lengths, not nested
    ((0,), (0,)),                    # invalid: duplicate
    ((0,), (0, 7)),                  # invalid: nested
    ((7, 15, 0), (7,)),              # invalid: nested, longer first
    ((0, 7), (7,), (0, 15)),         # mixed lengths valid
]


def is_prefix(a, b):
    return len(a) <= len(b) and tuple(b[: len(a)]) == tuple(a)


def model_explore(U, p, S):
    """Returns new set or None when the call must be refused."""
    p = tuple(p)
    S = [tuple(s) for s in S]
    if p not in U:
        return None
    if len(set(S)) != len(S):
        return None
    for a in S:
        for b in S:
            if a != b and is_prefix(a, b):
                return None
    return (U - {p}) | {p + s for s in S}


def antichain(U):
    return not any(a != b and is_prefix(a, b) for a in U for b in U)


def snapshot(f):
    return tuple(tuple(int(x) for x in p) for p in f._unexplored_prefixes)


def check_queries(f, U, keys, p=None, tag=None):
    SU = sorted(U)
    for key in keys:
        cont = [u for u in SU if is_prefix(u, key)]
        right = [u for u in SU if u > key]
        left = [u for u in SU if u < key]
        # nearest_right
        try:
            got = tuple(int(x) for x in f.nearest_right(key))
            oc = "value"
        except PerfectVisibility:
            oc = "perfect"
        except FullDirectionalVisibility:
            oc = "full"
        except Exception as e:
            return "nearest_right(%r) raised %s" % (key, type(e).__name__)
        if not SU:
            if oc != "perfect":
                return "nearest_right(%r) on a complete fog: %s instead of PerfectVisibility" % (key, oc)
        elif cont:
            if oc != "value" or got != cont[0]:
                return "nearest_right(%r): %r contains the key but got %s" % (key, cont[0], got if oc == "value" else oc)
        elif right:
            if oc != "value" or got != right[0]:
                return "nearest_right(%r): closest to the right is %r, got %s" % (key, right[0], got if oc == "value" else oc)
        else:
            if oc != "full":
                return "nearest_right(%r): nothing lies to the right, got %s" % (key, got if oc == "value" else oc)
        if p is not None:
            p.sig(tag, "nr", oc, bool(cont), bool(right))
        # nearest_unknown
        try:
            got = tuple(int(x) for x in f.nearest_unknown(key))
            oc = "value"
        except PerfectVisibility:
            oc = "perfect"
        except Exception as e:
            return "nearest_unknown(%r) raised %s" % (key, type(e).__name__)
        if not SU:
            if oc != "perfect":
                return "nearest_unknown(%r) on a complete fog did not raise PerfectVisibility" % (key,)
        else:
            if oc != "value":
                return "nearest_unknown(%r) raised PerfectVisibility although %d prefixes are unexplored" % (key, len(SU))
            if got not in U:
                return "nearest_unknown(%r) = %r is not unexplored" % (key, got)
            if cont and got != cont[0]:
                return "nearest_unknown(%r): %r contains the key but got %r" % (key, cont[0], got)
            if not cont:
                adj = set()
                if left:
                    adj.add(left[-1])
                if right:
                    adj.add(right[0])
                if key in U:
                    adj.add(key)
                if got not in adj:
                    return "nearest_unknown(%r) = %r is not adjacent to the key (%r)" % (key, got, sorted(adj))
        if p is not None:
            p.sig(tag, "nu", oc, bool(cont))
    if SU:
        if tuple(int(x) for x in f.nearest_unknown()) != SU[0]:
            return "nearest_unknown() is not the left-most unexplored prefix"
    return None


def check_sequence(seq, keys, p=None):
    """seq: list of ("explore", which_prefix_index_or_-1, shape_index) | ("mark", tuple of indices)."""
    f = HexaryTrieFog()
    U = {()}
    history = [(f, snapshot(f))]
    n = 0
    for act in seq:
        SU = sorted(U)
        n += 1
        if act[0] == "explore":
            if act[1] == -1:
                prefix = (9, 9)            # never a member
            elif act[1] == -2 and SU:
                prefix = SU[0] + (3,)      # below a member, not itself one
            else:
                if not SU:
                    prefix = ()
                else:
                    prefix = SU[act[1] % len(SU)]
            S = SHAPES[act[2]]
            want = model_explore(U, prefix, S)
            before = snapshot(f)
            try:
                g = f.explore(prefix, S)
                oc = "ok"
            except EthValidationError:
                oc = "refused"
            except Exception as e:
                return "explore(%r, %r) raised %s: %s" % (prefix, S, type(e).__name__, e), n
            if snapshot(f) != before:
                return "explore(%r, %r) modified the receiver" % (prefix, S), n
            if want is None:
                if oc != "refused":
                    return "explore(%r, %r) on %r must be refused (unknown prefix / duplicate / nested segments)" % (prefix, S, SU), n
            else:
                if oc != "ok":
                    return "explore(%r, %r) on %r refused although valid" % (prefix, S, SU), n
                if set(snapshot(g)) != want or list(snapshot(g)) != sorted(want):
                    return "explore(%r, %r): unexplored set %r, expected %r" % (prefix, S, snapshot(g), sorted(want)), n
                f, U = g, want
        else:
            idxs = act[1]
            P = [SU[i % len(SU)] for i in idxs] if SU else [()]
            if act[2]:
                P = P + [(9, 9)]
            ok = len(set(P)) == len(P) and all(q in U for q in P)
            before = snapshot(f)
            try:
                g = f.mark_all_complete(P)
                oc = "ok"
            except EthValidationError:
                oc = "refused"
            except Exception as e:
                return "mark_all_complete(%r) raised %s" % (P, type(e).__name__), n
            if snapshot(f) != before:
                return "mark_all_complete(%r) modified the receiver" % (P,), n
            if ok != (oc == "ok"):
                return "mark_all_complete(%r) on %r: %s" % (P, SU, oc), n
            if ok:
                U = U - set(P)
                if set(snapshot(g)) != U:
                    return "mark_all_complete(%r): wrong result set" % (P,), n
                f = g
        history.append((f, snapshot(f)))
        if not antichain(U):
            return "model lost the antichain property (checker bug)", n
        if not antichain(set(snapshot(f))):
            return "an unexplored prefix starts with another: %r" % (snapshot(f),), n
        if f.is_complete != (len(U) == 0):
            return "is_complete = %r with %d unexplored prefixes" % (f.is_complete, len(U)), n
        if p is not None:
            p.sig(tuple(sorted(U)), act[0], oc)
    # nobody in the history was modified by later calls
    for g, snap in history:
        if snapshot(g) != snap:
            return "an earlier fog object was modified by a later call", n
    # serialisation round trip and equality
    try:
        h = HexaryTrieFog.deserialize(f.serialize())
    except Exception as e:
        return "serialize/deserialize raised %s: %s" % (type(e).__name__, e), n
    if not (h == f) or snapshot(h) != snapshot(f):
        return "deserialize(serialize(fog)) != fog", n
    if len(history) > 1 and (history[0][0] == f) != (history[0][1] == snapshot(f)):
        return "__eq__ disagrees with set equality", n
    if f == object() or f == snapshot(f):
        return "__eq__ true for a non-fog", n
    r = check_queries(f, U, keys, p, tuple(sorted(U)))
    n += 2 * len(keys)
    return r, n


def all_keys(maxlen, nibbles=(0, 7, 15)):
    out = []
    for ln in range(maxlen + 1):
        out.extend(itertools.product(nibbles, repeat=ln))
    return out


def _work(chunk, maxlen):
    p = Partial()
    keys = all_keys(maxlen)
    for seq in chunk:
        res, n = check_sequence(seq, keys, p)
        p.evaluations += n
        if res:
            p.violation(res, {"driver": "fogb", "seq": [list(a) for a in seq], "maxlen": maxlen})
        elif p.evaluations % 1009 < 3:
            p.sample({"sequence": [list(a) for a in seq], "query_keys": len(keys)})
    return p


def sequences(depth):
    acts = []
    for which in (0, 1, 2, -1, -2):
        for sh in range(len(SHAPES)):
            acts.append(("explore", which, sh))
    acts.append(("mark", (0,), False))
    acts.append(("mark", (0, 1), False))
    acts.append(("mark", (0, 0), False))
    acts.append(("mark", (1,), True))
    out = []
    for d in range(1, depth + 1):
        out.extend(itertools.product(acts, repeat=d))
    return out


def segment_lists(maxseg):
    """every list of at most 3 sub-segments, each of length 1..3 over nibbles {1, 2}: covers duplicates, nesting at
    every pair of positions and lists with three distinct lengths"""
    segs = [t for n in (1, 2, 3) for t in itertools.product((1, 2), repeat=n)]
    out = [()]
    for n in range(1, maxseg + 1):
        out.extend(itertools.product(segs, repeat=n))
    return out


def _validation_work(chunk):
    p = Partial()
    for S in chunk:
        p.evaluations += 1
        for prefix in ((), (5,)):
            f = HexaryTrieFog()
            U = {()}
            if prefix:
                f = f.explore((), (prefix,))
                U = {prefix}
            want = model_explore(U, prefix, S)
            try:
                g = f.explore(prefix, S)
                oc = "ok"
            except EthValidationError:
                oc = "refused"
            except Exception as e:
                p.violation("explore(%r, %r) raised %s: %s" % (prefix, S, type(e).__name__, e),
                            {"driver": "fogb", "explore_only": [list(prefix), [list(x) for x in S]]})
                continue
            p.sig("explore-validation", len(S), tuple(sorted({len(x) for x in S})), oc)
            if (want is None) != (oc == "refused"):
                p.violation("explore(%r, %r) on a fog with unexplored {%r}: %s, but the call %s"
                            % (prefix, S, prefix, "must be refused (duplicate / nested sub-segments)" if want is None
                               else "is valid", "was accepted" if oc == "ok" else "was refused"),
                            {"driver": "fogb", "explore_only": [list(prefix), [list(x) for x in S]]})
            elif want is not None and set(snapshot(g)) != want:
                p.violation("explore(%r, %r): unexplored set %r, expected %r" % (prefix, S, snapshot(g), sorted(want)),
                            {"driver": "fogb", "explore_only": [list(prefix), [list(x) for x in S]]})
    return p


def run(prop, tier, seed):
    depth = 3
    maxlen = 4 if tier == "thorough" else 3
    seqs = sequences(depth)
    if tier != "thorough":
        seqs = [s for i, s in enumerate(seqs) if len(s) < 3 or i % 4 == seed % 4]
    total = run_chunks(_work, seqs, (maxlen,))
    lists = segment_lists(3)
    total.merge(run_chunks(_validation_work, lists))
    return total, ["explore() argument validation: all %d lists of <=3 sub-segments of length 1..3 over nibbles {1,2} "
                   "(duplicates, nesting at every pair of positions, three distinct lengths), on a fresh fog and below "
                   "a one-nibble prefix, against the set model" % len(lists),
                   "%d action sequences of depth <=%d over 44 actions (explore of the 1st/2nd/3rd unexplored prefix, of a "
                   "non-member and of a prefix below a member, with 8 sub-segment shapes: leaf, extension, branch, mixed, "
                   "duplicate, nested; mark_all_complete incl. duplicates and non-members)%s; after every action: set "
                   "model, antichain, receiver unmodified, is_complete; at the end serialize/deserialize, __eq__, and "
                   "nearest_unknown / nearest_right for all %d query keys of length <=%d over nibbles {0,7,15}"
                   % (len(seqs), depth, "" if tier == "thorough" else " (depth-3 sequences sampled 1 in 4 by seed)",
                      len(all_keys(maxlen)), maxlen)]


def replay(case):
    if "explore_only" in case:
        prefix, S = tuple(case["explore_only"][0]), tuple(tuple(x) for x in case["explore_only"][1])
        p = _validation_work([S])
        return p.violations[0]["what"] if p.violations else None
    seq = [tuple(tuple(x) if isinstance(x, list) else x for x in a) for a in case["seq"]]
    return check_sequence(seq, all_keys(case["maxlen"]))[0]
