-- Feasibility attempt: uniqueness of canonical hexary Merkle-Patricia tries (L_canon_hex). Core Lean only.
inductive HNode (N V : Type) where
  | blank : HNode N V
  | leaf : List N → V → HNode N V
  | ext : List N → HNode N V → HNode N V
  | branch : (N → HNode N V) → Option V → HNode N V

namespace HNode
variable {N V : Type} [DecidableEq N]

def strip : List N → List N → Option (List N)
  | [], k => some k
  | _ :: _, [] => none
  | b :: p, b' :: k => if b = b' then strip p k else none

theorem strip_some {p k k' : List N} : strip p k = some k' ↔ k = p ++ k' := by
  induction p generalizing k with
  | nil => simp [strip, eq_comm]
  | cons b p ih =>
    cases k with
    | nil => simp [strip]
    | cons b' k =>
      simp only [strip]
      by_cases h : b = b'
      · subst h; simp [ih]
      · simp [h]; intro hb; exact absurd hb.symm h

theorem strip_append (p k : List N) : strip p (p ++ k) = some k := strip_some.mpr rfl

def lookup : HNode N V → List N → Option V
  | blank, _ => none
  | leaf p v, k => if k = p then some v else none
  | ext p c, k => match strip p k with
      | some k' => lookup c k'
      | none => none
  | branch _ v, [] => v
  | branch cs _, n :: k => lookup (cs n) k

def isBranch : HNode N V → Prop
  | branch _ _ => True
  | _ => False

def two (cs : N → HNode N V) (v : Option V) : Prop :=
  (∃ n m, n ≠ m ∧ cs n ≠ blank ∧ cs m ≠ blank) ∨ (v.isSome ∧ ∃ n, cs n ≠ blank)

def canon : HNode N V → Prop
  | blank => True
  | leaf _ _ => True
  | ext p c => p ≠ [] ∧ isBranch c ∧ canon c
  | branch cs v => (∀ n, canon (cs n)) ∧ two cs v

theorem lookup_ext_append (p : List N) (c : HNode N V) (k : List N) :
    lookup (ext p c) (p ++ k) = lookup c k := by
  simp [lookup, strip_append]

theorem key_of_ext {p : List N} {c : HNode N V} {k : List N}
    (h : (lookup (ext p c) k).isSome) : ∃ k', k = p ++ k' ∧ (lookup c k').isSome := by
  simp only [lookup] at h
  cases hs : strip p k with
  | none => simp [hs] at h
  | some k' =>
    rw [hs] at h
    exact ⟨k', strip_some.mp hs, h⟩

theorem key_of_leaf {p : List N} {v : V} {k : List N}
    (h : (lookup (leaf p v) k).isSome) : k = p := by
  simp only [lookup] at h
  by_cases hk : k = p
  · exact hk
  · simp [hk] at h

theorem nonempty : ∀ (a : HNode N V), canon a → a ≠ blank → ∃ k, (lookup a k).isSome := by
  intro a
  induction a with
  | blank => intro _ h; exact absurd rfl h
  | leaf p v => intro _ _; exact ⟨p, by simp [lookup]⟩
  | ext p c ih =>
    intro h _
    have hc : c ≠ blank := by
      intro e; rw [e] at h; exact h.2.1
    obtain ⟨k, hk⟩ := ih h.2.2 hc
    exact ⟨p ++ k, by rw [lookup_ext_append]; exact hk⟩
  | branch cs v ih =>
    intro h _
    have : ∃ n, cs n ≠ blank := by
      rcases h.2 with ⟨n, _, _, hn, _⟩ | ⟨_, n, hn⟩
      · exact ⟨n, hn⟩
      · exact ⟨n, hn⟩
    obtain ⟨n, hn⟩ := this
    obtain ⟨k, hk⟩ := ih n (h.1 n) hn
    exact ⟨n :: k, by simpa [lookup] using hk⟩

/-- for every nibble there is a key of a canonical branch that does not start with it -/
theorem branch_first {cs : N → HNode N V} {v : Option V} (h : canon (branch cs v)) (n : N) :
    (lookup (branch cs v) []).isSome ∨ ∃ m k, m ≠ n ∧ (lookup (branch cs v) (m :: k)).isSome := by
  rcases h.2 with ⟨a, b, hab, ha, hb⟩ | ⟨hv, _⟩
  · right
    by_cases e : a = n
    · obtain ⟨k, hk⟩ := nonempty (cs b) (h.1 b) hb
      exact ⟨b, k, by rw [← e]; exact fun x => hab x.symm, by simpa [lookup] using hk⟩
    · obtain ⟨k, hk⟩ := nonempty (cs a) (h.1 a) ha
      exact ⟨a, k, e, by simpa [lookup] using hk⟩
  · left; simpa [lookup] using hv

theorem branch_two_keys {cs : N → HNode N V} {v : Option V} (h : canon (branch cs v)) :
    ∃ k1 k2, k1 ≠ k2 ∧ (lookup (branch cs v) k1).isSome ∧ (lookup (branch cs v) k2).isSome := by
  rcases h.2 with ⟨a, b, hab, ha, hb⟩ | ⟨hv, a, ha⟩
  · obtain ⟨k, hk⟩ := nonempty (cs a) (h.1 a) ha
    obtain ⟨k', hk'⟩ := nonempty (cs b) (h.1 b) hb
    exact ⟨a :: k, b :: k', by simp [hab], by simpa [lookup] using hk, by simpa [lookup] using hk'⟩
  · obtain ⟨k, hk⟩ := nonempty (cs a) (h.1 a) ha
    exact ⟨[], a :: k, by simp, by simpa [lookup] using hv, by simpa [lookup] using hk⟩

theorem ext_two_keys {p : List N} {c : HNode N V} (h : canon (ext p c)) :
    ∃ k1 k2, k1 ≠ k2 ∧ (lookup (ext p c) k1).isSome ∧ (lookup (ext p c) k2).isSome := by
  obtain ⟨_, hb, hc⟩ := h
  cases c with
  | branch cs v =>
    obtain ⟨k1, k2, hne, h1, h2⟩ := branch_two_keys hc
    exact ⟨p ++ k1, p ++ k2, by simpa using hne, by rw [lookup_ext_append]; exact h1,
      by rw [lookup_ext_append]; exact h2⟩
  | blank => exact absurd hb (by simp [isBranch])
  | leaf _ _ => exact absurd hb (by simp [isBranch])
  | ext _ _ => exact absurd hb (by simp [isBranch])

theorem ext_maximal {p : List N} {c : HNode N V} (h : canon (ext p c)) (n : N) :
    ∃ k, (lookup (ext p c) k).isSome ∧ ¬ ∃ t, k = p ++ n :: t := by
  obtain ⟨_, hb, hc⟩ := h
  cases c with
  | branch cs v =>
    rcases branch_first hc n with h0 | ⟨m, k0, hmn, hk0⟩
    · refine ⟨p, ?_, ?_⟩
      · have := lookup_ext_append p (branch cs v) []
        simp at this; rw [this]; exact h0
      · rintro ⟨t, ht⟩
        have := congrArg List.length ht
        simp at this
    · refine ⟨p ++ m :: k0, ?_, ?_⟩
      · rw [lookup_ext_append]; exact hk0
      · rintro ⟨t, ht⟩
        have := List.append_cancel_left ht
        simp at this
        exact hmn this.1
  | blank => exact absurd hb (by simp [isBranch])
  | leaf _ _ => exact absurd hb (by simp [isBranch])
  | ext _ _ => exact absurd hb (by simp [isBranch])

theorem prefix_cmp : ∀ (p q x y : List N), p ++ x = q ++ y → (∃ z, q = p ++ z) ∨ (∃ z, p = q ++ z)
  | [], q, _, _, _ => Or.inl ⟨q, rfl⟩
  | _ :: _, [], _, _, _ => Or.inr ⟨_, rfl⟩
  | a :: p, b :: q, x, y, h => by
    simp only [List.cons_append, List.cons.injEq] at h
    obtain ⟨hab, hrest⟩ := h
    subst hab
    rcases prefix_cmp p q x y hrest with ⟨z, hz⟩ | ⟨z, hz⟩
    · exact Or.inl ⟨z, by simp [hz]⟩
    · exact Or.inr ⟨z, by simp [hz]⟩

theorem ext_path_le {p q : List N} {c d : HNode N V} (hc : canon (ext p c))
    (hv : ∀ k, lookup (ext p c) k = lookup (ext q d) k) : ∀ z, q = p ++ z → z = [] := by
  intro z hz
  cases z with
  | nil => rfl
  | cons b t =>
    exfalso
    obtain ⟨k, hk, hno⟩ := ext_maximal hc b
    rw [hv k] at hk
    obtain ⟨k', hk', _⟩ := key_of_ext hk
    exact hno ⟨t ++ k', by rw [hk', hz]; simp⟩

-- asymmetric impossibilities
theorem leaf_ne_multi {p : List N} {v : V} {b : HNode N V}
    (hm : ∃ k1 k2, k1 ≠ k2 ∧ (lookup b k1).isSome ∧ (lookup b k2).isSome)
    (hv : ∀ k, lookup (leaf p v) k = lookup b k) : False := by
  obtain ⟨k1, k2, hne, h1, h2⟩ := hm
  rw [← hv] at h1 h2
  exact hne ((key_of_leaf h1).trans (key_of_leaf h2).symm)

theorem ext_ne_branch {p : List N} {c : HNode N V} {cs : N → HNode N V} {v : Option V}
    (ha : canon (ext p c)) (hb : canon (branch cs v))
    (hv : ∀ k, lookup (ext p c) k = lookup (branch cs v) k) : False := by
  cases p with
  | nil => exact ha.1 rfl
  | cons n p' =>
    rcases branch_first hb n with h0 | ⟨m, k, hmn, hk⟩
    · rw [← hv] at h0; simp [lookup, strip] at h0
    · rw [← hv] at hk
      obtain ⟨k', hk', _⟩ := key_of_ext hk
      simp at hk'
      exact hmn hk'.1

theorem unique : ∀ (a b : HNode N V), canon a → canon b → (∀ k, lookup a k = lookup b k) → a = b := by
  intro a
  induction a with
  | blank =>
    intro b _ hb hv
    cases b with
    | blank => rfl
    | _ =>
      exfalso
      obtain ⟨k, hk⟩ := nonempty _ hb (by simp)
      rw [← hv] at hk; simp [lookup] at hk
  | leaf p v =>
    intro b _ hb hv
    cases b with
    | blank => have := hv p; simp [lookup] at this
    | leaf q w =>
      have h1 := hv p
      simp only [lookup] at h1
      by_cases e : p = q
      · subst e; simp at h1; rw [h1]
      · simp [e] at h1
    | ext q d => exact (leaf_ne_multi (ext_two_keys hb) hv).elim
    | branch cs w => exact (leaf_ne_multi (branch_two_keys hb) hv).elim
  | ext p c ih =>
    intro b ha hb hv
    cases b with
    | blank =>
      exfalso
      obtain ⟨k, hk⟩ := nonempty _ ha (by simp)
      rw [hv] at hk; simp [lookup] at hk
    | leaf q w => exact (leaf_ne_multi (ext_two_keys ha) (fun k => (hv k).symm)).elim
    | ext q d =>
      obtain ⟨k, hk⟩ := nonempty _ ha (by simp)
      obtain ⟨x, hx, _⟩ := key_of_ext hk
      have hk2 := hk; rw [hv k] at hk2
      obtain ⟨y, hy, _⟩ := key_of_ext hk2
      have hpq : p = q := by
        rcases prefix_cmp p q x y (hx.symm.trans hy) with ⟨z, hz⟩ | ⟨z, hz⟩
        · have := ext_path_le ha hv z hz; subst this; simpa using hz.symm
        · have := ext_path_le hb (fun k => (hv k).symm) z hz; subst this; simpa using hz
      subst hpq
      have hcd : c = d := ih d ha.2.2 hb.2.2 (fun k => by
        have := hv (p ++ k); rwa [lookup_ext_append, lookup_ext_append] at this)
      rw [hcd]
    | branch cs w => exact (ext_ne_branch ha hb hv).elim
  | branch cs v ih =>
    intro b ha hb hv
    cases b with
    | blank =>
      exfalso
      obtain ⟨k, hk⟩ := nonempty _ ha (by simp)
      rw [hv] at hk; simp [lookup] at hk
    | leaf q w => exact (leaf_ne_multi (branch_two_keys ha) (fun k => (hv k).symm)).elim
    | ext q d => exact (ext_ne_branch hb ha (fun k => (hv k).symm)).elim
    | branch cs' v' =>
      have hvv : v = v' := by have := hv []; simpa [lookup] using this
      have hcs : cs = cs' := by
        funext n
        exact ih n (cs' n) (ha.1 n) (hb.1 n) (fun k => by have := hv (n :: k); simpa [lookup] using this)
      rw [hvv, hcs]

/-! ## The Yellow-Paper construction `c(J, i)` (Appendix D), clause by clause, on suffix views.
`J : List N → Option V` is the set of (remaining key suffix ↦ value); YP's index `i` is the length
already consumed, so YP's `I₀[i..]` is a key of `J`. -/

def twoKeys (J : List N → Option V) : Prop := ∃ k1 k2, k1 ≠ k2 ∧ (J k1).isSome ∧ (J k2).isSome
def allpre (J : List N → Option V) (l : List N) : Prop := ∀ k, (J k).isSome → ∃ t, k = l ++ t
def shift (J : List N → Option V) (l : List N) : List N → Option V := fun k => J (l ++ k)

inductive YP : (List N → Option V) → HNode N V → Prop
  /-- `n(∅, i) = ()` -/
  | blank (J) : (∀ k, J k = none) → YP J blank
  /-- `‖J‖ = 1`: leaf with the whole remaining key -/
  | leaf (J) (k : List N) (v : V) : (∀ k', J k' = if k' = k then some v else none) → YP J (leaf k v)
  /-- `i ≠ j`: extension by the *maximal* common prefix `l = I₀[i..j-1]`, child `n(J, j)` -/
  | ext (J) (l : List N) (t : HNode N V) : twoKeys J → l ≠ [] → allpre J l →
      (∀ n, ¬ allpre J (l ++ [n])) → YP (shift J l) t → YP J (ext l t)
  /-- otherwise: branch, `u(n) = n({I | I₀[i] = n}, i+1)`, `v` = value of the key of length `i` -/
  | branch (J) (cs : N → HNode N V) : twoKeys J → (∀ n, ¬ allpre J [n]) →
      (∀ n, YP (shift J [n]) (cs n)) → YP J (branch cs (J []))

theorem yp_branch_kind {J : List N → Option V} {t : HNode N V} (h : YP J t)
    (h2 : twoKeys J) (hno : ∀ n, ¬ allpre J [n]) : isBranch t := by
  cases h with
  | blank _ hb =>
    obtain ⟨k1, _, _, hk1, _⟩ := h2
    rw [hb k1] at hk1; simp at hk1
  | leaf _ k v hl =>
    exfalso
    obtain ⟨k1, k2, hne, hk1, hk2⟩ := h2
    rw [hl k1] at hk1; rw [hl k2] at hk2
    have e1 : k1 = k := by
      by_cases e : k1 = k
      · exact e
      · simp [e] at hk1
    have e2 : k2 = k := by
      by_cases e : k2 = k
      · exact e
      · simp [e] at hk2
    exact hne (e1.trans e2.symm)
  | ext _ l t _ hl hall _ _ =>
    exfalso
    cases l with
    | nil => exact hl rfl
    | cons n l' =>
      apply hno n
      intro k hk
      obtain ⟨t', ht'⟩ := hall k hk
      exact ⟨l' ++ t', by simp [ht']⟩
  | branch _ cs _ _ _ => simp [isBranch]

theorem not_allpre {J : List N → Option V} {l : List N} (h : ¬ allpre J l) :
    ∃ k, (J k).isSome ∧ ¬ ∃ t, k = l ++ t := by
  apply Classical.byContradiction
  intro hc
  apply h
  intro k hk
  apply Classical.byContradiction
  intro hn
  exact hc ⟨k, hk, hn⟩

/-- `yp_is_canonical`: the Yellow-Paper node is shape-canonical and stores exactly `J` -/
theorem yp_sound {J : List N → Option V} {t : HNode N V} (h : YP J t) :
    canon t ∧ ∀ k, lookup t k = J k := by
  induction h with
  | blank J hb => exact ⟨trivial, fun k => by simp [lookup, hb k]⟩
  | leaf J k v hl => exact ⟨trivial, fun k' => by simp [lookup, hl k']⟩
  | ext J l t h2 hl hall hmax hsub ih =>
    obtain ⟨hc, hv⟩ := ih
    have h2' : twoKeys (shift J l) := by
      obtain ⟨k1, k2, hne, hk1, hk2⟩ := h2
      obtain ⟨t1, e1⟩ := hall k1 hk1
      obtain ⟨t2, e2⟩ := hall k2 hk2
      refine ⟨t1, t2, ?_, ?_, ?_⟩
      · intro e; apply hne; rw [e1, e2, e]
      · simpa [shift, ← e1] using hk1
      · simpa [shift, ← e2] using hk2
    have hno' : ∀ n, ¬ allpre (shift J l) [n] := by
      intro n ha
      apply hmax n
      intro k hk
      obtain ⟨t1, e1⟩ := hall k hk
      have : (shift J l t1).isSome := by simpa [shift, ← e1] using hk
      obtain ⟨t2, e2⟩ := ha t1 this
      exact ⟨t2, by rw [e1, e2]; simp⟩
    refine ⟨⟨hl, yp_branch_kind hsub h2' hno', hc⟩, ?_⟩
    intro k
    simp only [lookup]
    cases hs : strip l k with
    | some k' =>
      have := strip_some.mp hs
      simp [hv k', shift, this]
    | none =>
      cases hj : J k with
      | none => rfl
      | some v =>
        exfalso
        obtain ⟨t', ht'⟩ := hall k (by simp [hj])
        rw [ht', strip_append] at hs
        simp at hs
  | branch J cs h2 hno hsub ih =>
    have hview : ∀ n k, lookup (cs n) k = J (n :: k) := fun n k => by
      have := (ih n).2 k; simpa [shift] using this
    have hnb : ∀ n r, (J (n :: r)).isSome → cs n ≠ blank := by
      intro n r hk e
      have := hview n r
      rw [e] at this
      simp [lookup] at this
      rw [← this] at hk; simp at hk
    refine ⟨⟨fun n => (ih n).1, ?_⟩, ?_⟩
    · obtain ⟨k1, k2, hne, hk1, hk2⟩ := h2
      cases k1 with
      | nil =>
        cases k2 with
        | nil => exact absurd rfl hne
        | cons n r => exact Or.inr ⟨hk1, n, hnb n r hk2⟩
      | cons n1 r1 =>
        cases k2 with
        | nil => exact Or.inr ⟨hk2, n1, hnb n1 r1 hk1⟩
        | cons n2 r2 =>
          by_cases e : n1 = n2
          · subst e
            obtain ⟨k3, hk3, hn3⟩ := not_allpre (hno n1)
            cases k3 with
            | nil => exact Or.inr ⟨hk3, n1, hnb n1 r1 hk1⟩
            | cons m r3 =>
              have hm : n1 ≠ m := by
                intro e; apply hn3; exact ⟨r3, by simp [e]⟩
              exact Or.inl ⟨n1, m, hm, hnb n1 r1 hk1, hnb m r3 hk3⟩
          · exact Or.inl ⟨n1, n2, e, hnb n1 r1 hk1, hnb n2 r2 hk2⟩
    · intro k
      cases k with
      | nil => simp [lookup]
      | cons n r => simp [lookup, hview n r]

/-- Corollary (C02, iv-a + iv-b): a canonical trie storing `J` *is* the Yellow-Paper trie of `J`. -/
theorem canonical_is_yp {J : List N → Option V} {a t : HNode N V}
    (ha : canon a) (hv : ∀ k, lookup a k = J k) (ht : YP J t) : a = t := by
  obtain ⟨hc, hl⟩ := yp_sound ht
  exact unique a t ha hc (fun k => by rw [hv k, hl k])
end HNode
#print axioms HNode.unique
#print axioms HNode.yp_sound
#print axioms HNode.canonical_is_yp
