-- Sparse Merkle tree lemmas: M_frame, M_default, fold = M. Core Lean only.
namespace SMT
variable {H B V : Type} (kec : B → H) (pair : H → H → B) (val : V → B)

/-- hash of the subtree of height `h` whose leaves are the keys with ancestor `p` (`h = D - depth`) -/
def Mh (m : Nat → V) : Nat → Nat → H
  | 0, p => kec (val (m p))
  | h + 1, p => kec (pair (Mh m h (2 * p)) (Mh m h (2 * p + 1)))

/-- ancestor of `key` at height `h` (= `key >> h`) -/
def anc (key : Nat) : Nat → Nat
  | 0 => key
  | h + 1 => anc key h / 2

def upd (m : Nat → V) (key : Nat) (v : V) : Nat → V := fun k => if k = key then v else m k
def sib (a : Nat) : Nat := if a % 2 = 1 then a - 1 else a + 1

/-- `M_frame`: a subtree that does not contain `key` is not affected by writing `key` -/
theorem M_frame (m : Nat → V) (key : Nat) (v : V) :
    ∀ h p, p ≠ anc key h → Mh kec pair val (upd m key v) h p = Mh kec pair val m h p := by
  intro h
  induction h with
  | zero => intro p hp; simp only [anc] at hp; simp [Mh, upd, hp]
  | succ h ih =>
    intro p hp
    simp only [anc] at hp
    have h1 : 2 * p ≠ anc key h := by omega
    have h2 : 2 * p + 1 ≠ anc key h := by omega
    simp [Mh, ih _ h1, ih _ h2]

/-- the sibling of the ancestor at height `h` is off the key's path -/
theorem sib_ne (key h : Nat) : sib (anc key h) ≠ anc key h := by
  unfold sib; split <;> omega

/-- `M_default`: all-default tree -/
def E (dflt : V) : Nat → H
  | 0 => kec (val dflt)
  | h + 1 => kec (pair (E dflt h) (E dflt h))

theorem M_default (dflt : V) : ∀ h p, Mh kec pair val (fun _ => dflt) h p = E kec pair val dflt h := by
  intro h
  induction h with
  | zero => intro p; simp [Mh, E]
  | succ h ih => intro p; simp [Mh, E, ih]

/-- the leaf-to-root fold computed by `calc_root` / `set` / `SparseMerkleProof.root_hash` -/
def up (key : Nat) (leaf : H) (sibs : Nat → H) : Nat → H
  | 0 => leaf
  | h + 1 => if anc key h % 2 = 1 then kec (pair (sibs h) (up key leaf sibs h))
             else kec (pair (up key leaf sibs h) (sibs h))

/-- with the true siblings, the fold is the subtree hash on the key's path; at `h = D` it is the root -/
theorem fold_eq (m : Nat → V) (key : Nat) (sibs : Nat → H)
    (hs : ∀ h, sibs h = Mh kec pair val m h (sib (anc key h))) :
    ∀ h, up kec pair key (kec (val (m key))) sibs h = Mh kec pair val m h (anc key h) := by
  intro h
  induction h with
  | zero => simp [up, Mh, anc]
  | succ h ih =>
    simp only [up, Mh, anc]
    by_cases hb : anc key h % 2 = 1
    · have e1 : 2 * (anc key h / 2) + 1 = anc key h := by omega
      have e0 : 2 * (anc key h / 2) = sib (anc key h) := by unfold sib; simp [hb]; omega
      rw [if_pos hb, ih, hs h, e1, e0]
    · have e0 : 2 * (anc key h / 2) = anc key h := by omega
      have e1 : 2 * (anc key h / 2) + 1 = sib (anc key h) := by unfold sib; simp [hb]; omega
      rw [if_neg hb, ih, hs h, e1, e0]

/-- after `set(key, v)`: old siblings (by `M_frame`) + new leaf give the new root -/
theorem set_root (m : Nat → V) (key : Nat) (v : V) (sibs : Nat → H)
    (hs : ∀ h, sibs h = Mh kec pair val m h (sib (anc key h))) :
    ∀ h, up kec pair key (kec (val v)) sibs h = Mh kec pair val (upd m key v) h (anc key h) := by
  have hs' : ∀ h, sibs h = Mh kec pair val (upd m key v) h (sib (anc key h)) := by
    intro h; rw [hs h, M_frame kec pair val m key v h _ (sib_ne key h)]
  have := fold_eq kec pair val (upd m key v) key sibs hs'
  simpa [upd] using this

/-! ### C15: which sibling of a tracked key `t` changes when another key `k` is written -/

theorem anc_mono {t k h : Nat} (e : anc t h = anc k h) : anc t (h + 1) = anc k (h + 1) := by
  simp [anc, e]

/-- at the divergence height (paths differ at `h`, agree at `h+1`) the tracked key's sibling
    is exactly the node on the written key's path … -/
theorem sib_at_divergence {t k h : Nat} (hd : anc t h ≠ anc k h)
    (he : anc t (h + 1) = anc k (h + 1)) : sib (anc t h) = anc k h := by
  simp only [anc] at he
  unfold sib; split <;> omega

/-- … below it the sibling is off the written key's path (parents already differ) … -/
theorem sib_below_divergence {t k h : Nat} (hd : anc t (h + 1) ≠ anc k (h + 1)) :
    sib (anc t h) ≠ anc k h := by
  simp only [anc] at hd
  unfold sib; split <;> omega

/-- … and above it too (the paths coincide, and a sibling is never the node itself). -/
theorem sib_above_divergence {t k h : Nat} (he : anc t h = anc k h) :
    sib (anc t h) ≠ anc k h := by
  rw [← he]; exact sib_ne t h

/-- so after `set(k, v)` every tracked sibling except the one at the divergence height is unchanged -/
theorem tracked_sibling_unchanged (m : Nat → V) (t k : Nat) (v : V) (h : Nat)
    (hne : sib (anc t h) ≠ anc k h) :
    Mh kec pair val (upd m k v) h (sib (anc t h)) = Mh kec pair val m h (sib (anc t h)) :=
  M_frame kec pair val m k v h _ hne
end SMT
#print axioms SMT.sib_at_divergence
#print axioms SMT.tracked_sibling_unchanged
#print axioms SMT.M_frame
#print axioms SMT.fold_eq
#print axioms SMT.set_root
