-- Fog lemmas: lexicographic order on nibble tuples (Python tuple order), prefixes, antichains. Core Lean only.
namespace Fog
abbrev P := List Nat

def lt : P → P → Prop
  | [], [] => False
  | [], _ :: _ => True
  | _ :: _, [] => False
  | a :: l, b :: m => a < b ∨ (a = b ∧ lt l m)

def le (x y : P) : Prop := x = y ∨ lt x y
def pre (p k : P) : Prop := ∃ t, k = p ++ t

theorem lt_irrefl : ∀ x : P, ¬ lt x x
  | [] => by simp [lt]
  | a :: l => by simp [lt]; exact lt_irrefl l

theorem lt_trans : ∀ {x y z : P}, lt x y → lt y z → lt x z
  | [], [], _, h, _ => by simp [lt] at h
  | [], _ :: _, [], _, h => by simp [lt] at h
  | [], _ :: _, _ :: _, _, _ => by simp [lt]
  | _ :: _, [], _, h, _ => by simp [lt] at h
  | _ :: _, _ :: _, [], _, h => by simp [lt] at h
  | a :: l, b :: m, c :: n, h1, h2 => by
    simp only [lt] at *
    rcases h1 with h1 | ⟨e1, h1⟩ <;> rcases h2 with h2 | ⟨e2, h2⟩
    · left; omega
    · left; omega
    · left; omega
    · right; exact ⟨by omega, lt_trans h1 h2⟩

theorem trichotomy : ∀ x y : P, lt x y ∨ x = y ∨ lt y x
  | [], [] => by simp
  | [], _ :: _ => by simp [lt]
  | _ :: _, [] => by simp [lt]
  | a :: l, b :: m => by
    simp only [lt]
    rcases Nat.lt_trichotomy a b with h | h | h
    · left; left; exact h
    · subst h
      rcases trichotomy l m with h | h | h
      · left; right; exact ⟨rfl, h⟩
      · right; left; rw [h]
      · right; right; right; exact ⟨rfl, h⟩
    · right; right; left; exact h

/-- a prefix is ≤ the whole (Python: `(1,2) <= (1,2,3)`) -/
theorem pre_le : ∀ {p k : P}, pre p k → le p k
  | [], [], _ => Or.inl rfl
  | [], _ :: _, _ => Or.inr (by simp [lt])
  | a :: p, k, ⟨t, ht⟩ => by
    subst ht
    rcases pre_le (p := p) (k := p ++ t) ⟨t, rfl⟩ with h | h
    · left; simp [← h]
    · right; simp [lt]; exact h

/-- `lex_between`: anything between a prefix of `k` and `k` itself extends that prefix -/
theorem between : ∀ {a q k : P}, pre a k → lt a q → le q k → pre a q
  | [], q, _, _, _, _ => ⟨q, rfl⟩
  | _ :: _, [], _, _, h, _ => by simp [lt] at h
  | x :: a, y :: q, k, ⟨t, ht⟩, h1, h2 => by
    subst ht
    simp only [lt] at h1
    rcases h2 with h2 | h2
    · -- q = k
      simp at h2; obtain ⟨e, h2⟩ := h2; subst e
      exact ⟨t, by simp [h2]⟩
    · simp only [List.cons_append, lt] at h2
      rcases h1 with h1 | ⟨e, h1⟩
      · rcases h2 with h2 | ⟨e2, _⟩ <;> omega
      · subst e
        rcases h2 with h2 | ⟨_, h2⟩
        · omega
        · obtain ⟨u, hu⟩ := between (a := a) (q := q) (k := a ++ t) ⟨t, rfl⟩ h1 (Or.inr h2)
          exact ⟨u, by simp [hu]⟩

def antichain (U : P → Prop) : Prop := ∀ x y, U x → U y → x ≠ y → ¬ pre x y

/-- in an antichain, a member that is a prefix of `key` is the greatest member ≤ key
    (so it sits at rank `bisect_right(key) - 1` of the sorted set) -/
theorem containing_is_greatest {U : P → Prop} (hU : antichain U) {a key : P}
    (ha : U a) (hp : pre a key) : ∀ q, U q → le q key → le q a := by
  intro q hq hqk
  rcases trichotomy a q with h | h | h
  · exfalso
    have := between hp h hqk
    exact hU a q ha hq (fun e => lt_irrefl q (e ▸ h)) this
  · exact Or.inl h.symm
  · exact Or.inr h

/-- at most one member of an antichain is a prefix of a given key -/
theorem containing_unique {U : P → Prop} (hU : antichain U) {a b key : P}
    (ha : U a) (hb : U b) (hpa : pre a key) (hpb : pre b key) : a = b := by
  rcases trichotomy a b with h | h | h
  · exact absurd (between hpa h (pre_le hpb)) (hU a b ha hb (fun e => lt_irrefl b (e ▸ h)))
  · exact h
  · exact absurd (between hpb h (pre_le hpa)) (hU b a hb ha (fun e => lt_irrefl a (e ▸ h)))

def explore (U : P → Prop) (p : P) (S : P → Prop) : P → Prop :=
  fun z => (U z ∧ z ≠ p) ∨ ∃ s, S s ∧ z = p ++ s

theorem pre_append_cases : ∀ {u p s : P}, pre u (p ++ s) → pre u p ∨ pre p u
  | [], p, _, _ => Or.inl ⟨p, rfl⟩
  | _ :: _, [], _, _ => Or.inr ⟨_, rfl⟩
  | x :: u, y :: p, s, ⟨t, ht⟩ => by
    simp at ht; obtain ⟨e, ht⟩ := ht; subst e
    rcases pre_append_cases (u := u) (p := p) (s := s) ⟨t, ht⟩ with ⟨w, hw⟩ | ⟨w, hw⟩
    · exact Or.inl ⟨w, by simp [hw]⟩
    · exact Or.inr ⟨w, by simp [hw]⟩

/-- `antichain_explore` -/
theorem antichain_explore {U S : P → Prop} {p : P} (hU : antichain U) (hS : antichain S) (hp : U p) :
    antichain (explore U p S) := by
  intro x y hx hy hne hxy
  rcases hx with ⟨hx, hxp⟩ | ⟨s, hs, rfl⟩ <;> rcases hy with ⟨hy, hyp⟩ | ⟨t, ht, rfl⟩
  · exact hU x y hx hy hne hxy
  · rcases pre_append_cases hxy with h | h
    · exact hU x p hx hp hxp h
    · exact hU p x hp hx (fun e => hxp e.symm) h
  · obtain ⟨w, hw⟩ := hxy
    exact hU p y hp hy (fun e => hyp e.symm) ⟨s ++ w, by simp [hw]⟩
  · obtain ⟨w, hw⟩ := hxy
    have : t = s ++ w := by simpa using hw
    exact hS s t hs ht (fun e => hne (by rw [e])) ⟨w, this⟩

/-- explorations of two different members commute -/
theorem explore_comm {U S1 S2 : P → Prop} {p1 p2 : P} (hU : antichain U)
    (h1 : U p1) (h2 : U p2) (hne : p1 ≠ p2) :
    explore (explore U p1 S1) p2 S2 = explore (explore U p2 S2) p1 S1 := by
  funext z
  apply propext
  have np12 : ¬ pre p1 p2 := hU p1 p2 h1 h2 hne
  have np21 : ¬ pre p2 p1 := hU p2 p1 h2 h1 (fun e => hne e.symm)
  constructor
  · rintro (⟨(⟨hz, hz1⟩ | ⟨s, hs, rfl⟩), hz2⟩ | ⟨s, hs, rfl⟩)
    · exact Or.inl ⟨Or.inl ⟨hz, hz2⟩, hz1⟩
    · exact Or.inr ⟨s, hs, rfl⟩
    · exact Or.inl ⟨Or.inr ⟨s, hs, rfl⟩, fun e => np21 ⟨s, e.symm⟩⟩
  · rintro (⟨(⟨hz, hz2⟩ | ⟨s, hs, rfl⟩), hz1⟩ | ⟨s, hs, rfl⟩)
    · exact Or.inl ⟨Or.inl ⟨hz, hz1⟩, hz2⟩
    · exact Or.inr ⟨s, hs, rfl⟩
    · exact Or.inl ⟨Or.inr ⟨s, hs, rfl⟩, fun e => np12 ⟨s, e.symm⟩⟩

/-! ### C10: byte-string order is nibble-path order -/
def nibs : P → P
  | [] => []
  | x :: l => x / 16 :: x % 16 :: nibs l

theorem nibs_lt : ∀ {a b : P}, (∀ x ∈ a, x < 256) → (∀ x ∈ b, x < 256) → (lt a b ↔ lt (nibs a) (nibs b))
  | [], [], _, _ => by simp [nibs, lt]
  | [], _ :: _, _, _ => by simp [nibs, lt]
  | _ :: _, [], _, _ => by simp [nibs, lt]
  | x :: a, y :: b, ha, hb => by
    have ih := nibs_lt (a := a) (b := b) (fun z hz => ha z (by simp [hz])) (fun z hz => hb z (by simp [hz]))
    simp only [nibs, lt]
    constructor
    · rintro (h | ⟨e, h⟩)
      · by_cases hq : x / 16 < y / 16
        · exact Or.inl hq
        · exact Or.inr ⟨by omega, Or.inl (by omega)⟩
      · subst e; exact Or.inr ⟨rfl, Or.inr ⟨rfl, ih.mp h⟩⟩
    · rintro (h | ⟨e, h | ⟨e2, h⟩⟩)
      · left; omega
      · left; omega
      · right; exact ⟨by omega, ih.mpr h⟩

/-! ### C09: one walk step keeps every stored key covered -/
/-- `covered U met κ`: κ was met, or some unexplored prefix still contains it -/
def covered (U met : P → Prop) (κ : P) : Prop := met κ ∨ ∃ p, U p ∧ pre p κ

/-- If the node (or simulated node) reported for prefix `p` is *complete* for the trie it was read
    from — every stored key below `p` is the node's own key `p ++ suf` or continues with one of
    the reported segments — then exploring `p` with those segments and recording the node's key
    keeps every stored key covered. -/
theorem walk_step {U met S : P → Prop} {p κ : P} {own : Option P}
    (hc : covered U met κ)
    (complete : pre p κ → (∃ suf, own = some suf ∧ κ = p ++ suf) ∨ ∃ s, S s ∧ pre (p ++ s) κ) :
    covered (explore U p S) (fun z => met z ∨ ∃ suf, own = some suf ∧ z = p ++ suf) κ := by
  rcases hc with hm | ⟨q, hq, hqκ⟩
  · exact Or.inl (Or.inl hm)
  · by_cases e : q = p
    · subst e
      rcases complete hqκ with ⟨suf, ho, hk⟩ | ⟨s, hs, hsκ⟩
      · exact Or.inl (Or.inr ⟨suf, ho, hk⟩)
      · exact Or.inr ⟨q ++ s, Or.inr ⟨s, hs, rfl⟩, hsκ⟩
    · exact Or.inr ⟨q, Or.inl ⟨hq, e⟩, hqκ⟩
/-- a common prefix can be cancelled: the order of `p ++ x` and `p ++ y` is the order of `x` and `y`
    (used by the iterator contracts: the first key below an extension / a branch slot) -/
theorem lt_append_left : ∀ (p x y : P), lt (p ++ x) (p ++ y) ↔ lt x y
  | [], x, y => by simp
  | a :: p, x, y => by
    simp only [List.cons_append, lt]
    constructor
    · intro h
      rcases h with h | ⟨_, h⟩
      · exact absurd h (Nat.lt_irrefl a)
      · exact (lt_append_left p x y).mp h
    · intro h
      exact Or.inr ⟨trivial, (lt_append_left p x y).mpr h⟩
end Fog
#print axioms Fog.lt_irrefl
#print axioms Fog.lt_append_left
#print axioms Fog.nibs_lt
#print axioms Fog.walk_step
#print axioms Fog.between
#print axioms Fog.containing_is_greatest
#print axioms Fog.antichain_explore
#print axioms Fog.explore_comm
