-- Feasibility attempt: uniqueness of canonical binary tries (L_canon_bin). Core Lean only.
inductive BNode (V : Type) where
  | leaf : V → BNode V
  | kv : List Bool → BNode V → BNode V
  | branch : BNode V → BNode V → BNode V

namespace BNode
variable {V : Type}

def strip : List Bool → List Bool → Option (List Bool)
  | [], k => some k
  | _ :: _, [] => none
  | b :: p, b' :: k => if b = b' then strip p k else none

theorem strip_some {p k k' : List Bool} : strip p k = some k' ↔ k = p ++ k' := by
  induction p generalizing k with
  | nil => simp [strip, eq_comm]
  | cons b p ih =>
    cases k with
    | nil => simp [strip]
    | cons b' k =>
      simp only [strip]
      by_cases h : b = b'
      · subst h; simp [ih]
      · simp [h]; intro hb; exact absurd hb.symm h

theorem strip_append (p k : List Bool) : strip p (p ++ k) = some k := strip_some.mpr rfl

def lookup : BNode V → List Bool → Option V
  | leaf v, [] => some v
  | leaf _, _ :: _ => none
  | kv p c, k => match strip p k with
      | some k' => lookup c k'
      | none => none
  | branch _ _, [] => none
  | branch l r, b :: k => if b then lookup r k else lookup l k

def notKv : BNode V → Prop
  | kv _ _ => False
  | _ => True

def canon : BNode V → Prop
  | leaf _ => True
  | kv p c => p ≠ [] ∧ notKv c ∧ canon c
  | branch l r => canon l ∧ canon r

theorem lookup_kv_append (p : List Bool) (c : BNode V) (k : List Bool) :
    lookup (kv p c) (p ++ k) = lookup c k := by
  simp [lookup, strip_append]

theorem nonempty {a : BNode V} (h : canon a) : ∃ k, (lookup a k).isSome := by
  induction a with
  | leaf v => exact ⟨[], by simp [lookup]⟩
  | kv p c ih =>
    obtain ⟨k, hk⟩ := ih h.2.2
    exact ⟨p ++ k, by rw [lookup_kv_append]; exact hk⟩
  | branch l r ihl _ =>
    obtain ⟨k, hk⟩ := ihl h.1
    exact ⟨false :: k, by simpa [lookup] using hk⟩

theorem key_of_kv {p : List Bool} {c : BNode V} {k : List Bool}
    (h : (lookup (kv p c) k).isSome) : ∃ k', k = p ++ k' ∧ (lookup c k').isSome := by
  simp only [lookup] at h
  cases hs : strip p k with
  | none => simp [hs] at h
  | some k' =>
    rw [hs] at h
    exact ⟨k', strip_some.mp hs, h⟩

theorem branch_sides {l r : BNode V} (h : canon (branch l r)) (b : Bool) :
    ∃ k, (lookup (branch l r) (b :: k)).isSome := by
  cases b with
  | false => obtain ⟨k, hk⟩ := nonempty h.1; exact ⟨k, by simpa [lookup] using hk⟩
  | true => obtain ⟨k, hk⟩ := nonempty h.2; exact ⟨k, by simpa [lookup] using hk⟩

/-- the kv path is the *longest* common prefix: for every bit there is a key that does not continue with it -/
theorem kv_maximal {p : List Bool} {c : BNode V} (h : canon (kv p c)) (b : Bool) :
    ∃ k, (lookup (kv p c) k).isSome ∧ ¬ ∃ t, k = p ++ b :: t := by
  obtain ⟨_, hnk, hc⟩ := h
  cases c with
  | leaf v =>
    refine ⟨p, ?_, ?_⟩
    · have := lookup_kv_append p (leaf v) []
      simp at this; rw [this]; simp [lookup]
    · rintro ⟨t, ht⟩
      have := congrArg List.length ht
      simp at this
  | kv q d => exact absurd hnk (by simp [notKv])
  | branch l r =>
    obtain ⟨k0, hk0⟩ := branch_sides hc (!b)
    refine ⟨p ++ (!b) :: k0, ?_, ?_⟩
    · rw [lookup_kv_append]; exact hk0
    · rintro ⟨t, ht⟩
      have := List.append_cancel_left ht
      simp at this

theorem prefix_cmp : ∀ (p q x y : List Bool), p ++ x = q ++ y → (∃ z, q = p ++ z) ∨ (∃ z, p = q ++ z)
  | [], q, _, _, _ => Or.inl ⟨q, rfl⟩
  | _ :: _, [], _, _, _ => Or.inr ⟨_, rfl⟩
  | a :: p, b :: q, x, y, h => by
    simp only [List.cons_append, List.cons.injEq] at h
    obtain ⟨hab, hrest⟩ := h
    subst hab
    rcases prefix_cmp p q x y hrest with ⟨z, hz⟩ | ⟨z, hz⟩
    · exact Or.inl ⟨z, by simp [hz]⟩
    · exact Or.inr ⟨z, by simp [hz]⟩

theorem kv_path_le {p q : List Bool} {c d : BNode V} (hc : canon (kv p c))
    (hv : ∀ k, lookup (kv p c) k = lookup (kv q d) k) : ∀ z, q = p ++ z → z = [] := by
  intro z hz
  cases z with
  | nil => rfl
  | cons b t =>
    exfalso
    obtain ⟨k, hk, hno⟩ := kv_maximal hc b
    rw [hv k] at hk
    obtain ⟨k', hk', _⟩ := key_of_kv hk
    exact hno ⟨t ++ k', by rw [hk', hz]; simp⟩

theorem unique : ∀ (a b : BNode V), canon a → canon b → (∀ k, lookup a k = lookup b k) → a = b := by
  intro a
  induction a with
  | leaf v =>
    intro b _ hb hv
    cases b with
    | leaf w => have := hv []; simp [lookup] at this; rw [this]
    | kv q d =>
      exfalso
      obtain ⟨k, hk⟩ := nonempty hb
      obtain ⟨k', hk', _⟩ := key_of_kv hk
      rw [← hv k] at hk
      cases k with
      | nil =>
        have hq : q = [] := by
          have := congrArg List.length hk'
          simp at this; exact List.eq_nil_of_length_eq_zero (by omega)
        exact hb.1 hq
      | cons _ _ => simp [lookup] at hk
    | branch l r => have := hv []; simp [lookup] at this
  | kv p c ih =>
    intro b ha hb hv
    cases b with
    | leaf w =>
      exfalso
      obtain ⟨k, hk⟩ := nonempty ha
      obtain ⟨k', hk', _⟩ := key_of_kv hk
      rw [hv k] at hk
      cases k with
      | nil =>
        have hp : p = [] := by
          have := congrArg List.length hk'
          simp at this; exact List.eq_nil_of_length_eq_zero (by omega)
        exact ha.1 hp
      | cons _ _ => simp [lookup] at hk
    | kv q d =>
      obtain ⟨k, hk⟩ := nonempty ha
      obtain ⟨x, hx, _⟩ := key_of_kv hk
      have hk2 := hk; rw [hv k] at hk2
      obtain ⟨y, hy, _⟩ := key_of_kv hk2
      have hpq : p = q := by
        rcases prefix_cmp p q x y (hx.symm.trans hy) with ⟨z, hz⟩ | ⟨z, hz⟩
        · have := kv_path_le ha hv z hz; subst this; simpa using hz.symm
        · have := kv_path_le hb (fun k => (hv k).symm) z hz; subst this; simpa using hz
      subst hpq
      have hcd : c = d := ih d ha.2.2 hb.2.2 (fun k => by
        have := hv (p ++ k); rwa [lookup_kv_append, lookup_kv_append] at this)
      rw [hcd]
    | branch l r =>
      exfalso
      cases p with
      | nil => exact ha.1 rfl
      | cons b p' =>
        obtain ⟨k, hk⟩ := branch_sides hb (!b)
        rw [← hv] at hk
        obtain ⟨k', hk', _⟩ := key_of_kv hk
        simp at hk'
  | branch l r ihl ihr =>
    intro b ha hb hv
    cases b with
    | leaf w => have := hv []; simp [lookup] at this
    | kv q d =>
      exfalso
      cases q with
      | nil => exact hb.1 rfl
      | cons b q' =>
        obtain ⟨k, hk⟩ := branch_sides ha (!b)
        rw [hv] at hk
        obtain ⟨k', hk', _⟩ := key_of_kv hk
        simp at hk'
    | branch l' r' =>
      have hl : l = l' := ihl l' ha.1 hb.1 (fun k => by have := hv (false :: k); simpa [lookup] using this)
      have hr : r = r' := ihr r' ha.2 hb.2 (fun k => by have := hv (true :: k); simpa [lookup] using this)
      rw [hl, hr]
end BNode
#print axioms BNode.unique
