"""Independent reading of the Ethereum Yellow Paper, Appendix D (Modified Merkle Patricia
Tree), sharing no code with /repo/trie.  Own RLP encoder, own hex-prefix function, keccak
from the eth_hash library (a dependency, not repository code).

Used as the *oracle* of the bounded tier and of counterexample replay:
  * root(J)            -- TRIE(J) = KEC(RLP(c(J,0)))
  * structure(J)       -- the canonical node tree (tuples), for traverse / iterator oracles
  * hashed_nodes(J)    -- {hash: rlp} of every node that must be in a database holding J
  * ref_multiset(J)    -- multiplicity of every hashed node in the tree unfolding
"""
from eth_hash.auto import keccak

BLANK_ROOT = keccak(b"\x80")


# ---------------------------------------------------------------- RLP (Appendix B)
def _be(n):
    out = b""
    while n:
        out = bytes([n & 0xFF]) + out
        n >>= 8
    return out


def rlp(x):
    if isinstance(x, (bytes, bytearray)):
        x = bytes(x)
        if len(x) == 1 and x[0] < 0x80:
            return x
        if len(x) < 56:
            return bytes([0x80 + len(x)]) + x
        ln = _be(len(x))
        return bytes([0xB7 + len(ln)]) + ln + x
    body = b"".join(rlp(i) for i in x)
    if len(body) < 56:
        return bytes([0xC0 + len(body)]) + body
    ln = _be(len(body))
    return bytes([0xF7 + len(ln)]) + ln + body


# ---------------------------------------------------------------- HP (Appendix C)
def hp(nibbles, t):
    nibbles = list(nibbles)
    f = 2 if t else 0
    if len(nibbles) % 2 == 0:
        head = [16 * f]
        rest = nibbles
    else:
        head = [16 * (f + 1) + nibbles[0]]
        rest = nibbles[1:]
    return bytes(head + [16 * rest[i] + rest[i + 1] for i in range(0, len(rest), 2)])


def nibbles_of(key):
    out = []
    for b in key:
        out.append(b >> 4)
        out.append(b & 15)
    return tuple(out)


# ---------------------------------------------------------------- c(J, i), n(J, i)
# Structural nodes: ("blank",), ("leaf", path, value), ("ext", path, child),
# ("branch", (16 children), value)
def _c(J, i):
    """J: list of (nibble-key, value) with distinct keys sharing their first i nibbles."""
    if not J:
        return ("blank",)
    if len(J) == 1:
        k, v = J[0]
        return ("leaf", tuple(k[i:]), v)
    # longest common prefix beyond i
    k0 = J[0][0]
    j = min(len(k) for k, _ in J)
    for k, _ in J:
        m = i
        while m < j and k[m] == k0[m]:
            m += 1
        j = m
    if j > i:
        return ("ext", tuple(k0[i:j]), _c(J, j))
    children = tuple(
        _c([(k, v) for k, v in J if len(k) > i and k[i] == n], i + 1) for n in range(16)
    )
    vals = [v for k, v in J if len(k) == i]
    return ("branch", children, vals[0] if vals else b"")


def raw(node):
    """Raw RLP-able form with the reference rule n(J,i): embed if ||rlp|| < 32."""
    t = node[0]
    if t == "blank":
        return b""
    if t == "leaf":
        return [hp(node[1], True), node[2]]
    if t == "ext":
        return [hp(node[1], False), ref(node[2])]
    return [ref(c) for c in node[1]] + [node[2]]


def ref(node):
    if node[0] == "blank":
        return b""
    r = raw(node)
    e = rlp(r)
    return r if len(e) < 32 else keccak(e)


def structure(mapping):
    """mapping: dict bytes-key -> non-empty bytes value."""
    J = sorted((nibbles_of(k), v) for k, v in mapping.items())
    return _c(J, 0)


def structure_nib(mapping):
    """mapping: dict nibble-tuple -> non-empty bytes value."""
    return _c(sorted(mapping.items()), 0)


def root_of_structure(node):
    return keccak(rlp(raw(node)))


def root(mapping):
    return root_of_structure(structure(mapping))


def _walk_hashed(node, is_root, out, mult):
    if node[0] == "blank":
        return
    e = rlp(raw(node))
    if is_root or len(e) >= 32:
        h = keccak(e)
        out[h] = e
        mult[h] = mult.get(h, 0) + 1
    if node[0] == "ext":
        _walk_hashed(node[2], False, out, mult)
    elif node[0] == "branch":
        for c in node[1]:
            _walk_hashed(c, False, out, mult)


def hashed_nodes(mapping):
    out, mult = {}, {}
    _walk_hashed(structure(mapping), True, out, mult)
    return out


def ref_multiset(mapping):
    out, mult = {}, {}
    _walk_hashed(structure(mapping), True, out, mult)
    return mult


# ---------------------------------------------------------------- lookups on a structure
def lookup(node, k):
    t = node[0]
    if t == "blank":
        return b""
    if t == "leaf":
        return node[2] if tuple(k) == node[1] else b""
    if t == "ext":
        p = node[1]
        return lookup(node[2], k[len(p):]) if tuple(k[: len(p)]) == p else b""
    if len(k) == 0:
        return node[2]
    return lookup(node[1][k[0]], k[1:])


def node_at(node, path):
    """What a traversal along `path` must report, derived from the canonical structure.

    Returns one of
      ("node", structural_node)                       a node sits exactly at `path`
      ("blank",)                                      no stored key starts with `path`
      ("partial", reached_len, structural_node, tail) `path` ends inside a leaf/extension
    """
    path = tuple(path)
    pos = 0
    while True:
        rem = path[pos:]
        t = node[0]
        if not rem:
            return ("node", node) if t != "blank" else ("blank",)
        if t == "blank":
            return ("blank",)
        if t == "leaf":
            if node[1][: len(rem)] == rem:
                return ("partial", pos, node, rem)
            return ("blank",)
        if t == "ext":
            p = node[1]
            if rem[: len(p)] == p:
                node = node[2]
                pos += len(p)
                continue
            if p[: len(rem)] == rem:
                return ("partial", pos, node, rem)
            return ("blank",)
        node = node[1][rem[0]]
        pos += 1


def annotate(node):
    """(node_type, sub_segments, value, suffix) as HexaryTrieNode must report them."""
    t = node[0]
    if t == "blank":
        return (0, (), b"", ())
    if t == "leaf":
        return (1, (), node[2], node[1])
    if t == "ext":
        return (2, (node[1],), b"", ())
    return (3, tuple((i,) for i in range(16) if node[1][i][0] != "blank"), node[2], ())


def all_nodes_preorder(node, prefix=()):
    if node[0] == "blank":
        return
    yield prefix, node
    if node[0] == "ext":
        yield from all_nodes_preorder(node[2], prefix + node[1])
    elif node[0] == "branch":
        for i, c in enumerate(node[1]):
            yield from all_nodes_preorder(c, prefix + (i,))


def path_nodes(node, k):
    """Nodes visited by a lookup of k (root first) -- what get_proof must return."""
    out = []
    k = tuple(k)
    while True:
        t = node[0]
        if t == "blank":
            return out
        out.append(node)
        if t == "leaf":
            return out
        if t == "ext":
            p = node[1]
            if k[: len(p)] == p:
                node, k = node[2], k[len(p):]
                continue
            return out
        if not k:
            return out
        node, k = node[1][k[0]], k[1:]
