"""Independent model of the binary trie (trie/binary.py): map model with the refusal table
of DESIGN.md section 7 C12 and the canonical kv/branch/leaf encoding of a key set, written
from the format comments, sharing no code with /repo/trie.
"""
from eth_hash.auto import keccak

BLANK = keccak(b"")


def bits_of(key):
    out = []
    for b in key:
        for e in range(7, -1, -1):
            out.append((b >> e) & 1)
    return tuple(out)


def pack_keypath(bits):
    """Key-path packing of a kv node (format: 2 flag bits + 2 bits (len mod 4) + padding)."""
    n = len(bits)
    pad = (4 - n) % 4
    body = [0] * pad + list(bits)
    two = [(n % 4) >> 1, (n % 4) & 1]
    if len(body) % 8 == 4:
        allbits = [0, 0] + two + body
    else:
        allbits = [1, 0, 0, 0, 0, 0] + two + body
    assert len(allbits) % 8 == 0
    out = []
    for i in range(0, len(allbits), 8):
        v = 0
        for b in allbits[i:i + 8]:
            v = v * 2 + b
        out.append(v)
    return bytes(out)


# structural nodes: ("leaf", value) ("kv", bits, child) ("branch", l, r) or None for blank
def build(J):
    """J: list of (bit-tuple, value), prefix-free and distinct."""
    if not J:
        return None
    if len(J) == 1 and len(J[0][0]) == 0:
        return ("leaf", J[0][1])
    # common prefix
    k0 = J[0][0]
    j = min(len(k) for k, _ in J)
    for k, _ in J:
        m = 0
        while m < j and k[m] == k0[m]:
            m += 1
        j = m
    if j > 0:
        return ("kv", tuple(k0[:j]), build([(k[j:], v) for k, v in J]))
    left = build([(k[1:], v) for k, v in J if k[0] == 0])
    right = build([(k[1:], v) for k, v in J if k[0] == 1])
    return ("branch", left, right)


def encode(node):
    t = node[0]
    if t == "leaf":
        return b"\x02" + node[1]
    if t == "kv":
        return b"\x00" + pack_keypath(node[1]) + hash_of(node[2])
    return b"\x01" + hash_of(node[1]) + hash_of(node[2])


def hash_of(node):
    if node is None:
        return BLANK
    return keccak(encode(node))


def canonical_root(mapping):
    return hash_of(build(sorted((bits_of(k), v) for k, v in mapping.items())))


def all_nodes(node, out=None):
    if out is None:
        out = {}
    if node is None:
        return out
    e = encode(node)
    out[keccak(e)] = e
    if node[0] == "kv":
        all_nodes(node[2], out)
    elif node[0] == "branch":
        all_nodes(node[1], out)
        all_nodes(node[2], out)
    return out


def is_proper_prefix(a, b):
    return len(a) < len(b) and b[: len(a)] == a


def conflict(mapping, key):
    """key is a proper prefix or a proper extension of a stored key."""
    kb = bits_of(key)
    for k in mapping:
        b = bits_of(k)
        if is_proper_prefix(kb, b) or is_proper_prefix(b, kb):
            return True
    return False
