import sys, time, collections
from vtlib import env
from pyvc import registry as R
from pyvc import interp
import z3
cnt = collections.Counter(); tim = collections.Counter()
orig = interp.Engine._check
def patched(self, *extra):
    t0=time.time(); r = orig(self, *extra); dt=time.time()-t0
    import traceback
    fr = traceback.extract_stack(limit=4)
    key = " <- ".join("%s:%d" % (f.name, f.lineno) for f in reversed(fr[:-1]))
    cnt[key]+=1; tim[key]+=dt
    return r
interp.Engine._check = patched
reg = R.build(); loader = R.make_loader()
q = sys.argv[1]
from pyvc.unit import verify_unit
res = reg.lemmas[q].run(loader, reg) if q in reg.lemmas else verify_unit(loader, reg.contracts[q], reg)
for o in sorted(res.obligations, key=lambda o: -o.seconds)[:14]:
    print("%.2fs %s %s path=%s %s" % (o.seconds, o.status, o.name, o.path, o.detail[:100].replace("\n"," ")))
print("total solver", res.solver_seconds, "paths", res.paths, "demoted", res.demoted, "error", res.error)
for k,v in tim.most_common(12):
    print("%.2fs %d  %s" % (v, cnt[k], k))
print("sum obligation seconds %.2f over %d obligations" % (sum(o.seconds for o in res.obligations), len(res.obligations)))
import collections as C
print(C.Counter((o.status, o.backend) for o in res.obligations))
