import sys, time
from vtlib import env
from pyvc import registry as R
reg = R.build(); loader = R.make_loader()
q = sys.argv[1]
res = reg.lemmas[q].run(loader, reg) if q in reg.lemmas else __import__('pyvc.unit').unit.verify_unit(loader, reg.contracts[q], reg)
for o in sorted(res.obligations, key=lambda o: -o.seconds)[:12]:
    print("%.2fs %s %s path=%s %s" % (o.seconds, o.status, o.name, o.path, o.detail[:100].replace("\n"," ")))
print("total solver", res.solver_seconds, "paths", res.paths)
