#!/usr/bin/env python3
"""Summarise seeded/<id>/validation.log files: which tier reported what for each seeded change.
  tools/seed_table.py             plain listing
  tools/seed_table.py --design    rewrite the table between the SEED-TABLE markers of DESIGN.md"""
import glob, json, os, re, sys

ROOT = os.path.join(os.path.dirname(os.path.abspath(__file__)), "..")
CHANGE = {
    "C01": "extra `_prune_node` of a deleted leaf (double prune when two leaves are identical)",
    "C01-r2": "`exists` answers from the node type instead of going through `get`",
    "C02": "an extension is not merged with the extension left below it after a delete",
    "C02-r2": "embed a child when `len(rlp) <= 32` (off by one)",
    "C03": "`_get_proof` drops a node of the path",
    "C03-r2": "get_from_proof rejects a proof that does not contain the root (the empty trie's proof is empty)",
    "C04": "ScratchDB.batch_commit rolls a failed commit back by deleting / restoring entries of the wrapped store",
    "C04-r2": "a non-pruning trie acquires `_ref_count` after its first squash_changes; later batches apply deletes",
    "C05": "squash_changes adopts the batch's counts and root inside the block that also runs when the commit failed",
    "C06": "ScratchDB.__delitem__ bookkeeping (trie/utils/db.py)",
    "C06-r2": "`_complete_pruning` lowers each count by one instead of by the number of prunes",
    "C07": "`_delete_kv_node` reads the extension child before checking that the key runs through the extension",
    "C07-r2": "`_set_kv_node` reads the extension child before knowing that the key runs through the extension",
    "C08": "`root_node` cached per trie object, not invalidated by squash_changes",
    "C08-r2": "swapped operands in the slice that computes `nibbles_traversed` in `traverse`",
    "C09": "simulated node of TraversedPartialPath",
    "C10": "NodeIterator compares only the first nibble of a segment with the key",
    "C11": "HexaryTrieFog.explore() validation of nested sub-segments",
    "C12": "BinaryTrie `_set_kv_node`, diverging-keypath branch",
    "C12-r2": "`_set_branch_node` drops the selecting bit when the remaining child is a leaf",
    "C13": "`BinaryTrie._get` treats a hash that is not in the database as the empty subtrie",
    "C13-r2": "`BinaryTrie._get` answers None for a node that is missing from the database",
    "C14": "SparseMerkleTree.delete drops 'stale' nodes from the database",
    "C14-r2": "from_db does not forward `default`",
    "C15": "SparseMerkleProof.update computes the branch point with bit_length and indexes from the end",
    "C15-r2": "SparseMerkleProof.root_hash cached and never invalidated",
    "C16": "parse_node splits a kv node at a computed offset that can go negative",
    "C16-r2": "encode_branch_node checks only the total length of the two children",
    "C17": "ScratchDB `__delitem__` (buffered delete)",
    "C17-r2": "ScratchDB `__getitem__` memoises read-through values over delete tombstones",
    "C18": "`set` no longer validates the value up front",
    "C03-r3": "`_get_proof` leaves out a non-root node whose rlp is <= 32 bytes (the storage rule embeds only < 32: a 32-byte node is referenced by hash)",
    "C09-r3": "simulated node trimmed with `path[-num_remaining:]` (keeps the whole path when nothing remains)",
    "C11-r3": "explore() checks nesting only against the shortest sub-segment length (misses nesting between two longer ones)",
    "C18-r2": "`if not ref_count` accepts an empty reference count on a non-pruning trie",
}


def rows():
    out = []
    for d in sorted(glob.glob(os.path.join(ROOT, "seeded", "C*"))):
        log = os.path.join(d, "validation.log")
        if not os.path.exists(log):
            continue
        txt = open(log).read()
        sid = os.path.basename(d)
        ded = []
        lines = txt.splitlines()
        for i, l in enumerate(lines):
            if l.startswith("VIOLATION"):
                nxt = lines[i + 1] if i + 1 < len(lines) else ""
                m = re.search(r"obligation (\S+) of (\S+)", nxt)
                if m:
                    kind = "refuted" if "is refuted" in nxt else ("no longer discharged" if "no longer discharged" in nxt else "?")
                    ded.append("`%s` %s" % (m.group(1), kind))
        m = re.search(r"bounded: (\d+) evaluations, \d+ distinct non-trivial, (\d+) violations", txt)
        bviol = int(m.group(2)) if m else None
        m2 = re.search(r"CHECK \S+ exit=(\d+)", txt)
        suite = "215 passed" in txt
        demo = re.search(r"demo_clean_exit=(\d+) demo_changed_exit=(\d+)", txt)
        out.append(dict(id=sid, exit=m2.group(1) if m2 else "?", ded=sorted(set(ded)), bounded=bviol, suite=suite,
                        demo=(demo.group(1), demo.group(2)) if demo else None, err="CHECKER-ERROR" in txt))
    return out


def main():
    rs = rows()
    if "--design" not in sys.argv:
        for r in rs:
            print("%-8s exit=%s  deductive: %s | bounded violations: %s%s" % (
                r["id"], r["exit"], "; ".join(r["ded"]) or "--", r["bounded"], "  [CHECKER-ERROR]" if r["err"] else ""))
        return
    md = ["| seed | change | quick check exit | deductive tier (baseline-proved obligations reported) | bounded tier |",
          "|---|---|---|---|---|"]
    for r in rs:
        md.append("| %s | %s | %s | %s | %s |" % (
            r["id"], CHANGE.get(r["id"], ""), r["exit"],
            "; ".join(r["ded"]) or "-- (no verdict: function not under contract, or unit demoted on the changed code)",
            ("%d violations" % r["bounded"]) if r["bounded"] else "**none**"))
    p = os.path.join(ROOT, "DESIGN.md")
    s = open(p).read()
    a, b = s.index("<!-- SEED-TABLE-BEGIN -->"), s.index("<!-- SEED-TABLE-END -->")
    s = s[:a] + "<!-- SEED-TABLE-BEGIN -->\n" + "\n".join(md) + "\n" + s[b:]
    open(p, "w").write(s)
    print("DESIGN.md section 12 rewritten from %d validation logs" % len(rs))


if __name__ == "__main__":
    main()
