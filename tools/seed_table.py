#!/usr/bin/env python3
"""Summarise seeded/<id>/validation.log files: which tier reported what for each seeded change."""
import glob, os, re
rows = []
for d in sorted(glob.glob(os.path.join(os.path.dirname(__file__), "..", "seeded", "C*"))):
    log = os.path.join(d, "validation.log")
    if not os.path.exists(log):
        continue
    txt = open(log).read()
    sid = os.path.basename(d)
    ded, bnd = [], 0
    lines = txt.splitlines()
    for i, l in enumerate(lines):
        if l.startswith("VIOLATION"):
            nxt = lines[i + 1] if i + 1 < len(lines) else ""
            m = re.search(r"obligation (\S+) of (\S+)", nxt)
            if m:
                kind = "refuted" if "is refuted" in nxt else ("no longer discharged" if "no longer discharged" in nxt else "?")
                ded.append("%s (%s)" % (m.group(1), kind))
            else:
                bnd += 1
    m = re.search(r"bounded: (\d+) evaluations, \d+ distinct non-trivial, (\d+) violations", txt)
    bviol = int(m.group(2)) if m else None
    m2 = re.search(r"CHECK \S+ exit=(\d+)", txt)
    dem = re.findall(r"demoted", txt)
    print("%-8s exit=%s  deductive: %s  | bounded violations: %s%s" % (
        sid, m2.group(1) if m2 else "?", "; ".join(sorted(set(ded))) or "--", bviol,
        "  [CHECKER-ERROR]" if "CHECKER-ERROR" in txt else ""))
