#!/bin/bash
# usage: tools/mutcheck.sh <patch.diff> <prop> [<prop> ...]
# Applies a patch to a scratch copy of /repo (under $TMPDIR), runs the quick checks of the given properties
# against it (VT_REPO), prints their exit codes, removes the copy.  Nothing is written under /repo.
set -u
PATCH="$(readlink -f "$1")"; shift
D="$(mktemp -d /tmp/mut.XXXXXX)"
trap 'rm -rf "$D"' EXIT
cp -r /repo/trie "$D/trie"
mkdir -p "$D/tests"
( cd "$D" && patch -p1 -s < "$PATCH" ) || { echo "patch failed"; exit 2; }
cd "$(dirname "$0")/.."
for p in "$@"; do
  VT_REPO="$D" ./vt check "$p" --tier quick > "$D/$p.log" 2>&1
  echo "$p exit=$? :: $(grep -E '^(VIOLATION|CHECKER-ERROR|deductive:)' "$D/$p.log" | head -4 | tr '\n' '|' | cut -c1-600)"
done
