#!/bin/bash
# usage: tools/sweep_seeds.sh [seed-dir ...]   (default: every directory under seeded/)
# Re-validates seeded changes one after the other and stores what each check reported in seeded/<id>/validation.log.
cd "$(dirname "$0")/.."
DIRS="$@"
[ -z "$DIRS" ] && DIRS=$(ls -d seeded/C* | sort)
for d in $DIRS; do
  id=$(basename "$d"); prop=${id%%-*}
  tools/validate_seed.sh "$d" "$prop" 2>&1 | grep -v conda.cli > "$d/validation.log"
  echo "$id: $(grep -c '^VIOLATION' "$d/validation.log") violation lines; $(grep '^CHECK' "$d/validation.log")"
done
