import sys, time
from vtlib import env
from pyvc import driver
t0=time.time()
res = driver.run_units([sys.argv[1]], "quick")
r=res[0]
agg = driver.aggregate(r["obligations"])
print(r["unit"], "paths", r["paths"], "obl", len(r["obligations"]), "clauses proved", sum(1 for v in agg.values() if v["status"]=="proved"), "/", len(agg), "wall %.1f" % (time.time()-t0), "solver", r["solver_seconds"], "DEMOTED" if r.get("demoted") else "", (r.get("demoted") or "")[:200], (r.get("error") or "")[-400:])
for o in r["obligations"]:
    if o["status"] != "proved":
        print("  ", o["status"], o["name"], o["path"], o["detail"][:120].replace("\n"," "))
import collections
print(collections.Counter(o["backend"] for o in r["obligations"]))
for o in sorted(r["obligations"], key=lambda o:-o["seconds"])[:6]:
    print("   %.1fs %s %s [%s] %s" % (o["seconds"], o["status"], o["name"], o["path"], o["backend"]))
