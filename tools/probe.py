"""debug helper: run one path of a unit, stop at the first obligation that is not proved, and test candidate facts"""
import sys, os, z3
from vtlib import env
from pyvc import registry as R, backends
from pyvc import interp
from pyvc.unit import run_path, find_function, UnitResult
from pyvc.sym import reset_oids

class Stop(Exception):
    pass

def main(unit_suffix, path, candidates_fn=None):
    reg = R.build(); loader = R.make_loader()
    q = [k for k in reg.contracts if k.endswith(unit_suffix)][0]
    c = reg.contracts[q]
    fn = find_function(loader, c.target)
    reset_oids()
    E = interp.Engine(loader, [int(ch) for ch in path], contracts=reg.contracts, loops=dict(reg.loops), unit=c.target,
                      timeout_ms=3000, tables=reg.tables, inline=c.inline)
    base = fn
    from pyvc.modules import Wrapped, PropertyVal
    if isinstance(base, PropertyVal):
        base = base.fget
    while isinstance(base, Wrapped):
        base = base.func
    E.inner_pending = getattr(base, "wraps", None)
    orig = E.prove
    state = {}
    def prove(name, cond, kind="code", detail=""):
        ok = orig(name, cond, kind, detail)
        if not ok and "goal" not in state:
            state["goal"] = (name, cond)
            state["facts"] = list(E.facts)
            raise Stop()
        return ok
    E.prove = prove
    try:
        run_path(E, c, fn, UnitResult(q))
    except Stop:
        pass
    except interp.PathEnd as e:
        print("path ended:", e)
    return E, state

def suffices(state, extra, ms=20000):
    name, cond = state["goal"]
    goal = cond.t if hasattr(cond, "t") else z3.BoolVal(bool(cond))
    txt = backends.to_smt2(state["facts"] + list(extra), goal)
    return backends.run_cvc5_api(txt, ms)

def follows(state, f, ms=20000):
    txt = backends.to_smt2(state["facts"], f)
    return backends.run_cvc5_api(txt, ms)
