#!/bin/bash
# usage: tools/validate_seed.sh <dir with patch.diff and demo.py>  [props...]
# Confirms a seeded change in a scratch copy of /repo: the patch applies, the pinned suite still passes with it,
# the demonstration fails with it and passes without it; then runs the given checks against the changed copy.
set -u
SRC="$(readlink -f "$1")"; shift
D="$(mktemp -d /tmp/seedval.XXXXXX)"
trap 'rm -rf "$D"' EXIT
mkdir -p "$D/clean" "$D/mut"
for t in clean mut; do cp -r /repo/trie /repo/tests /repo/pyproject.toml "$D/$t/" 2>/dev/null; cp /repo/setup.py /repo/pytest.ini /repo/tox.ini "$D/$t/" 2>/dev/null; done
( cd "$D/mut" && patch -p1 -s < "$SRC/patch.diff" ) || { echo "RESULT patch=FAILED"; exit 2; }
cd "$D/mut"
SUITE=$(PYTHONPATH="$D/mut" /venv/bin/python -m pytest -q -p no:cacheprovider --timeout=900 --continue-on-collection-errors --deselect tests/core/test_hexary_trie.py::test_fixtures_exist --ignore=tests/core/test_iter.py --ignore=scripts tests 2>&1 | tail -1)
cd "$D"
PYTHONPATH="$D/clean" timeout 900 /venv/bin/python "$SRC/demo.py" > "$D/demo_clean.log" 2>&1; RC_CLEAN=$?
PYTHONPATH="$D/mut" timeout 900 /venv/bin/python "$SRC/demo.py" > "$D/demo_mut.log" 2>&1; RC_MUT=$?
echo "RESULT suite_with_change='$SUITE' demo_clean_exit=$RC_CLEAN demo_changed_exit=$RC_MUT"
echo "DEMO-CHANGED: $(tail -1 "$D/demo_mut.log" | cut -c1-300)"
cd /verif
for p in "$@"; do
  VT_REPO="$D/mut" ./vt check "$p" --tier quick > "$D/$p.log" 2>&1
  RC=$?
  echo "CHECK $p exit=$RC"
  grep -E '^(deductive:|bounded:)' "$D/$p.log" | cut -c1-300
  grep -E '^VIOLATION' -A1 "$D/$p.log" | grep -v '^--' | head -16 | cut -c1-400
  grep -E 'CHECKER-ERROR' "$D/$p.log" | head -3 | cut -c1-300
done
