"""Where the code under verification lives.  VT_REPO (default /repo) lets the same checks run
against a scratch worktree (used only for testing the machinery against seeded changes)."""
import os
import sys

REPO = os.path.abspath(os.environ.get("VT_REPO", "/repo"))
VERIF = os.path.dirname(os.path.dirname(os.path.abspath(__file__)))

if sys.path[0] != REPO:
    sys.path.insert(0, REPO)
if VERIF not in sys.path:
    sys.path.insert(1, VERIF)


def assert_repo_imported():
    import trie
    got = os.path.dirname(os.path.dirname(os.path.abspath(trie.__file__)))
    if got != REPO:
        raise RuntimeError("trie imported from %s, expected %s" % (got, REPO))
