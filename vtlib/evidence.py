"""Evidence writer: /verif/evidence/<id>.json per /root/.vp/EVIDENCE.schema.json, written by
the check itself on every run from what that run measured."""
import json
import os

from vtlib.env import VERIF

SCHEMA_PATHS = ["/root/.vp/EVIDENCE.schema.json", os.path.join(VERIF, "vtlib", "EVIDENCE.schema.json")]


def _schema():
    for p in SCHEMA_PATHS:
        if os.path.exists(p):
            with open(p) as f:
                return json.load(f)
    return None


def write(pid, tier, seed, wall, result, n_new_violations):
    ded = result.get("deductive") or {}
    bnd = result.get("bounded") or {}
    lean = result.get("lean") or {}
    cov = {
        "explanation": result.get("explanation", ""),
        # deductive tier
        "obligations": ded.get("obligations", 0),
        "discharged": ded.get("discharged", 0),
        "checker_cmd": "./vt check %s --tier %s" % (pid, tier),
        "trusted_base": result.get("trusted_base", []),
        "units_under_contract": ded.get("units", []),
        "obligations_by_backend": ded.get("by_backend", {}),
        "solver_seconds": ded.get("solver_seconds", 0.0),
        "slow_obligations": ded.get("slow", []),
        "undecided_obligations": ded.get("undecided", []),
        "refuted_obligations": ded.get("refuted", []),
        "demoted_units": ded.get("demoted", []),
        "vacuity": ded.get("vacuity", {}),
        "engine_cross_checks": ded.get("cross_checks", {}),
        "obligation_samples": ded.get("samples", []),
        "lean": lean,
        # bounded tier (never counted as proved)
        "evaluations": bnd.get("evaluations", 0),
        "distinct_nontrivial": bnd.get("distinct", 0),
        "rule": bnd.get("rule", ""),
        "samples": (bnd.get("samples") or []) + (ded.get("samples") or [])[:3],
        "exhaustive": bool(bnd.get("exhaustive", False)),
        "bounded_scope": bnd.get("scope", []),
        "bounded_counters": bnd.get("counters", {}),
        "not_decided_clauses": result.get("not_decided", []),
    }
    if not cov["samples"]:
        cov["samples"] = ["(no sample recorded)"]
    ev = {
        "property_id": pid,
        "tier": tier,
        "seed": int(seed),
        "level": result.get("level", "other"),
        "coverage": cov,
        "assumptions": result.get("assumptions", []),
        "wall_s": round(float(wall), 2),
        "violations": int(n_new_violations),
    }
    sch = _schema()
    if sch is not None:
        import jsonschema
        jsonschema.validate(ev, sch)
    from vtlib.env import REPO
    if REPO != "/repo":
        # runs against a scratch worktree (testing the machinery) never touch the committed evidence
        path = os.path.join(VERIF, "tmp", "evidence-scratch", "%s.json" % pid)
    else:
        path = os.path.join(VERIF, "evidence", "%s.json" % pid)
    os.makedirs(os.path.dirname(path), exist_ok=True)
    tmp = path + ".tmp"
    with open(tmp, "w") as f:
        json.dump(ev, f, indent=1, default=repr, sort_keys=False)
        f.write("\n")
    os.replace(tmp, path)
    return path
