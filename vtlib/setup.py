"""./vt setup -- validate the tools the checks need; everything is on disk (no network)."""
import shutil
import subprocess
import sys


def run():
    ok = True
    try:
        import z3
        print("z3-solver", z3.get_version_string())
    except Exception as e:
        print("z3 missing:", e)
        ok = False
    try:
        import cvc5
        print("cvc5 python", cvc5.__version__ if hasattr(cvc5, "__version__") else "ok")
    except Exception as e:
        print("cvc5 python module missing (CLI is used instead):", e)
    for tool in ("lean", "cvc5"):
        p = shutil.which(tool)
        print(tool, "->", p)
        if p is None and tool == "lean":
            ok = False
    try:
        from vtlib import env
        env.assert_repo_imported()
        import rlp, eth_hash, sortedcontainers  # noqa
        print("repo importable from", env.REPO)
    except Exception as e:
        print("repo not importable:", e)
        ok = False
    try:
        from vtlib import libcheck
        n = libcheck.run()
        print("library summaries cross-checked on %d cases" % n)
    except Exception as e:
        print("library summary cross-check failed:", e)
        ok = False
    return 0 if ok else 3
