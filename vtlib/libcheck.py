"""Cross-check of the ASSUMED contracts on dependencies (DESIGN 6.1) against the real libraries
on enumerated inputs.  Run at setup and in the thorough tier.  Failing here is a checker error."""
import itertools


def run():
    import rlp
    from rlp.codec import encode_raw
    from eth_hash.auto import keccak
    from eth_utils import to_int, is_list_like
    from spec import yp
    n = 0
    # rlp round trip / own encoder agreement / length facts
    items = [b"", b"\x00", b"\x7f", b"\x80", b"a" * 31, b"a" * 32, b"a" * 55, b"a" * 56, b"z" * 300]
    nodes = []
    for a, b in itertools.product(items, repeat=2):
        nodes.append([a, b])
    nodes.append([b""] * 17)
    nodes.append([b"\x11" * 32] * 16 + [b""])
    nodes.append([b"\x20", [b"\x31", b"v"]])
    nodes.append([[b"\x31", b"v"]] + [b""] * 15 + [b"x"])
    for nd in nodes:
        e = encode_raw(nd)
        assert e == yp.rlp(nd), "rlp encoder disagreement"
        assert rlp.decode(e) == nd, "rlp round trip"
        assert rlp.decode(e) is not nd
        n += 1
    assert len(encode_raw([b"\x00", b"h" * 32])) >= 33
    assert len(encode_raw(b"h" * 32)) == 33
    assert len(keccak(b"")) == 32 and keccak(b"") != keccak(b"\x80")
    assert to_int(b"") == 0 and to_int(b"\x01\x00") == 256
    for good in ((), [], range(3)):
        assert is_list_like(good)
    for bad in (b"", "", bytearray(b""), set(), {}, None, 3):
        assert not is_list_like(bad)
    from trie.constants import BLANK_HASH, BLANK_NODE_HASH
    assert BLANK_HASH == keccak(b"") and BLANK_NODE_HASH == keccak(encode_raw(b"")) == yp.BLANK_ROOT
    # sortedcontainers.SortedSet: bisect = bisect_right under tuple order
    from sortedcontainers import SortedSet
    s = SortedSet([(1,), (1, 2), (2,)])
    assert s.bisect((1, 2)) == 2 and s.bisect((0,)) == 0 and s.bisect((1, 1)) == 1 and list(s)[0] == (1,)
    c = s.copy()
    c.remove((1,))
    assert (1,) in s and (1,) not in c
    n += 8
    return n
