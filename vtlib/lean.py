"""Re-check the Lean 4 lemma files a property uses (spec-level lemmas, DESIGN 4.6)."""
import os
import re
import subprocess
import time
from concurrent.futures import ThreadPoolExecutor

from vtlib.env import VERIF

LEAN_DIR = os.path.join(VERIF, "spec", "lean")
STD_AXIOMS = {"propext", "Classical.choice", "Quot.sound"}


def _one(fname, tier):
    path = os.path.join(LEAN_DIR, fname)
    t0 = time.time()
    try:
        p = subprocess.run(["lean", path], capture_output=True, text=True, timeout=600, cwd=LEAN_DIR)
    except Exception as e:
        return fname, None, "lean could not run on %s: %s" % (fname, e)
    out = p.stdout + p.stderr
    src = open(path).read()
    bad = None
    if p.returncode != 0 or re.search(r"\berror\b", out) or "sorry" in out or re.search(r"\bsorry\b|\badmit\b", src):
        bad = "lean rejected %s (exit %d): %s" % (fname, p.returncode, out[-400:])
    if re.search(r"^\s*axiom\s", src, re.M):
        bad = "%s declares an axiom" % fname
    theorems = []
    for m in re.finditer(r"'([^']+)' depends on axioms: \[([^\]]*)\]", out):
        ax = {a.strip() for a in m.group(2).split(",") if a.strip()}
        theorems.append(m.group(1))
        if not ax <= STD_AXIOMS:
            bad = "%s: %s uses non-standard axioms %s" % (fname, m.group(1), sorted(ax - STD_AXIOMS))
    for m in re.finditer(r"'([^']+)' does not depend on any axioms", out):
        theorems.append(m.group(1))
    res = {"theorems": theorems, "seconds": round(time.time() - t0, 2), "lines": src.count("\n"),
           "checker": "lean 4 (core, no imports); axioms allowed: propext, Classical.choice, Quot.sound"}
    if not theorems:
        bad = bad or "%s: no theorem reported by #print axioms" % fname
    return fname, res, bad


def check(files, tier):
    results, errors = {}, []
    with ThreadPoolExecutor(max_workers=4) as ex:
        for fname, res, bad in ex.map(lambda f: _one(f, tier), files):
            if res is not None:
                results[fname] = res
            if bad:
                errors.append("LEAN: " + bad)
    return results, errors
