"""Known findings: /verif/known_findings.json (committed; never written at run time).

Entry kinds:
  {"status": "fixed", "property": id, "commit": sha, "what": text}    -- suppresses nothing
  {"status": "open",  "property": id, "what": text, "match": {...}}   -- a genuine defect recorded,
        identified by the specific failing input / call site; only a violation matching `match`
        is reported as KNOWN-FINDING, any other violation of the same property is still reported.
"""
import json
import os

from vtlib.env import VERIF

PATH = os.path.join(VERIF, "known_findings.json")


def load():
    if not os.path.exists(PATH):
        return []
    with open(PATH) as f:
        return json.load(f).get("findings", [])


def match(known, pid, violation):
    for k in known:
        if k.get("status") != "open" or k.get("property") != pid:
            continue
        m = k.get("match") or {}
        if not m:
            continue
        ok = True
        for key, want in m.items():
            got = violation.get(key)
            if got is None and isinstance(violation.get("case"), dict):
                got = violation["case"].get(key)
            if isinstance(want, str) and isinstance(got, str):
                if want not in got:
                    ok = False
            elif got != want:
                ok = False
        if ok:
            return k
    return None
