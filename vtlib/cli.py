"""./vt -- command line of the verification machinery.

  vt setup                      validate tools (solvers, lean, schemas), library summaries
  vt check <id> [--tier quick|thorough]
  vt replay <file>
  vt baseline                   regenerate baseline/obligations.json (by hand, on the tree as left)
  vt manifest                   regenerate MANIFEST.json from the registry
  vt selftest                   seeded changes under /verif/seeded against scratch copies

Exit codes of `check`: 0 held on everything explored / 1 violation / 3 checker error.
(An undecided obligation -- unknown, timeout -- never maps to 1; it demotes the unit to its
bounded stand-in for that run and is listed in the evidence.)
"""
import argparse
import json
import os
import sys
import time
import traceback

from vtlib import env  # noqa: F401
from vtlib.env import VERIF, REPO


def cmd_check(args):
    from vtlib import registry, evidence, findings
    pid = args.property
    tier = args.tier or os.environ.get("VERIF_TIER") or "quick"
    if tier not in ("quick", "thorough"):
        tier = "quick"
    try:
        seed = int(os.environ.get("VERIF_SEED", "20260929"))
    except ValueError:
        seed = 20260929
    t0 = time.time()
    try:
        env.assert_repo_imported()
        spec = registry.PROPERTIES[pid]
        result = registry.run_property(pid, spec, tier, seed)
    except Exception:
        traceback.print_exc()
        print("CHECKER-ERROR property=%s (exit 3; not a verdict)" % pid)
        return 3
    wall = time.time() - t0
    known = findings.load()
    new_violations = []
    for v in result["violations"]:
        kf = findings.match(known, pid, v)
        if kf is not None:
            print("KNOWN-FINDING: property=%s %s" % (pid, kf["what"]))
        else:
            new_violations.append(v)
    replay_paths = []
    for i, v in enumerate(new_violations):
        path = os.path.join(VERIF, "replays" if REPO == "/repo" else os.path.join("tmp", "replays-scratch"),
                            "%s-%d.json" % (pid, i))
        os.makedirs(os.path.dirname(path), exist_ok=True)
        with open(path, "w") as f:
            json.dump({"property": pid, "violation": v}, f, indent=1, default=repr)
        replay_paths.append(path)
    evidence.write(pid, tier, seed, wall, result, len(new_violations))
    for s in result.get("summary_lines", []):
        print(s)
    if result.get("checker_errors"):
        for e in result["checker_errors"][:5]:
            print("CHECKER-ERROR: " + str(e).strip().splitlines()[-1])
            print(e)
        if not new_violations:
            return 3
    for v, path in zip(new_violations, replay_paths):
        tail = "" if v.get("has_failing_input", True) else " no-failing-input-found"
        print("VIOLATION property=%s replay=%s%s" % (pid, path, tail))
        print("  " + str(v.get("what"))[:400])
    print("%s %s: %s in %.1fs" % (pid, tier, "VIOLATED" if new_violations else "held", wall))
    return 1 if new_violations else 0


def cmd_replay(args):
    from vtlib import registry
    with open(args.file) as f:
        data = json.load(f)
    v = data["violation"]
    res = registry.replay(data["property"], v)
    if res:
        print("REPLAY: violation reproduced: %s" % res)
        return 1
    print("REPLAY: not reproduced on the current tree")
    return 0


def cmd_setup(args):
    from vtlib import setup
    return setup.run()


def cmd_manifest(args):
    from vtlib import registry
    registry.write_manifest()
    return 0


def cmd_baseline(args):
    from vtlib import registry
    return registry.write_baseline()


def cmd_selftest(args):
    """re-validate the seeded changes under /verif/seeded (all, or the given directories) against the checks:
    tools/sweep_seeds.sh copies /repo to a scratch directory per seed, applies the patch there and runs the property's
    quick check with VT_REPO pointing at the copy; /repo itself is never touched"""
    import subprocess
    from vtlib.env import VERIF
    cmd = [os.path.join(VERIF, "tools", "sweep_seeds.sh")] + [os.path.join("seeded", x) if not x.startswith("seeded") else x
                                                                for x in (args.only or [])]
    return subprocess.call(cmd, cwd=VERIF)


def main(argv=None):
    ap = argparse.ArgumentParser(prog="vt")
    sub = ap.add_subparsers(dest="cmd", required=True)
    c = sub.add_parser("check")
    c.add_argument("property")
    c.add_argument("--tier", default=None)
    c.set_defaults(fn=cmd_check)
    r = sub.add_parser("replay")
    r.add_argument("file")
    r.set_defaults(fn=cmd_replay)
    sub.add_parser("setup").set_defaults(fn=cmd_setup)
    sub.add_parser("manifest").set_defaults(fn=cmd_manifest)
    sub.add_parser("baseline").set_defaults(fn=cmd_baseline)
    s = sub.add_parser("selftest")
    s.add_argument("only", nargs="*")
    s.set_defaults(fn=cmd_selftest)
    args = ap.parse_args(argv)
    return args.fn(args)


if __name__ == "__main__":
    sys.exit(main())
