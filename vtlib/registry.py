"""Registry: what decides each property (deductive units, Lean lemmas, bounded stand-in) and the
orchestration of one check run.  MANIFEST.json is generated from this file (`./vt manifest`)."""
import importlib
import json
import os
import time

from vtlib.env import VERIF, REPO

A_HASH = "A-HASH: keccak256 is collision-free on the values that occur (ideal-hash model)"
A_RLP = ("rlp.codec.encode_raw / rlp.decode: decode(encode_raw(n)) = n, encode_raw injective, a 32-byte item "
         "contributes 33 bytes (assumed contract on the dependency; cross-checked at setup on enumerated nodes)")
A_PY = ("Python subset semantics of the VC generator (DESIGN 4.2): ints are mathematical, single thread, no "
        "asynchronous exceptions, recursion depth sufficient; termination is not proved")
A_BOUNDED = "bounded stand-in results are observations on the stated scope, not proof"

# property id -> description of its check.  'units' are pyvc unit-group names (pyvc/units.py),
# 'lean' are files under spec/lean with the theorems used, 'bounded' is module:function.
PROPERTIES = {
    "C01": dict(bounded="bounded.hexary_props:C01", units=["hexary_read", "hexary_api", "nibbles"], lean=[],
                design="7 C01"),
    "C02": dict(bounded="bounded.hexary_props:C02", units=["hexary_mkref", "nibbles_hp"], lean=["H.lean"],
                design="7 C02"),
    "C03": dict(bounded="bounded.proofs:C03", units=["hexary_proof", "hexary_read"], lean=[], design="7 C03"),
    "C04": dict(bounded="bounded.hexary_props:C04", units=["hexary_frame", "scratchdb"], lean=[], design="7 C04"),
    "C05": dict(bounded="bounded.hexary_props:C05", units=["hexary_squash", "scratchdb"], lean=[], design="7 C05"),
    "C06": dict(bounded="bounded.hexary_props:C06", units=["hexary_prune"], lean=[], design="7 C06"),
    "C07": dict(bounded="bounded.missing:C07", units=["hexary_read", "hexary_exc"], lean=[], design="7 C07"),
    "C08": dict(bounded="bounded.traverse:C08", units=["hexary_read", "hexary_traverse", "annotate"],
                lean=["H.lean"], design="7 C08"),
    "C09": dict(bounded="bounded.walk:C09", units=["fog", "frontier_cache"], lean=["F.lean"], design="7 C09"),
    "C10": dict(bounded="bounded.walk:C10", units=["iter"], lean=["F.lean"], design="7 C10"),
    "C11": dict(bounded="bounded.fogb:C11", units=["fog"], lean=["F.lean"], design="7 C11"),
    "C12": dict(bounded="bounded.binary:C12", units=["binary_read", "binary_write"], lean=["B.lean"],
                design="7 C12"),
    "C13": dict(bounded="bounded.binary:C13", units=["branches"], lean=[], design="7 C13"),
    "C14": dict(bounded="bounded.smtb:C14", units=["smt_tree"], lean=["S.lean"], design="7 C14"),
    "C15": dict(bounded="bounded.smtb:C15", units=["smt_proof"], lean=["S.lean"], design="7 C15"),
    "C16": dict(bounded="bounded.encodings:C16", units=["nibbles", "nibbles_hp", "binaries", "bin_nodes",
                                                         "hex_nodes"], lean=[], design="7 C16"),
    "C17": dict(bounded="bounded.scratch:C17", units=["scratchdb"], lean=[], design="7 C17"),
    "C18": dict(bounded="bounded.invalid:C18", units=["validation", "entrypoints"], lean=[], design="7 C18"),
}


def _bounded(pid, spec, tier, seed):
    modname, arg = spec["bounded"].split(":")
    mod = importlib.import_module(modname)
    total, scope = mod.run(arg, tier, seed)
    viol = []
    for v in total.violations:
        viol.append({"what": v["what"], "case": v["case"], "source": "bounded", "has_failing_input": True})
    return {
        "evaluations": total.evaluations,
        "distinct": len(total.signatures),
        "rule": getattr(mod, "RULE", "cases are enumerated / drawn as described in bounded_scope; a case is "
                        "counted as distinct-nontrivial by its (shape signature of the resulting structure, "
                        "operation kinds, configuration) triple, measured as a set size on this run"),
        "samples": total.samples,
        "exhaustive": bool(getattr(mod, "EXHAUSTIVE", True)),
        "scope": scope,
        "counters": total.counters,
    }, viol, total.errors


def _deductive(pid, spec, tier, seed):
    try:
        from pyvc import driver
    except ImportError:
        return None, [], []
    return driver.run_groups(pid, spec.get("units", []), tier, seed)


def _lean(spec, tier):
    from vtlib import lean
    if not spec.get("lean"):
        return {}, []
    return lean.check(spec["lean"], tier)


def run_property(pid, spec, tier, seed):
    errors = []
    violations = []
    ded, dviol, derr = _deductive(pid, spec, tier, seed)
    violations += dviol
    errors += derr
    lean_res, lerr = _lean(spec, tier)
    errors += lerr
    bnd, bviol, berr = _bounded(pid, spec, tier, seed)
    violations += bviol
    errors += berr
    from pyvc import texts
    info = texts.PROPERTY_TEXT.get(pid, {})
    n_ob = (ded or {}).get("obligations", 0)
    n_dis = (ded or {}).get("discharged", 0)
    fully = bool(ded) and n_ob > 0 and n_ob == n_dis and not ded.get("demoted") and info.get("proof_complete", False)
    level = "proof" if fully else "other"
    summary = []
    if ded:
        summary.append("deductive: %d/%d obligations discharged over %d units (%.1fs solver time; by back end %s)%s"
                       % (n_dis, n_ob, len(ded.get("units", [])), ded.get("solver_seconds", 0.0),
                          ded.get("by_backend", {}),
                          ("; undecided: %d" % len(ded["undecided"])) if ded.get("undecided") else ""))
    if lean_res:
        summary.append("lean: %s" % ", ".join("%s ok (%d theorems)" % (k, len(v.get("theorems", [])))
                                                for k, v in lean_res.items()))
    summary.append("bounded: %d evaluations, %d distinct non-trivial, %d violations"
                   % (bnd["evaluations"], bnd["distinct"], len(bviol)))
    explanation = info.get("explanation", "") + (
        " THIS RUN: %d obligations generated from %s, %d discharged; bounded stand-in: %d evaluations."
        % (n_ob, REPO, n_dis, bnd["evaluations"]))
    return {
        "level": level,
        "deductive": ded,
        "lean": lean_res,
        "bounded": bnd,
        "violations": violations,
        "checker_errors": errors,
        "assumptions": info.get("assumptions", []) + [A_BOUNDED],
        "trusted_base": info.get("trusted_base", []),
        "not_decided": info.get("not_decided", []),
        "explanation": explanation,
        "summary_lines": summary,
    }


def replay(pid, v):
    case = v.get("case") or {}
    if v.get("source") == "bounded" or "driver" in case:
        mod = importlib.import_module("bounded." + case["driver"])
        return mod.replay(case)
    from pyvc import driver
    return driver.replay(pid, v)


def write_manifest():
    from pyvc import texts
    checks = []
    for pid in sorted(PROPERTIES):
        info = texts.PROPERTY_TEXT.get(pid, {})
        checks.append({
            "property_id": pid,
            "quick_cmd": "./vt check %s --tier quick" % pid,
            "thorough_cmd": "./vt check %s --tier thorough" % pid,
            "evidence_file": "/verif/evidence/%s.json" % pid,
            "replay_cmd_template": "./vt replay {path}",
            "engine": "pyvc",
            "level_claimed": {
                "category": info.get("level", "other"),
                "text": info.get("level_text", ""),
                "design_ref": "DESIGN.md section " + PROPERTIES[pid]["design"],
            },
            "level_note": info.get("level_note", ""),
            "technique": info.get("technique", ""),
        })
    man = {
        "version": 1,
        "setup_cmd": "./vt setup",
        "hooks": {
            "guard": "PYTRIE_VERIF",
            "enable": "no source hooks: contracts are sidecar files under /verif/contracts keyed by module:qualname, "
                      "monitors are installed by the checking process; PYTRIE_VERIF is reserved and unused",
            "baseline_off_cmd": "cd /repo && /venv/bin/python -m pytest -ra -q -p no:cacheprovider --timeout=900 "
                                "--continue-on-collection-errors",
            "source_commits": [],
            "add_only": True,
        },
        "engines": [
            {"name": "pyvc", "path": "/verif/pyvc",
             "serves_properties": sorted(PROPERTIES),
             "kind_free_text": "verification-condition generator over the real AST of /repo/trie (re-read on every "
                               "run), sidecar contracts, z3 + cvc5 back ends; Lean 4 for spec-level lemmas; "
                               "bounded run-time stand-in on the real functions (labelled bounded)"},
        ],
        "checks": checks,
        "notes": texts.MANIFEST_NOTES,
        "not_applicable": texts.NOT_APPLICABLE,
    }
    import jsonschema
    with open(os.path.join(VERIF, "vtlib", "MANIFEST.schema.json")) as f:
        jsonschema.validate(man, json.load(f))
    with open(os.path.join(VERIF, "MANIFEST.json"), "w") as f:
        json.dump(man, f, indent=1)
        f.write("\n")
    print("MANIFEST.json written: %d checks" % len(checks))


def write_baseline():
    from pyvc import driver
    return driver.write_baseline(PROPERTIES)
