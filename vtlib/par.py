"""Process-pool helper for the bounded tier: split work into chunks, merge partial results."""
import multiprocessing as mp
import os
import time
import traceback


class Partial:
    """Mergeable partial result of a bounded driver."""

    def __init__(self):
        self.evaluations = 0
        self.signatures = set()
        self.samples = []
        self.violations = []
        self.counters = {}
        self.errors = []

    def sig(self, *parts):
        self.signatures.add(hash(parts) & 0xFFFFFFFFFFFF)

    def count(self, name, n=1):
        self.counters[name] = self.counters.get(name, 0) + n

    def violation(self, what, case):
        if len(self.violations) < 20:
            self.violations.append({"what": what, "case": case})

    def sample(self, s):
        if len(self.samples) < 3:
            self.samples.append(s)

    def merge(self, other):
        self.evaluations += other.evaluations
        self.signatures |= other.signatures
        for s in other.samples:
            if len(self.samples) < 6:
                self.samples.append(s)
        for v in other.violations:
            if len(self.violations) < 50:
                self.violations.append(v)
        for k, v in other.counters.items():
            self.counters[k] = self.counters.get(k, 0) + v
        self.errors.extend(other.errors[:5])
        return self


def _call(args):
    fn, chunk, extra = args
    try:
        return fn(chunk, *extra)
    except Exception:  # checker error, never a violation
        p = Partial()
        p.errors.append(traceback.format_exc())
        return p


def nproc():
    try:
        return max(1, min(16, len(os.sched_getaffinity(0))))
    except Exception:
        return 8


def run_chunks(fn, items, extra=(), chunks_per_proc=4, deadline=None):
    """fn(chunk, *extra) -> Partial.  fn must be a module-level function."""
    items = list(items)
    n = nproc()
    total = Partial()
    if not items:
        return total
    nchunks = max(1, min(len(items), n * chunks_per_proc))
    size = (len(items) + nchunks - 1) // nchunks
    chunks = [items[i:i + size] for i in range(0, len(items), size)]
    if n == 1 or len(chunks) == 1:
        for c in chunks:
            total.merge(_call((fn, c, extra)))
        return total
    ctx = mp.get_context("fork")
    with ctx.Pool(n) as pool:
        for part in pool.imap_unordered(_call, [(fn, c, extra) for c in chunks]):
            total.merge(part)
            if deadline is not None and time.time() > deadline:
                pool.terminate()
                total.count("stopped_at_deadline")
                break
    return total
