"""developer helper: run the units of some groups and print every obligation"""
import os
import sys
import time

from vtlib import env  # noqa
from pyvc import registry as R
from pyvc.unit import verify_unit
from pyvc.modules import Loader


def main(argv):
    import faulthandler
    import os
    if os.environ.get("PYVC_DUMP"):
        faulthandler.dump_traceback_later(int(os.environ["PYVC_DUMP"]), repeat=True)
    groups = argv or None
    reg = R.build()
    loader = R.make_loader()
    for g, quals in reg.groups.items():
        if groups and g not in groups and not any(q.endswith(x) for x in groups for q in quals):
            continue
        for q in quals:
            if groups and g not in groups and not any(q.endswith(x) for x in groups):
                continue
            if q in reg.contracts and not reg.contracts[q].verify:
                print("-- %s: callee-only contract, justified by %s" % (q, reg.contracts[q].justified_by))
                continue
            t0 = time.time()
            res = reg.lemmas[q].run(loader, reg) if q in reg.lemmas else verify_unit(loader, reg.contracts[q], reg, timeout_ms=int(os.environ.get('PYVC_TIMEOUT_MS', '20000')))
            agg = res.clause_status()
            n_ok = sum(1 for v in agg.values() if v == "proved")
            print("== %s  paths=%d outcomes=%d infeasible=%d backedges=%d  clauses %d/%d  %.1fs (solver %.1fs)%s%s"
                  % (q, res.paths, res.outcomes, res.infeasible, res.backedges, n_ok, len(agg), time.time() - t0,
                     res.solver_seconds, ("  DEMOTED: " + res.demoted) if res.demoted else "",
                     ("  ERROR: " + res.error) if res.error else ""))
            for o in res.obligations:
                if o.status != "proved":
                    print("   %-9s %s [path %s] %s %s" % (o.status, o.name, o.path, o.detail[:200], o.model or ""))
            print("   cases covered:", res.case_cover)


if __name__ == "__main__":
    main(sys.argv[1:])
