"""Uninterpreted spec-level functions shared by the engine and the contracts.

Their meaning is fixed by the facts the engine adds when an application is created (definitional
unfoldings, Ackermann-style injectivity instances) -- see Engine.keccak / Engine.pow2 etc. -- and by the
lemma instances a sidecar names explicitly.  Nothing here is an axiom by itself."""
import z3

from pyvc.sym import IntS, BoolS, SeqI, SeqSeqI, SInt, mk_int, as_int_term, Unsupported

# lexicographic order on sequences of ints (Python tuple / bytes order)
lexlt = z3.Function("lexlt", SeqI, SeqI, BoolS)

# 2**n
pow2 = z3.Function("pow2", IntS, IntS)
# bit e of x
testbit = z3.Function("testbit", IntS, IntS, BoolS)
# bitwise xor on naturals
bxor = z3.Function("bxor", IntS, IntS, IntS)

# ideal hash: 32-byte strings, injective (A-HASH); injectivity is instantiated pairwise by the engine
keccak = z3.Function("keccak", SeqI, SeqI)

# left inverse of the ideal hash: unkeccak(keccak(x)) = x (added by the engine for every keccak term it creates)
unkeccak = z3.Function("unkeccak", SeqI, SeqI)

# big-endian integer of a byte string (eth_utils.to_int)
to_int = z3.Function("be_int", SeqI, IntS)

# rlp of a raw hexary node is handled in the hexary model (contracts/hexmodel.py)


def is_pow2_term(t):
    return z3.is_app(t) and t.decl().eq(pow2)


def bit_and(a, b):
    """x & y is supported when one operand is a power of two (pow2 term or concrete power of two) or when
    the mask is 15 / 255 (low bits): the result is expressed with div/mod."""
    x, y = as_int_term(a), as_int_term(b)
    for u, v, cv in ((x, y, b), (y, x, a)):
        if isinstance(cv, int) and cv >= 0 and (cv + 1) & cv == 0:      # mask 2^k - 1
            return mk_int(u % (cv + 1))
        if isinstance(cv, int) and cv > 0 and cv & (cv - 1) == 0:       # single bit 2^k
            return mk_int(((u / cv) % 2) * cv)
        if is_pow2_term(v):
            # x & 2**e: the bit e of x, through the uninterpreted testbit (no division by a symbolic power)
            return mk_int(z3.If(testbit(u, v.arg(0)), v, z3.IntVal(0)))
        if z3.is_app(v) and v.decl().kind() == z3.Z3_OP_MUL and v.num_args() == 2 and z3.is_int_value(v.arg(0)) \
                and v.arg(0).as_long() == 1 and is_pow2_term(v.arg(1)):
            w = v.arg(1)
            return mk_int(z3.If(testbit(u, w.arg(0)), w, z3.IntVal(0)))
    raise Unsupported("bitwise and of %r and %r" % (a, b))
