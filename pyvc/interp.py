"""pyvc interpreter: one deterministic symbolic run of a function of /repo/trie over its real AST.

A *path* is selected by a decision vector.  Whenever a symbolic condition is neither implied nor refuted
by the path condition the next decision is consumed; when the vector is exhausted the run aborts with
`Fork(n)` and the scheduler re-queues the vector extended by each alternative.  Calls to functions under
contract are replaced by the contract; loops over symbolic data are cut at a user invariant (three
obligations: entry, preservation, use at exit); everything else is executed statement by statement with
CPython's rules for exceptions, `with`, `try/finally`, generators consumed eagerly."""
import ast
import time

import z3

from pyvc import ops, specfn
from pyvc.sym import (SInt, SBool, SSeq, ASeq, SPy, Sentinel, Obj, ListObj, DictObj, ExcObj, PyRaise, V,
                      EngineError, Unsupported, PyVal, EntryS, SeqI, SeqSeqI, IntS, BoolS, as_int_term, as_bool_term,
                      as_seq_term, mk_int, mk_bool, to_pyval, seq_const, concrete_int)
from pyvc.modules import ModuleNS, Ext, FuncVal, ClassVal, Wrapped, PropertyVal


class Fork(Exception):
    def __init__(self, n):
        super().__init__("fork %d" % n)
        self.n = n


class PathEnd(Exception):
    """the path ends without a function outcome (infeasible, or the back edge of a cut loop)"""

    def __init__(self, kind):
        super().__init__(kind)
        self.kind = kind


class _Ret(Exception):
    def __init__(self, value):
        self.value = value


class _Break(Exception):
    pass


class _Continue(Exception):
    pass


class BoundMethod:
    def __init__(self, func, self_val):
        self.func = func
        self.self_val = self_val

    def __repr__(self):
        return "<bound %r of %r>" % (self.func, self.self_val)


class Builtin:
    def __init__(self, name, fn):
        self.name = name
        self.fn = fn

    def __repr__(self):
        return "<builtin %s>" % self.name


class CtxMgr:
    """a called @contextmanager function, not yet entered"""

    def __init__(self, func, args, kwargs):
        self.func = func
        self.args = args
        self.kwargs = kwargs


class GenIter:
    """stateful iterator over a concrete list of values (iter(x), eager generators)"""

    def __init__(self, items):
        self.items = list(items)
        self.pos = 0


class Frame:
    def __init__(self, func, module, locals_, closure=None):
        self.func = func
        self.module = module
        self.locals = locals_
        self.closure = closure
        self.gen_out = None       # list of yielded values (eager generator)
        self.yield_cb = None      # callback run at `yield` (context manager generator)
        self.loop_ord = 0


class Obligation:
    __slots__ = ("name", "status", "seconds", "backend", "model", "path", "detail", "kind")

    def __init__(self, name, status, seconds=0.0, backend="", model=None, path=None, detail="", kind="code"):
        self.name = name
        self.status = status      # proved | refuted | unknown
        self.seconds = seconds
        self.backend = backend
        self.model = model
        self.path = path
        self.detail = detail
        self.kind = kind


class LoopSpec:
    """invariant for one loop of one function.
    inv(E, fr, i) -> list of (name, cond); i is the ghost iteration index (for-loops), None for while-loops.
    fresh: name -> type descriptor for variables assigned in the loop (overrides shape inference)
    havoc: fr -> list of heap objects (DictObj / ListObj) the loop may modify"""

    def __init__(self, inv, fresh=None, havoc=None, kind=None):
        self.inv = inv
        self.fresh = fresh or {}
        self.havoc = havoc
        self.kind = kind


import os as _os
_TRACE = bool(_os.environ.get("PYVC_TRACE"))
_STMT = bool(_os.environ.get("PYVC_STMT"))
QUICK_TIMEOUT_MS = 20000
Z3_FIRST_MS = 1500
SMALL_FACTS_MS = 1200
Z3_SECOND_MS = 7000


def _is_small(t, limit=120):
    """fewer than `limit` nodes in the term (bounded traversal)"""
    n = 0
    stack = [t]
    while stack:
        x = stack.pop()
        n += 1
        if n > limit:
            return False
        if z3.is_quantifier(x):
            stack.append(x.body())
        elif z3.is_app(x):
            stack.extend(x.children())
    return True
CVC5_MS = 10000
_PREFER = {}          # obligation name -> back end that discharged it last time (ordering hint only)
FEAS_TIMEOUT_MS = 250


def code_fingerprint(node):
    """hash of a function's AST without its docstring: tells whether the code a unit executed has changed since the
    baseline was written (comments and layout do not count)"""
    import hashlib
    body = list(getattr(node, "body", [])) if not isinstance(node, ast.Lambda) else None
    if body and isinstance(body[0], ast.Expr) and isinstance(getattr(body[0], "value", None), ast.Constant) \
            and isinstance(body[0].value.value, str):
        import copy
        node = copy.copy(node)
        node.body = body[1:] or [ast.Pass()]
    return hashlib.sha1(ast.dump(node).encode()).hexdigest()[:16]


_MODFP = {}


def module_fingerprint(mod):
    """hash of the module-level statements that are not function / class definitions (constants, imports) plus the
    class-level assignments"""
    import hashlib
    key = getattr(mod, "path", None)
    if key in _MODFP:
        return _MODFP[key]
    parts = []
    tree = getattr(mod, "tree", None)
    for st in (tree.body if tree is not None else []):
        if isinstance(st, (ast.FunctionDef, ast.AsyncFunctionDef)):
            continue
        if isinstance(st, ast.ClassDef):
            parts.append("class %s(%s)" % (st.name, ",".join(ast.dump(b) for b in st.bases)))
            for c in st.body:
                if isinstance(c, (ast.Assign, ast.AnnAssign)):
                    parts.append(ast.dump(c))
            continue
        if isinstance(st, ast.Expr) and isinstance(st.value, ast.Constant) and isinstance(st.value.value, str):
            continue
        parts.append(ast.dump(st))
    fp = hashlib.sha1("\n".join(parts).encode()).hexdigest()[:16]
    _MODFP[key] = fp
    return fp


class Engine:
    def __init__(self, loader, decisions=(), contracts=None, loops=None, unit=None, timeout_ms=QUICK_TIMEOUT_MS,
                 tables=None, inline=None, replay=None):
        self.loader = loader
        self.decisions = list(decisions)
        self.dpos = 0
        self.contracts = contracts or {}
        self.loops = loops or {}
        self.unit = unit
        self.tables = tables or {}
        self.inline = inline or set()
        self.timeout_ms = timeout_ms
        self.solver = z3.Solver()
        self.scope_marks = []       # (number of facts at push time, scoped constraints) per open solver scope
        self._solver_broken = False
        self._saw_unknown = False
        self.solver.set("timeout", FEAS_TIMEOUT_MS)
        self.facts = []
        self.fact_small = []
        self.obligations = []
        self.counter = {}
        self.depth = 0
        self.keccak_terms = []
        self.pow2_terms = []
        self.trace = []
        self.solver_seconds = 0.0
        self.path_id = ""
        self.ghost = {}
        self.notes = []
        self.heap_log = []        # (op, obj, detail) for frame checks
        self.loop_guard = None
        self.inner_pending = None
        self.executed = {}          # qualname -> fingerprint of every function body executed on this path
        self._loop_rng = {}
        # solver answers of the run this one was forked from: a child run repeats its parent's queries up to the
        # fork point (execution is deterministic), so those answers are replayed instead of recomputed
        self.replay = list(replay or [])
        self.qlog = []
        self.witness_fn = None
        self._last_loop_idx = 0

    # ------------------------------------------------------------------------------------------
    # symbols, facts, decisions, obligations
    def fresh_name(self, base):
        n = self.counter.get(base, 0)
        self.counter[base] = n + 1
        return "%s!%d" % (base, n) if n else base

    def fresh_int(self, base="i"):
        return SInt(z3.Int(self.fresh_name(base)))

    def fresh_bool(self, base="b"):
        return SBool(z3.Bool(self.fresh_name(base)))

    def fresh_seq(self, base="s", kind="bytes", elem="int"):
        sort = SeqI if elem == "int" else SeqSeqI
        return SSeq(z3.Const(self.fresh_name(base), sort), kind, elem)

    def fresh_py(self, base="x"):
        return SPy(z3.Const(self.fresh_name(base), PyVal))

    def fresh_dict(self, base="d", kkind="bytes", vkind="bytes", default=None):
        ks = self.sort_of_kind(kkind)
        vs = self.sort_of_kind(vkind)
        n = self.fresh_name(base)
        return DictObj(z3.Const(n + ".has", z3.ArraySort(ks, BoolS)), z3.Const(n + ".val", z3.ArraySort(ks, vs)),
                       kkind, vkind, default, name=n)

    @staticmethod
    def sort_of_kind(kind):
        return {"bytes": SeqI, "tuple": SeqI, "int": IntS, "py": PyVal, "bool": BoolS, "tupleB": SeqSeqI,
                "entry": EntryS}[kind]

    def assume(self, cond):
        if cond is True:
            return
        if cond is False:
            raise PathEnd("infeasible")
        t = as_bool_term(cond)
        self.facts.append(t)
        self.fact_small.append(_is_small(t))
        self.solver.add(t)

    def _check(self, *extra):
        k = len(self.qlog)
        if k < len(self.replay):
            r = self.replay[k]
            if not isinstance(r, str):
                raise EngineError("replay log out of step (non-deterministic execution)")
            self.qlog.append(r)
            return {"sat": z3.sat, "unsat": z3.unsat}.get(r, z3.unknown)
        t0 = time.time()
        try:
            # NOT solver.check(*extra): with z3 5.1 a check under assumptions that is cancelled by the timeout leaves
            # the assumption behind in the incremental solver, and every later check on this path answers `unsat`
            # (reproduced in isolation; see DESIGN section 0, "solver soundness").  The extra constraints go into
            # their own scope instead, and after any `unknown` the incremental solver is rebuilt from the facts.
            self.solver.push()
            try:
                for x in extra:
                    self.solver.add(x)
                r = self.solver.check()
            finally:
                self.solver.pop()
            if r != z3.sat and r != z3.unsat:
                self.rebuild_solver()
        except z3.Z3Exception as e:
            # an internal solver failure (seen: "Overflow encountered when expanding vector" in the sequence solver)
            # decides nothing: the incremental solver is rebuilt from the facts and the query counts as unknown
            if "canceled" in str(e) or "interrupt" in str(e).lower():
                raise
            self.rebuild_solver()
            r = z3.unknown
        dt = time.time() - t0
        self.solver_seconds += dt
        if dt > 0.3 and _TRACE:
            print("SLOW feasibility check %.1fs -> %s: %s" % (dt, r, str(extra)[:300].replace("\n", " ")))
        self.qlog.append("sat" if r == z3.sat else ("unsat" if r == z3.unsat else "unknown"))
        return r

    def rebuild_solver(self):
        s = z3.Solver()
        s.set("timeout", FEAS_TIMEOUT_MS)
        marks = list(self.scope_marks)
        for k, f in enumerate(self.facts):
            while marks and marks[0][0] == k:
                s.push()
                for x in marks.pop(0)[1]:
                    s.add(x)
            s.add(f)
        for (_k, extra) in marks:
            s.push()
            for x in extra:
                s.add(x)
        self.solver = s

    def push(self):
        self.scope_marks.append((len(self.facts), []))
        self.solver.push()

    def pop(self):
        self.scope_marks.pop()
        self.solver.pop()

    def scoped_add(self, t):
        """a constraint that lives only in the current solver scope (not a recorded fact)"""
        self.scope_marks[-1][1].append(t)
        self.solver.add(t)

    def feasible(self, cond):
        """may `cond` hold on this path?  unknown counts as feasible"""
        if isinstance(cond, bool):
            return cond
        return self._check(as_bool_term(cond)) != z3.unsat

    def implied(self, cond):
        if isinstance(cond, bool):
            return cond
        if self.arith_decide(as_bool_term(cond)) is True:
            return True
        return self._check(z3.Not(as_bool_term(cond))) == z3.unsat

    def arith_decide(self, t):
        """True / False when the purely arithmetic facts (lengths abstracted) already settle t, else None.
        Logged like a solver answer so that forked children replay it."""
        k = len(self.qlog)
        if k < len(self.replay):
            rec = self.replay[k]
            if not (isinstance(rec, str) and rec.startswith("arith:")):
                raise EngineError("replay log out of step (arith)")
            self.qlog.append(rec)
            return {"arith:T": True, "arith:F": False}.get(rec)
        from pyvc import backends
        t0 = time.time()
        r = None
        if backends.arith_prepass(self.facts, t, 1000):
            r = True
        elif backends.arith_prepass(self.facts, z3.Not(t), 1000):
            r = False
        self.solver_seconds += time.time() - t0
        self.qlog.append("arith:T" if r is True else ("arith:F" if r is False else "arith:-"))
        return r

    def next_decision(self, n):
        if self.dpos >= len(self.decisions):
            raise Fork(n)
        d = self.decisions[self.dpos]
        self.dpos += 1
        return d

    def decide(self, cond):
        """truth value of a symbolic condition on this path (forks if undetermined)"""
        cond = ops.truth(cond) if not isinstance(cond, (bool, SBool)) else cond
        if isinstance(cond, bool):
            return cond
        t = cond.t
        pre = self.arith_decide(t)
        if pre is not None:
            return pre
        can_t = self._check(t) != z3.unsat
        can_f = self._check(z3.Not(t)) != z3.unsat
        if can_t and can_f:
            d = self.next_decision(2)
            if d == 0:
                self.assume(SBool(t))
                return True
            self.assume(SBool(z3.Not(t)))
            return False
        if can_t:
            return True
        if can_f:
            return False
        raise PathEnd("infeasible")

    def choose(self, guards):
        """n-way choice among guarded alternatives; returns the index taken (its guard is assumed)"""
        feas = [i for i, g in enumerate(guards) if self.feasible(g)]
        if not feas:
            raise PathEnd("infeasible")
        if len(feas) == 1:
            i = feas[0]
        else:
            i = feas[self.next_decision(len(feas))]
        self.assume(guards[i])
        return i

    def nondet(self, n):
        return self.next_decision(n) if n > 1 else 0

    def _safe_check(self, s):
        """s.check(), with an internal solver failure (not a timeout) counted as `unknown`"""
        try:
            r = s.check()
            if r != z3.sat and r != z3.unsat and s is self.solver:
                self._saw_unknown = True
            return r
        except z3.Z3Exception as e:
            if "canceled" in str(e) or "interrupt" in str(e).lower():
                raise
            if s is self.solver:
                self._solver_broken = True
            return z3.unknown

    def prove(self, name, cond, kind="code", detail=""):
        """emit one obligation: `cond` must follow from the facts of this path"""
        if cond is True:
            self.obligations.append(Obligation(name, "proved", 0.0, "eval", path=self.path_id, kind=kind))
            return True
        if cond is False:
            goal = z3.BoolVal(False)
        else:
            goal = as_bool_term(cond)
        k = len(self.qlog)
        if k < len(self.replay):
            rec = self.replay[k]
            if not (isinstance(rec, tuple) and rec[0] == name):
                raise EngineError("replay log out of step at obligation %s" % name)
            self.qlog.append(rec)
            if rec[1] == "proved":
                self.assume(SBool(goal))
            return rec[1] == "proved"          # reported once, by the run that computed it
        t0 = time.time()
        from pyvc import backends
        if backends.arith_prepass(self.facts, goal):
            dt = time.time() - t0
            self.solver_seconds += dt
            self.obligations.append(Obligation(name, "proved", dt, "z3-arith", path=self.path_id,
                                               detail=detail or (str(z3.simplify(goal))[:300]), kind=kind))
            self.qlog.append((name, "proved"))
            self.assume(SBool(goal))
            return True
        # first attempt from the small facts only (sound: a subset of the hypotheses); the large definitional
        # unfoldings slow the solver down even when the goal does not need them
        if len(self.facts) > 12 and not all(self.fact_small[:len(self.facts)]):
            s0 = z3.Solver()
            s0.set("timeout", SMALL_FACTS_MS)
            for f, sm in zip(self.facts, self.fact_small):
                if sm:
                    s0.add(f)
            s0.add(z3.Not(goal))
            if self._safe_check(s0) == z3.unsat:
                dt = time.time() - t0
                self.solver_seconds += dt
                self.obligations.append(Obligation(name, "proved", dt, "z3-small", path=self.path_id,
                                                   detail=detail or (str(z3.simplify(goal))[:300]), kind=kind))
                self.qlog.append((name, "proved"))
                if _TRACE:
                    print("    OBL %-8s %.2fs %s [%s] (small facts)" % ("proved", dt, name, self.path_id), flush=True)
                self.assume(SBool(goal))
                return True
        s = self.solver
        s.push()
        s.add(z3.Not(goal))
        # portfolio: z3 with a short budget first (it answers most obligations -- and all refutations -- at once),
        # then cvc5 on the same assertions, then z3 with the full budget
        quick = min(self.timeout_ms, Z3_FIRST_MS)
        backend = "z3"
        r = z3.unknown
        pref = _PREFER.get(name)
        if pref == "cvc5" and not _os.environ.get("PYVC_NO_SECOND"):
            # this clause was last discharged by cvc5 after z3 gave up: ask cvc5 first
            st2, be2, dt2 = backends.second_opinion(self.facts, goal, min(self.timeout_ms, 5000))
            if st2 == "proved":
                r = z3.unsat
                backend = be2
        elif pref == "z3-ematch" and not _os.environ.get("PYVC_NO_SECOND"):
            if backends.run_z3_ematch(self.facts, goal, min(self.timeout_ms, 6000)) == "unsat":
                r = z3.unsat
                backend = "z3-ematch"
        if r != z3.unsat:
            s.set("timeout", quick)
            r = self._safe_check(s)
            backend = "z3"
            if r != z3.sat and r != z3.unsat and self.timeout_ms > Z3_SECOND_MS:
                s.set("timeout", Z3_SECOND_MS)          # a second, longer z3 attempt before handing over to cvc5
                r = self._safe_check(s)
            if r != z3.sat and r != z3.unsat and not _os.environ.get("PYVC_NO_SECOND"):
                st2, be2, dt2 = backends.second_opinion(self.facts, goal, min(self.timeout_ms, CVC5_MS))
                if st2 == "proved":
                    r = z3.unsat
                    backend = be2
                    _PREFER[name] = be2
        if r != z3.sat and r != z3.unsat and self.timeout_ms > quick:
            s.set("timeout", self.timeout_ms)
            r = self._safe_check(s)
            backend = "z3"
        model = None
        if r == z3.sat:
            try:
                model = s.model()
                if not self.model_ok(s, model):
                    r = z3.unknown          # the candidate model violates an assertion: not a counterexample
                    model = None
            except z3.Z3Exception:
                model = None
        why = ""
        candidate = None
        if r != z3.sat and r != z3.unsat:
            try:
                why = s.reason_unknown()
            except z3.Z3Exception:
                why = "?"
            if "quantifier" in why:
                # the solver could not finish with the quantified facts but has a candidate model; it is kept as a
                # *candidate* counterexample only: it counts for nothing unless it replays on the real code
                try:
                    cm = s.model()
                    if self.model_ok(s, cm):
                        candidate = cm
                except z3.Z3Exception:
                    candidate = None
        if self._solver_broken or self._saw_unknown:
            # an internal failure or a cancelled check: do not trust the incremental state any further
            self._solver_broken = False
            self._saw_unknown = False
            self.rebuild_solver()
        else:
            s.pop()
            s.set("timeout", FEAS_TIMEOUT_MS)
        dt = time.time() - t0
        self.solver_seconds += dt
        status = "proved" if r == z3.unsat else ("refuted" if r == z3.sat else "unknown")
        summary = None
        if model is None and candidate is not None and status == "unknown":
            summary = {"__candidate__": True}
            if self.witness_fn is not None:
                try:
                    w = self.witness_fn(candidate)
                    if w is not None:
                        summary["__witness__"] = w
                except Exception as e:
                    summary["__witness_error__"] = repr(e)[:200]
        if model is not None:
            summary = self.model_summary(model)
            if self.witness_fn is not None:
                try:
                    w = self.witness_fn(model)
                    if w is not None:
                        summary["__witness__"] = w
                except Exception as e:      # a witness is a convenience, never a verdict
                    summary["__witness_error__"] = repr(e)[:200]
        ob = Obligation(name, status, dt, backend, model=summary,
                        path=self.path_id, detail=(detail or (str(z3.simplify(goal))[:300])) +
                        ((" [solver: unknown, %s]" % why) if status == "unknown" else ""), kind=kind)
        self.obligations.append(ob)
        self.qlog.append((name, status))
        if status != "proved" and _os.environ.get("PYVC_DUMP_SMT"):
            from pyvc import backends as _b
            try:
                d = _os.environ["PYVC_DUMP_SMT"]
                _os.makedirs(d, exist_ok=True)
                fn = _os.path.join(d, "%s-%s.smt2" % (name.replace("/", "_").replace(":", "_").replace(" ", "_"), self.path_id))
                with open(fn, "w") as f:
                    f.write(_b.to_smt2(self.facts, goal))
            except Exception as e:
                print("dump failed", e)
        if _TRACE:
            print("    OBL %-8s %.2fs %s [%s] %s" % (status, dt, name, self.path_id, ob.detail[:150].replace("\n", " ")), flush=True)
        if status == "proved":
            self.assume(SBool(goal))     # proved facts may be used afterwards
        return status == "proved"

    def model_ok(self, s, model):
        """a `sat` answer is accepted only if the model really satisfies every quantifier-free assertion (z3's
        sequence solver combined with uninterpreted functions can return candidate models that do not)"""
        try:
            for a in s.assertions():
                if z3.is_quantifier(a):
                    continue
                v = z3.simplify(model.eval(a, model_completion=True))
                if not z3.is_true(v):
                    return False          # false, or not decided by the model: not an accepted counterexample
        except z3.Z3Exception:
            return True
        return True

    def model_summary(self, model):
        out = {}
        try:
            for d in model.decls():
                if d.arity() == 0:
                    out[d.name()] = str(model[d])[:200]
        except Exception:
            pass
        return out

    # spec-level functions whose meaning is given by instantiated facts -------------------------
    def keccak(self, v):
        t = ops.seq_term(v)
        h = z3.simplify(specfn.keccak(t))
        for (t2, h2) in self.keccak_terms:
            if t2.eq(t):
                return SSeq(h2, "bytes", "int")
        if not self.keccak_terms:
            # the one hash constant of the code base: BLANK_HASH = keccak(b'') (checked against the library at setup)
            try:
                bh = self.loader.load("trie.constants").ns.get("BLANK_HASH")
            except Exception:
                bh = None
            if isinstance(bh, bytes) and len(bh) == 32:
                e = z3.Empty(SeqI)
                self.assume(SBool(specfn.keccak(e) == seq_const(bh)))
                self.assume(SBool(specfn.unkeccak(seq_const(bh)) == e))
                self.keccak_terms.append((e, specfn.keccak(e)))
                bnh = self.loader.load("trie.constants").ns.get("BLANK_NODE_HASH")
                if isinstance(bnh, bytes) and len(bnh) == 32:
                    # BLANK_NODE_HASH = keccak(rlp(b'')) = keccak(b'\x80') (checked against the libraries at setup)
                    e2 = z3.Unit(z3.IntVal(128))
                    self.assume(SBool(specfn.keccak(e2) == seq_const(bnh)))
                    self.assume(SBool(specfn.unkeccak(seq_const(bnh)) == e2))
                    self.keccak_terms.append((e2, specfn.keccak(e2)))
        self.assume(SBool(z3.Length(h) == 32))
        self.assume(SBool(specfn.unkeccak(h) == t))                # A-HASH: the hash determines its pre-image
        for (t2, h2) in self.keccak_terms:
            self.assume(SBool(z3.Implies(h == h2, t == t2)))       # A-HASH, instantiated pairwise
        self.keccak_terms.append((t, h))
        return SSeq(h, "bytes", "int")

    # ------------------------------------------------------------------------------------------
    # calling
    def call(self, f, args, kwargs=None):
        kwargs = kwargs or {}
        if isinstance(f, Builtin):
            return f.fn(self, *args, **kwargs)
        if isinstance(f, BoundMethod):
            return self.call(f.func, [f.self_val] + list(args), kwargs)
        if isinstance(f, (FuncVal, Wrapped)):
            qn = f.qualname
            c = self.contracts.get(qn)
            if f is self.inner_pending:
                # the function under verification is a decorated one (e.g. @prune_pending): its wrapper has just
                # called the original function -- that body belongs to the unit and is executed, once
                self.inner_pending = None
                c = None
            if c is not None and isinstance(f, Wrapped) and f.kind == "contextmanager":
                c = None          # calling a context manager only creates it; its contract is applied by `with`
            if c is not None and c.callee and (self.depth > 0 or qn != self.unit) and qn not in self.inline:
                if self._dynamic_args(list(args) + list(kwargs.values())):
                    # a dynamically typed argument whose type the path has not established (the C18 units): the
                    # contract is written for typed arguments -- execute the real body instead
                    c = None
                else:
                    return c.apply(self, f, list(args), kwargs)
        if isinstance(f, Wrapped):
            return self.call_wrapped(f, args, kwargs)
        if isinstance(f, FuncVal):
            return self.call_func(f, args, kwargs)
        if isinstance(f, ClassVal):
            return self.instantiate(f, args, kwargs)
        if isinstance(f, Ext):
            from pyvc import lib
            fn = lib.EXT.get(f.name)
            if fn is None:
                raise Unsupported("call of external %s" % f.name)
            return fn(self, *args, **kwargs)
        if isinstance(f, type) and issubclass(f, BaseException):
            return ExcObj(f, args)
        from pyvc import lib
        if f in lib.NATIVE:
            return lib.NATIVE[f](self, *args, **kwargs)
        raise Unsupported("call of %r" % (f,))

    def _dynamic_args(self, vals):
        from pyvc import lib
        for v in vals:
            if isinstance(v, SPy):
                try:
                    lib.refine(self, v)
                except lib.UseBeforeValidation:
                    return True
                except Unsupported:
                    return True
                if isinstance(lib.refine(self, v), SPy):
                    return True
        return False

    def call_wrapped(self, w, args, kwargs):
        from pyvc import lib
        k = w.kind
        if k == "contextmanager":
            return CtxMgr(w.func, list(args), kwargs)
        if k in ("staticmethod", "classmethod", "lru_cache"):
            return self.call(w.func, args, kwargs)
        res = self.call(w.func, args, kwargs)
        if k == "to_tuple":
            return lib.b_tuple(self, res)
        if k == "to_list":
            return lib.b_list(self, res)
        if k == "apply":
            return self.call(self.resolve_static(w.arg), [res])
        raise Unsupported("wrapped kind %s" % k)

    def resolve_static(self, v):
        if isinstance(v, type):
            from pyvc import lib
            return lib.builtin_for_type(v)
        return v

    def bind_args(self, f, args, kwargs):
        a = f.node.args
        params = [p.arg for p in a.posonlyargs + a.args]
        locals_ = {}
        args = list(args)
        if len(args) > len(params) and a.vararg is None:
            raise Unsupported("too many positional arguments for %s" % f.qualname)
        for name, val in zip(params, args):
            locals_[name] = val
        if a.vararg is not None:
            locals_[a.vararg.arg] = tuple(args[len(params):])
        defaults = a.defaults
        first_default = len(params) - len(defaults)
        kwargs = dict(kwargs)
        for i, name in enumerate(params):
            if name in locals_:
                if name in kwargs:
                    raise Unsupported("multiple values for %s" % name)
                continue
            if name in kwargs:
                locals_[name] = kwargs.pop(name)
            elif i >= first_default:
                locals_[name] = self.eval_default(f, defaults[i - first_default])
            else:
                raise Unsupported("missing argument %s of %s" % (name, f.qualname))
        for p, d in zip(a.kwonlyargs, a.kw_defaults):
            if p.arg in kwargs:
                locals_[p.arg] = kwargs.pop(p.arg)
            elif d is not None:
                locals_[p.arg] = self.eval_default(f, d)
            else:
                raise Unsupported("missing keyword-only argument %s" % p.arg)
        if kwargs:
            if a.kwarg is not None:
                raise Unsupported("**kwargs")
            raise Unsupported("unexpected keyword arguments %r for %s" % (list(kwargs), f.qualname))
        return locals_

    def eval_default(self, f, node):
        fr = Frame(f, f.module, {}, f.closure)
        return self.ev(node, fr)

    def call_func(self, f, args, kwargs, yield_cb=None):
        if f.qualname not in self.executed:
            self.executed[f.qualname] = code_fingerprint(f.node)
            mk = "%s:<module level>" % getattr(f.module, "name", "?")
            if mk not in self.executed:
                self.executed[mk] = module_fingerprint(f.module)
        locals_ = self.bind_args(f, args, kwargs)
        fr = Frame(f, f.module, locals_, f.closure)
        if isinstance(f.node, ast.Lambda):
            self.depth += 1
            try:
                return self.ev(f.node.body, fr)
            finally:
                self.depth -= 1
        if f.is_generator:
            if yield_cb is not None:
                fr.yield_cb = yield_cb
            else:
                fr.gen_out = []
        self.depth += 1
        if self.depth > 60:
            raise Unsupported("interpreter recursion too deep (missing contract on a recursive function?)")
        try:
            try:
                self.exec_block(f.node.body, fr)
                res = None
            except _Ret as r:
                res = r.value
        finally:
            self.depth -= 1
        if isinstance(fr.gen_out, _GenOut):
            return _GenOutIter(fr.gen_out.val)
        if fr.gen_out is not None:
            return GenIter(fr.gen_out)
        return res

    def instantiate(self, cls, args, kwargs):
        from pyvc import lib
        special = lib.CLASS_CTORS.get("%s:%s" % (cls.module.name, cls.name))
        if special is not None:
            return special(self, cls, *args, **kwargs)
        if cls.is_exception():
            e = ExcObj(cls, args)
            init = cls.lookup("__init__")
            if init is not None:
                self.call(init, [e] + list(args), kwargs)
            return e
        for b in cls.mro():
            if isinstance(b, Ext) and b.name == "typing.NamedTuple":
                fields = [s.target.id for s in cls.node.body if isinstance(s, ast.AnnAssign)]
                o = Obj(cls)
                vals = list(args)
                for name in fields[len(vals):]:
                    if name not in kwargs:
                        raise Unsupported("NamedTuple field %s missing" % name)
                    vals.append(kwargs[name])
                for name, v in zip(fields, vals):
                    o.fields[name] = v
                o.fields["__fields__"] = tuple(fields)
                return o
        o = Obj(cls)
        init = cls.lookup("__init__")
        if init is not None:
            self.call(init, [o] + list(args), kwargs)
        return o

    # ------------------------------------------------------------------------------------------
    # exceptions
    def raise_exc(self, cls, *args):
        raise PyRaise(ExcObj(cls, args))

    def exc_matches(self, exc, cls):
        if isinstance(cls, tuple):
            return any(self.exc_matches(exc, c) for c in cls)
        ec = exc.cls
        if isinstance(ec, ClassVal):
            return ec.is_subclass_of(cls)
        if isinstance(ec, type):
            return isinstance(cls, type) and issubclass(ec, cls)
        if isinstance(ec, Ext):
            if isinstance(cls, Ext):
                return ec == cls
            return cls in (Exception, BaseException)
        return False

    # ------------------------------------------------------------------------------------------
    # statements
    def exec_block(self, stmts, fr):
        for st in stmts:
            self.exec_stmt(st, fr)

    def exec_stmt(self, st, fr):
        m = getattr(self, "st_" + type(st).__name__, None)
        if m is None:
            raise Unsupported("statement %s at %s:%d" % (type(st).__name__, fr.module.path, st.lineno))
        if _STMT:
            print("      @%s:%d %s" % (fr.func.name, st.lineno, type(st).__name__), flush=True)
        try:
            return m(st, fr)
        except Unsupported as e:
            if not getattr(e, "located", False):
                e.located = True
                e.args = ("%s [at %s:%d]" % (e.args[0] if e.args else "", fr.module.path, st.lineno),)
            raise

    def st_Expr(self, st, fr):
        if isinstance(st.value, ast.Constant):
            return
        self.ev(st.value, fr)

    def st_Pass(self, st, fr):
        return

    def st_ImportFrom(self, st, fr):
        # a function-level `from trie.x import a, b`: bind the names as the module loader would
        tmp = ModuleNS(fr.module.name, fr.module.path)
        self.loader._stmt(tmp, st)
        for k, v in tmp.ns.items():
            fr.locals[k] = v

    def st_Return(self, st, fr):
        raise _Ret(self.ev(st.value, fr) if st.value is not None else None)

    def st_Break(self, st, fr):
        raise _Break()

    def st_Continue(self, st, fr):
        raise _Continue()

    def st_Assign(self, st, fr):
        val = self.ev(st.value, fr)
        for t in st.targets:
            self.assign(t, val, fr)

    def st_AnnAssign(self, st, fr):
        if st.value is not None:
            self.assign(st.target, self.ev(st.value, fr), fr)

    def st_AugAssign(self, st, fr):
        load = ast.copy_location(_as_load(st.target), st.target)
        cur = self.ev(load, fr)
        val = self.ev(st.value, fr)
        res = self.binop(type(st.op), cur, val)
        self.assign(st.target, res, fr)

    def st_Assert(self, st, fr):
        c = self.ev(st.test, fr)
        if not self.decide(c):
            self.raise_exc(AssertionError)

    def st_Delete(self, st, fr):
        for t in st.targets:
            if isinstance(t, ast.Subscript):
                base = self.ev(t.value, fr)
                key = self.ev(t.slice, fr)
                self.del_item(base, key)
            elif isinstance(t, ast.Name):
                fr.locals.pop(t.id, None)
            else:
                raise Unsupported("del target")

    def st_If(self, st, fr):
        # if-conversion: `if c: yield a  else: yield b` (and the same with one assignment to one name) with pure
        # operands is executed as a single path with an if-then-else term
        if len(st.body) == 1 and len(st.orelse) == 1:
            a, b = st.body[0], st.orelse[0]
            if isinstance(a, ast.Expr) and isinstance(b, ast.Expr) and isinstance(a.value, ast.Yield) \
                    and isinstance(b.value, ast.Yield) and _is_pure_atom(a.value.value) and _is_pure_atom(b.value.value) \
                    and fr.gen_out is not None:
                c = ops.truth(self.ev(st.test, fr))
                if not isinstance(c, bool):
                    va, vb = self.ev(a.value.value, fr), self.ev(b.value.value, fr)
                    fr.gen_out.append(ops.s_ite(c, va, vb))
                    return
        if self.decide(self.ev(st.test, fr)):
            self.exec_block(st.body, fr)
        else:
            self.exec_block(st.orelse, fr)

    def st_Raise(self, st, fr):
        if st.exc is None:
            cur = getattr(fr, "handling", None)
            if cur is None:
                raise Unsupported("bare raise outside handler")
            raise PyRaise(cur)
        e = self.ev(st.exc, fr)
        if isinstance(e, (ClassVal, type, Ext)):
            e = self.call(e, [])
        if not isinstance(e, ExcObj):
            raise Unsupported("raise of %r" % (e,))
        if st.cause is not None:
            e.cause = self.ev(st.cause, fr)
        # implicit chaining: an exception raised while another one is being handled carries it as __context__
        e.context = getattr(fr, "handling", None)
        raise PyRaise(e)

    def st_FunctionDef(self, st, fr):
        f = FuncVal(st.name, st, fr.module, closure=fr)
        val = f
        for d in reversed(st.decorator_list):
            dv = self.ev(d, fr)
            val = self.call(dv, [val])
        fr.locals[st.name] = val

    def st_Try(self, st, fr):
        try:
            try:
                self.exec_block(st.body, fr)
            except PyRaise as pr:
                handled = False
                for h in st.handlers:
                    cls = self.ev(h.type, fr) if h.type is not None else BaseException
                    if self.exc_matches(pr.exc, cls):
                        if h.name:
                            fr.locals[h.name] = pr.exc
                        prev = getattr(fr, "handling", None)
                        fr.handling = pr.exc
                        try:
                            self.exec_block(h.body, fr)
                        finally:
                            fr.handling = prev
                        handled = True
                        break
                if not handled:
                    raise
            else:
                self.exec_block(st.orelse, fr)
        except (PyRaise, _Ret, _Break, _Continue):
            if st.finalbody:
                self.exec_block(st.finalbody, fr)
            raise
        else:
            if st.finalbody:
                self.exec_block(st.finalbody, fr)

    def st_With(self, st, fr):
        if len(st.items) != 1:
            raise Unsupported("with: several items")
        item = st.items[0]
        cm = self.ev(item.context_expr, fr)
        if not isinstance(cm, CtxMgr):
            raise Unsupported("with over %r" % (cm,))
        pending = []
        entered = []

        def body_cb(yielded):
            entered.append(1)
            if item.optional_vars is not None:
                self.assign(item.optional_vars, yielded, fr)
            try:
                self.exec_block(st.body, fr)
            except (_Ret, _Break, _Continue) as cf:
                pending.append(cf)      # __exit__(None, None, None): the generator resumes normally
            return None
        f = cm.func
        c = self.contracts.get(f.qualname)
        if c is not None and c.callee and f.qualname != self.unit and getattr(c, "as_context", None) is not None:
            entered.append(1)
            c.as_context(self, f, cm.args, cm.kwargs, body_cb)
        else:
            self.call_func(f, cm.args, cm.kwargs, yield_cb=body_cb)
        if not entered:
            raise Unsupported("context manager generator did not yield")
        if pending:
            raise pending[0]

    def st_While(self, st, fr):
        spec = self.loop_spec(fr, st)
        if spec is None:
            n = 0
            while self.decide(self.ev(st.test, fr)):
                n += 1
                if n > 64:
                    raise Unsupported("while loop without invariant does not terminate symbolically (line %d)"
                                      % st.lineno)
                try:
                    self.exec_block(st.body, fr)
                except _Break:
                    break
                except _Continue:
                    continue
            else:
                self.exec_block(st.orelse, fr)
            return
        self.cut_loop(st, fr, spec, None, None)

    def st_For(self, st, fr):
        it = self.ev(st.iter, fr)
        if isinstance(it, DictObj) and it.has is not None:
            from pyvc import lib as _lib0
            it = _lib0.DictItems(it, keys_only=True)          # iterating a dictionary iterates its keys
        items = self.concrete_items(it)
        if items is not None:
            for x in items:
                self.assign(st.target, x, fr)
                try:
                    self.exec_block(st.body, fr)
                except _Break:
                    return
                except _Continue:
                    continue
            self.exec_block(st.orelse, fr)
            return
        spec = self.loop_spec(fr, st)
        if spec is None:
            raise Unsupported("for loop over symbolic data without invariant in %s (line %d)"
                              % (fr.func.qualname, st.lineno))
        self.cut_loop(st, fr, spec, it, st.target)

    # -- loops with invariants ---------------------------------------------------------------------
    def loop_spec(self, fr, st):
        f = fr.func.wraps or fr.func
        loops = [n for n in ast.walk(f.node) if isinstance(n, (ast.For, ast.While))]
        loops.sort(key=lambda n: (n.lineno, n.col_offset))
        try:
            idx = loops.index(st)
        except ValueError:
            return None
        self._last_loop_idx = idx
        return self.loops.get((f.qualname, idx))

    def assigned_names(self, st):
        names = []
        for n in ast.walk(st):
            if isinstance(n, ast.Name) and isinstance(n.ctx, ast.Store) and n.id not in names:
                names.append(n.id)
        return names

    def havoc_value(self, name, cur, spec):
        desc = spec.fresh.get(name)
        if desc is not None:
            return self.fresh_of(desc, name)
        if isinstance(cur, (bool, SBool)):
            return self.fresh_bool(name)
        if isinstance(cur, (int, SInt)):
            return self.fresh_int(name)
        if isinstance(cur, (SSeq, bytes, tuple)):
            k, e = ops.seq_kind(cur), ops.seq_elem(cur)
            if e in ("int", "bytes"):
                nv = self.fresh_seq(name, k, e)
                r = ops.seq_rng(cur)
                if e == "int" and r not in (None, "empty"):
                    nv.rng = r            # element range is kept as part of the invariant; re-checked at the back edge
                    self._loop_rng[name] = r
                return nv
        if cur is None or cur is _UNBOUND:
            return _UNBOUND
        raise Unsupported("cannot havoc loop variable %s = %r (give a type in the loop spec)" % (name, cur))

    def fresh_of(self, desc, name):
        if callable(desc):
            return desc(self)
        if desc == "int":
            return self.fresh_int(name)
        if desc == "bool":
            return self.fresh_bool(name)
        if desc == "unbound":
            return _UNBOUND
        if isinstance(desc, tuple) and desc[0] == "seq":
            return self.fresh_seq(name, desc[1], desc[2])
        if isinstance(desc, tuple) and desc[0] == "aseq":
            n = self.fresh_name(name)
            nn = z3.Int(n + ".n")
            self.assume(SBool(nn >= 0))
            return ASeq(z3.Const(n + ".a", z3.ArraySort(IntS, IntS)), nn, desc[1])
        if desc == "py":
            return self.fresh_py(name)
        raise Unsupported("type descriptor %r" % (desc,))

    def havoc_obj(self, o):
        if isinstance(o, DictObj):
            if o.kkind is None or o.vkind is None:
                raise Unsupported("havoc of a dictionary whose key / value kinds are not known yet")
            ks, vs = self.sort_of_kind(o.kkind), self.sort_of_kind(o.vkind)
            n = self.fresh_name(o.name)
            o.has = z3.Const(n + ".has", z3.ArraySort(ks, BoolS))
            o.val = z3.Const(n + ".val", z3.ArraySort(ks, vs))
        elif isinstance(o, ListObj):
            if o.seq is not None:
                o.seq = self.fresh_seq("list", o.seq.kind, o.seq.elem)
            elif not o.items:
                o.items = None
                o.seq = self.fresh_seq("list", "list", getattr(o, "elem_hint", "bytes"))
            else:
                raise Unsupported("havoc of a concrete list")
        elif isinstance(o, _GenOut):
            o.reset(self)
        elif isinstance(o, Obj) and hasattr(o.cls, "py_havoc"):
            o.cls.py_havoc(self, o)
        else:
            raise Unsupported("havoc of %r" % (o,))

    def cut_loop(self, st, fr, spec, it, target):
        """loop cut at its invariant: entry obligation, then either an arbitrary iteration (ends the path at the
        back edge after the preservation obligation; return/raise/break leave the loop normally) or the exit"""
        qn = (fr.func.wraps or fr.func).qualname
        tag = "%s/loop%d" % (qn.split(":")[1], self._last_loop_idx)
        from pyvc import lib as _lib
        is_dict = isinstance(it, _lib.DictItems)
        is_for = it is not None and not is_dict
        if is_for:
            n = _lib._iter_len(self, it)
        if is_dict:
            d = it.d
            if d.has is None:
                self.exec_block(st.orelse, fr)
                return
            ks = self.sort_of_kind(d.kkind)
            ghost0 = z3.K(ks, z3.BoolVal(False))
        else:
            ghost0 = 0 if is_for else None
        names = self.assigned_names(st)
        if fr.gen_out is not None and "__yield__" not in names and _contains_yield(st):
            names.append("__yield__")
            if not isinstance(fr.gen_out, _GenOut):
                fr.gen_out = _GenOut(self, fr.gen_out, spec.fresh.get("__yield__", ("seq", "tuple", "int")))
        for (name, c) in spec.inv(self, fr, ghost0):
            self.prove("%s/inv-entry:%s" % (tag, name), c, kind="loop")
        which = self.nondet(2)          # 0: arbitrary iteration, 1: exit
        for name in names:
            if name == "__yield__":
                if not isinstance(fr.gen_out, _GenOut):
                    fr.gen_out = _GenOut(self, fr.gen_out, spec.fresh.get("__yield__", ("seq", "tuple", "int")))
                fr.gen_out.reset(self)
                continue
            cur = fr.locals.get(name, _UNBOUND)
            nv = self.havoc_value(name, cur, spec)
            if nv is _UNBOUND:
                fr.locals.pop(name, None)
            else:
                fr.locals[name] = nv
        hv = spec.havoc(fr) if spec.havoc is not None else []
        for o in hv:
            self.havoc_obj(o)
        allowed = set(id(o) for o in hv)
        if is_dict and id(d) in allowed:
            raise Unsupported("loop modifies the dictionary it iterates over")
        if is_for:
            i = self.fresh_int("it")
            self.assume(SBool(i.t >= 0))
            nt = as_int_term(n)
            if which == 0:
                self.assume(SBool(i.t < nt))
            else:
                self.assume(SBool(i.t == nt))
            ghost = i
        elif is_dict:
            P = z3.Const(self.fresh_name("done"), z3.ArraySort(ks, BoolS))
            kq = z3.Const(self.fresh_name("kq"), ks)
            self.assume(SBool(z3.ForAll([kq], z3.Implies(z3.Select(P, kq), z3.Select(d.has, kq)))))
            if which == 1:
                self.assume(SBool(z3.ForAll([kq], z3.Implies(z3.Select(d.has, kq), z3.Select(P, kq)))))
            ghost = P
        else:
            ghost = None
        for (name, c) in spec.inv(self, fr, ghost):
            self.assume(c)
        # the assumed invariant may contradict the path (e.g. a search loop that cannot fall through): look harder
        # than the usual quick feasibility check before going on
        self.solver.set("timeout", 2000)
        dead = self._check() == z3.unsat
        self.solver.set("timeout", FEAS_TIMEOUT_MS)
        if dead:
            raise PathEnd("infeasible")
        if which == 1:
            if not is_for and not is_dict:
                if self.decide(self.ev(st.test, fr)):
                    raise PathEnd("infeasible")      # exit path: the condition is false
            self.exec_block(st.orelse, fr)
            return
        # arbitrary iteration
        if is_for:
            self.assign(target, self.iter_elem(it, i), fr)
        elif is_dict:
            kx = z3.Const(self.fresh_name("k"), ks)
            self.assume(SBool(z3.And(z3.Select(d.has, kx), z3.Not(z3.Select(P, kx)))))
            keyv = SSeq(kx, d.kkind, "int") if d.kkind in ("bytes", "tuple") else self.dict_dec_key(d, kx)
            if getattr(it, "keys_only", False):
                self.assign(target, keyv, fr)
            else:
                self.assign(target, (keyv, self.dict_dec(d, z3.Select(d.val, kx))), fr)
        else:
            if not self.decide(self.ev(st.test, fr)):
                raise PathEnd("infeasible")
        prev_guard = self.loop_guard
        self.loop_guard = allowed
        try:
            try:
                self.exec_block(st.body, fr)
            except _Continue:
                pass
            except _Break:
                self.loop_guard = prev_guard
                return            # leaves the loop: continue after it with the current state
        finally:
            self.loop_guard = prev_guard
        for name, r in list(self._loop_rng.items()):
            nv = fr.locals.get(name, _UNBOUND)
            r2 = ops.seq_rng(nv) if nv is not _UNBOUND else None
            if nv is _UNBOUND or r2 == "empty":
                continue
            if r2 is None or r2[0] < r[0] or r2[1] > r[1]:
                raise Unsupported("loop body does not keep the element range %r of %s" % (r, name))
        if is_for:
            nxt = mk_int(i.t + 1)
        elif is_dict:
            nxt = z3.Store(P, kx, z3.BoolVal(True))
        else:
            nxt = None
        for (name, c) in spec.inv(self, fr, nxt):
            self.prove("%s/inv-preserved:%s" % (tag, name), c, kind="loop")
        raise PathEnd("back-edge")

    def iter_elem(self, it, i):
        if hasattr(it, "py_iter_elem"):
            return it.py_iter_elem(self, i)
        if isinstance(it, _Reversed):
            s = it.seq
            from pyvc import lib as _lib
            n = as_int_term(_lib._iter_len(self, s))
            return self.seq_index_nocheck(s, mk_int(n - 1 - i.t))
        if isinstance(it, _Enumerate):
            return (mk_int(i.t + as_int_term(it.start)), self.iter_elem(it.inner, i))
        if isinstance(it, _Zip):
            return tuple(self.iter_elem(x, i) for x in it.parts)
        if isinstance(it, _Partition):
            return tuple(self.seq_index_nocheck(it.seq, mk_int(i.t * it.n + k)) for k in range(it.n))
        return self.seq_index_nocheck(it, i)

    def seq_index_nocheck(self, s, i):
        if isinstance(s, ASeq):
            return mk_int(z3.Select(s.arr, as_int_term(i)))
        if isinstance(s, ListObj):
            if s.seq is None:
                raise Unsupported("symbolic index into concrete list")
            s = s.seq
        if isinstance(s, _Range):
            return mk_int(as_int_term(s.start) + as_int_term(i) * s.step)
        t = ops.seq_term(s)
        if isinstance(s, SSeq):
            return self.elem_read(s, t[as_int_term(i)])
        return ops.elem_value(t[as_int_term(i)], ops.seq_elem(s))

    def elem_read(self, s, et):
        """value of one element of a symbolic sequence; its known range becomes a fact"""
        et = z3.simplify(et)
        if s.elem == "int" and s.rng is not None and not z3.is_int_value(et):
            self.assume(SBool(z3.And(et >= s.rng[0], et <= s.rng[1])))
        return ops.elem_value(et, s.elem)

    def concrete_items(self, it):
        """list of values if the iterable has a concrete length, else None"""
        if isinstance(it, SPy):
            it = self.refine(it)
        if isinstance(it, (tuple, list)):
            return list(it)
        if isinstance(it, bytes):
            return list(it)
        if isinstance(it, (set, frozenset)):
            return sorted(it)
        if isinstance(it, dict):
            return list(it)
        if isinstance(it, range):
            return list(it)
        if isinstance(it, GenIter):
            rest = it.items[it.pos:]
            it.pos = len(it.items)
            return rest
        if isinstance(it, _GenOutIter):
            return None
        if isinstance(it, ListObj):
            return list(it.items) if it.items is not None else None
        if isinstance(it, _Range):
            lo, hi = concrete_int(as_int_term(it.start)), concrete_int(as_int_term(it.stop))
            if lo is not None and hi is not None:
                return list(range(lo, hi, it.step))
            return None
        if isinstance(it, _Reversed):
            inner = self.concrete_items(it.seq)
            return list(reversed(inner)) if inner is not None else None
        if isinstance(it, _Enumerate):
            inner = self.concrete_items(it.inner)
            if inner is None or not isinstance(it.start, int):
                return None
            return [(it.start + k, x) for k, x in enumerate(inner)]
        if isinstance(it, _Zip):
            parts = [self.concrete_items(p) for p in it.parts]
            if any(p is None for p in parts):
                if all(p is not None or True for p in parts):
                    pass
                return None
            return [tuple(x) for x in zip(*parts)]
        if isinstance(it, SSeq):
            n = concrete_int(z3.Length(it.t))
            if n is not None and n <= 64:
                return [self.elem_read(it, it.t[k]) for k in range(n)]
            return None
        if isinstance(it, Obj) and "__fields__" in it.fields:
            return [it.fields[k] for k in it.fields["__fields__"]]
        return None

    # ------------------------------------------------------------------------------------------
    # assignment
    def assign(self, target, val, fr):
        if isinstance(target, ast.Name):
            fr.locals[target.id] = val
        elif isinstance(target, (ast.Tuple, ast.List)):
            items = self.concrete_items(val)
            if items is None:
                items = self.unpack_symbolic(val, len(target.elts))
            if len(items) != len(target.elts):
                self.raise_exc(ValueError, "unpack")
            for t, v in zip(target.elts, items):
                self.assign(t, v, fr)
        elif isinstance(target, ast.Attribute):
            base = self.ev(target.value, fr)
            self.set_attr(base, target.attr, val)
        elif isinstance(target, ast.Subscript):
            base = self.ev(target.value, fr)
            key = self.ev(target.slice, fr)
            self.set_item(base, key, val)
        else:
            raise Unsupported("assignment target %s" % type(target).__name__)

    def unpack_symbolic(self, val, n):
        if isinstance(val, SSeq):
            ln = ops.length(val)
            if not self.decide(ops.py_eq(ln, n)):
                self.raise_exc(ValueError, "unpack")
            return [self.elem_read(val, val.t[k]) for k in range(n)]
        raise Unsupported("unpacking of %r" % (val,))

    def set_attr(self, base, name, val):
        if isinstance(base, Obj):
            prop = base.cls.lookup(name) if isinstance(base.cls, ClassVal) else None
            if isinstance(prop, PropertyVal):
                if prop.fset is None:
                    self.raise_exc(AttributeError, name)
                self.call(prop.fset, [base, val])
                return
            self.heap_log.append(("setattr", base, name))
            base.fields[name] = val
            return
        if isinstance(base, ExcObj):
            base.fields[name] = val
            return
        raise Unsupported("attribute assignment on %r" % (base,))

    def check_mut(self, o):
        if self.loop_guard is not None and id(o) not in self.loop_guard and getattr(o, "born", 0) != id(self.loop_guard):
            raise Unsupported("loop body modifies %r which the loop spec does not list" % (o,))
        if getattr(o, "frozen", False):
            raise Unsupported("write to a frozen list")

    def set_item(self, base, key, val):
        if isinstance(base, DictObj):
            self.check_mut(base)
            self.dict_store(base, key, val)
            return
        if isinstance(base, ListObj):
            self.check_mut(base)
            if base.items is not None:
                if isinstance(key, int):
                    j, ok = ops.norm_index(key, len(base.items))
                    if not ok:
                        self.raise_exc(IndexError, "list assignment index out of range")
                    base.items[j] = val
                    return
                # symbolic index into a concrete-length list: split over the positions
                n = len(base.items)
                j, ok = self.norm_list_index(key, n)
                if not self.decide(ok):
                    self.raise_exc(IndexError, "list assignment index out of range")
                from pyvc import lib
                if lib.symbolic_slot_store_hook(self, base, j, val):
                    return
                k = self.choose([mk_bool(j == p) for p in range(n)])
                base.items[k] = val
                return
            n = ops.length(base)
            j, ok = ops.norm_index(key, n)
            if not self.decide(ok):
                self.raise_exc(IndexError, "list assignment index out of range")
            jt = as_int_term(j) if not isinstance(j, z3.ExprRef) else j
            t = base.seq.t
            nt = as_int_term(n)
            unit = z3.Unit(ops.seq_term(val) if base.seq.elem == "bytes" else as_int_term(val))
            base.seq = SSeq(z3.simplify(z3.Concat(z3.Extract(t, z3.IntVal(0), jt), unit,
                                                   z3.Extract(t, jt + 1, nt - jt - 1))), base.seq.kind, base.seq.elem)
            return
        raise Unsupported("item assignment on %r" % (base,))

    def del_item(self, base, key):
        if isinstance(base, DictObj):
            self.check_mut(base)
            kt = self.dict_key(base, key)
            if not self.decide(mk_bool(z3.Select(base.has, kt))):
                self.raise_exc(KeyError, key)
            base.has = z3.Store(base.has, kt, z3.BoolVal(False))
            base.writes += 1
            self.heap_log.append(("del", base, key))
            return
        raise Unsupported("del on %r" % (base,))

    # dictionaries ---------------------------------------------------------------------------------
    def dict_type(self, d, key, val=None):
        if d.has is None:
            kk = _kind_of(key)
            vk = _kind_of(val) if val is not None else "py"
            d.kkind, d.vkind = kk, vk
            d.has = z3.K(self.sort_of_kind(kk), z3.BoolVal(False))
            d.val = z3.Const(self.fresh_name(d.name + ".init"), z3.ArraySort(self.sort_of_kind(kk), self.sort_of_kind(vk)))

    def dict_key(self, d, key):
        if isinstance(key, SPy) and d.kkind in ("bytes", "tuple", "int"):
            key = self.refine(key)
        self.dict_type(d, key)
        if d.kkind in ("bytes", "tuple"):
            if isinstance(key, SPy):
                raise Unsupported("dynamically typed key for a typed dictionary")
            if ops.seq_kind(key) != d.kkind:
                raise Unsupported("dictionary key %r is not of kind %s" % (key, d.kkind))
            return ops.seq_term_as(key, "int")
        if d.kkind == "int":
            return as_int_term(key)
        if d.kkind == "py":
            return to_pyval(key)
        raise Unsupported("dict key kind %s" % d.kkind)

    def dict_enc(self, d, val):
        if isinstance(val, SPy) and d.vkind != "py":
            val = self.refine(val)
        if d.vkind == "bytes":
            if ops.seq_kind(val) != "bytes":
                raise Unsupported("dictionary value %r is not bytes" % (val,))
            return ops.seq_term_as(val, "int")
        if d.vkind == "int":
            return as_int_term(val)
        if d.vkind == "py":
            return to_pyval(val)
        if d.vkind == "bool":
            return as_bool_term(val)
        if d.vkind == "entry":
            if not (isinstance(val, tuple) and len(val) == 2 and _kind_of(val[1]) == "tuple"):
                raise Unsupported("dictionary value %r is not a pair (object, nibble tuple)" % (val,))
            return EntryS.Entry(to_pyval(val[0]), ops.seq_term_as(val[1], "int"))
        raise Unsupported("dict value kind %s" % d.vkind)

    def dict_dec(self, d, t):
        t = z3.simplify(t)
        if d.vkind == "bytes":
            return SSeq(t, "bytes", "int")
        if d.vkind == "int":
            return mk_int(t)
        if d.vkind == "py":
            return self.from_pyval(t)
        if d.vkind == "bool":
            return mk_bool(t)
        if d.vkind == "entry":
            return (self.from_pyval(EntryS.enode(t)), SSeq(z3.simplify(EntryS.eseg(t)), "tuple", "int"))
        raise Unsupported("dict value kind %s" % d.vkind)

    def from_pyval(self, t):
        """PyVal term -> engine value (typed when the constructor is syntactically known)"""
        t = z3.simplify(t)
        if z3.is_app(t):
            name = t.decl().name()
            if name == "PNone":
                return None
            if name == "PBytes":
                return SSeq(t.arg(0), "bytes", "int")
            if name == "PTup":
                return SSeq(t.arg(0), "tuple", "int")
            if name == "PInt":
                return mk_int(t.arg(0))
            if name == "PBool":
                return mk_bool(t.arg(0))
            if name == "PTupB":
                return SSeq(t.arg(0), "tuple", "bytes")
        return SPy(t)

    def dict_store(self, d, key, val):
        self.dict_type(d, key, val)
        kt = self.dict_key(d, key)
        if getattr(d, "hooks", None) is not None:
            d.hooks.on_write(self, d, kt, self.dict_enc(d, val))
        d.has = z3.Store(d.has, kt, z3.BoolVal(True))
        d.val = z3.Store(d.val, kt, self.dict_enc(d, val))
        d.writes += 1
        self.heap_log.append(("store", d, key))

    def dict_contains(self, d, key):
        if d.has is None:
            return False
        return mk_bool(z3.Select(d.has, self.dict_key(d, key)))

    def dict_get(self, d, key):
        if d.has is None:
            self.raise_exc(KeyError, key)
        kt = self.dict_key(d, key)
        if self.decide(mk_bool(z3.Select(d.has, kt))):
            if getattr(d, "hooks", None) is not None:
                alt = d.hooks.on_read(self, d, kt, z3.Select(d.val, kt))
                if alt is not None:
                    return self.dict_dec(d, alt)
            return self.dict_dec(d, z3.Select(d.val, kt))
        if d.default is not None:
            self.check_mut(d)
            d.has = z3.Store(d.has, kt, z3.BoolVal(True))
            d.val = z3.Store(d.val, kt, self.dict_enc(d, d.default))
            return d.default
        self.raise_exc(KeyError, key)

    # ------------------------------------------------------------------------------------------
    # expressions
    def ev(self, node, fr):
        m = getattr(self, "ev_" + type(node).__name__, None)
        if m is None:
            raise Unsupported("expression %s" % type(node).__name__)
        return m(node, fr)

    def ev_Constant(self, node, fr):
        return node.value

    def ev_Name(self, node, fr):
        return self.lookup(node.id, fr)

    def lookup(self, name, fr):
        f = fr
        while f is not None:
            if name in f.locals:
                v = f.locals[name]
                if v is _UNBOUND:
                    raise Unsupported("use of a variable left unbound by a loop cut: %s" % name)
                return v
            f = f.closure
        ns = fr.module.ns
        if name in ns:
            return ns[name]
        from pyvc import lib
        if name in lib.BUILTINS:
            return lib.BUILTINS[name]
        raise Unsupported("unknown name %s" % name)

    def ev_JoinedStr(self, node, fr):
        return "<f-string>"

    def ev_Tuple(self, node, fr):
        out = []
        for e in node.elts:
            if isinstance(e, ast.Starred):
                items = self.concrete_items(self.ev(e.value, fr))
                if items is None:
                    raise Unsupported("starred symbolic sequence")
                out.extend(items)
            else:
                out.append(self.ev(e, fr))
        return tuple(out)

    def ev_List(self, node, fr):
        lo = ListObj(items=list(self.ev_Tuple(node, fr)))
        if self.loop_guard is not None:
            lo.born = id(self.loop_guard)
        return lo

    def ev_Set(self, node, fr):
        items = self.ev_Tuple(node, fr)
        return _SetLit(items)

    def ev_Dict(self, node, fr):
        d = DictObj(None, None, None, None, None, name=self.fresh_name("dict"))
        if self.loop_guard is not None:
            d.born = id(self.loop_guard)
        for k, v in zip(node.keys, node.values):
            self.dict_store(d, self.ev(k, fr), self.ev(v, fr))
        return d

    def ev_Lambda(self, node, fr):
        return FuncVal("<lambda>", node, fr.module, closure=fr)

    def ev_IfExp(self, node, fr):
        if self.decide(self.ev(node.test, fr)):
            return self.ev(node.body, fr)
        return self.ev(node.orelse, fr)

    def ev_BoolOp(self, node, fr):
        is_and = isinstance(node.op, ast.And)
        val = None
        for i, e in enumerate(node.values):
            val = self.ev(e, fr)
            if i == len(node.values) - 1:
                return val
            t = self.decide(val)
            if is_and and not t:
                return val
            if not is_and and t:
                return val
        return val

    def ev_UnaryOp(self, node, fr):
        v = self.ev(node.operand, fr)
        if isinstance(node.op, ast.Not):
            return ops.s_not(ops.truth(v))
        if isinstance(node.op, ast.USub):
            return ops.arith("-", 0, v)
        raise Unsupported("unary %s" % type(node.op).__name__)

    _BIN = {ast.Add: "+", ast.Sub: "-", ast.Mult: "*", ast.FloorDiv: "//", ast.Mod: "%", ast.Pow: "**",
            ast.LShift: "<<", ast.RShift: ">>", ast.BitAnd: "&", ast.BitOr: "|", ast.BitXor: "^"}

    def refine(self, v):
        if isinstance(v, SPy):
            from pyvc import lib
            return lib.refine(self, v)
        return v

    def binop(self, opcls, a, b):
        op = self._BIN.get(opcls)
        if op is None:
            raise Unsupported("operator %s" % opcls.__name__)
        a, b = self.refine(a), self.refine(b)
        if op == "%" and isinstance(a, str):
            return "<formatted>"
        if op == "+" and (isinstance(a, ListObj) or isinstance(b, ListObj)):
            return self.list_concat(a, b)
        if op == "*" and isinstance(a, ListObj) and isinstance(b, int):
            if a.items is None:
                raise Unsupported("list * n on symbolic list")
            return ListObj(items=list(a.items) * b)
        if op == "+" and isinstance(a, Obj):
            add = a.cls.lookup("__add__")
            if add is not None:
                return self.call(add, [a, b])
        if op == "*" and ops.is_seq(a) and isinstance(b, SInt):
            raise Unsupported("sequence repetition with symbolic count")
        return ops.arith(op, a, b)

    def list_concat(self, a, b):
        if isinstance(a, ListObj) and isinstance(b, ListObj) and a.items is not None and b.items is not None:
            return ListObj(items=list(a.items) + list(b.items))
        raise Unsupported("list concatenation of %r and %r" % (a, b))

    def ev_BinOp(self, node, fr):
        a = self.ev(node.left, fr)
        b = self.ev(node.right, fr)
        return self.binop(type(node.op), a, b)

    def ev_Compare(self, node, fr):
        left = self.ev(node.left, fr)
        res = True
        for i, (op, rn) in enumerate(zip(node.ops, node.comparators)):
            right = self.ev(rn, fr)
            r = self.compare(op, left, right)
            if i == len(node.ops) - 1 and res is True:
                return r
            if not self.decide(r):
                return False
            left = right
        return res

    def compare(self, op, a, b):
        if isinstance(op, ast.Eq):
            return self.eq(a, b)
        if isinstance(op, ast.NotEq):
            return ops.s_not(self.eq(a, b))
        if isinstance(op, ast.Is):
            return self.is_(a, b)
        if isinstance(op, ast.IsNot):
            return ops.s_not(self.is_(a, b))
        if isinstance(op, ast.In):
            return self.contains(b, a)
        if isinstance(op, ast.NotIn):
            return ops.s_not(self.contains(b, a))
        sym = {ast.Lt: "<", ast.LtE: "<=", ast.Gt: ">", ast.GtE: ">="}[type(op)]
        a, b = self.refine(a), self.refine(b)
        if isinstance(a, Obj) or isinstance(b, Obj):
            raise Unsupported("ordering of objects")
        return ops.compare(sym, a, b)

    def eq(self, a, b):
        # a list that was handed to a callee which may have modified it in place ("poisoned": content unknown):
        # comparing it with another node is an open choice; when they are equal the unknown content IS the other value
        pa = isinstance(a, ListObj) and a.items is None and a.seq is None
        pb = isinstance(b, ListObj) and b.items is None and b.seq is None
        if pa or pb:
            if pa and pb:
                return a is b or bool(self.nondet(2) == 0)
            other, poisoned = (b, a) if pa else (a, b)
            plen = getattr(poisoned, "poison_len", None)
            if isinstance(other, ListObj) and other.items is not None and plen is not None and len(other.items) != plen:
                return False          # item assignment never changes the length of a list
            if self.nondet(2) == 0:
                if isinstance(other, ListObj) and other.items is not None:
                    poisoned.items = list(other.items)
                    return True
                return False if isinstance(other, (bytes, SSeq)) else True
            return False
        if isinstance(a, Obj) and isinstance(a.cls, ClassVal):
            f = a.cls.lookup("__eq__")
            if f is not None:
                return self.call(f, [a, b])
        return ops.py_eq(a, b)

    def is_(self, a, b):
        if isinstance(a, SPy) or isinstance(b, SPy):
            other = b if isinstance(a, SPy) else a
            if other is None or isinstance(other, Sentinel):
                return mk_bool(to_pyval(a) == to_pyval(b))
            raise Unsupported("`is` on a dynamically typed value and %r" % (other,))
        if a is None or b is None or isinstance(a, (Sentinel, Obj, ListObj, DictObj, ClassVal, type)) \
                or isinstance(b, (Sentinel, Obj, ListObj, DictObj, ClassVal, type)):
            return a is b
        if isinstance(a, bool) and isinstance(b, bool):
            return a is b
        raise Unsupported("`is` between %r and %r" % (a, b))

    def contains(self, cont, x):
        if isinstance(cont, DictObj):
            return self.dict_contains(cont, x)
        if isinstance(cont, _SetLit):
            res = False
            for y in cont.items:
                res = ops.s_or(res, ops.py_eq(x, y))
            return res
        if isinstance(cont, (set, frozenset, dict)) and not isinstance(x, V):
            try:
                return x in cont
            except TypeError:
                raise Unsupported("unhashable in concrete container")
        if isinstance(cont, (tuple, list, set, frozenset)):
            res = False
            for y in cont:
                res = ops.s_or(res, ops.py_eq(x, y))
            return res
        if isinstance(cont, dict):
            res = False
            for y in cont:
                res = ops.s_or(res, ops.py_eq(x, y))
            return res
        if isinstance(cont, ListObj) and cont.items is not None:
            res = False
            for y in cont.items:
                res = ops.s_or(res, ops.py_eq(x, y))
            return res
        if isinstance(cont, (SSeq, bytes)) and ops.seq_elem(cont) == "int" and ops.is_intlike(x):
            return mk_bool(z3.Contains(ops.seq_term(cont), z3.Unit(as_int_term(x))))
        if isinstance(cont, ListObj) and cont.seq is not None:
            if cont.seq.elem == "bytes":
                return mk_bool(z3.Contains(cont.seq.t, z3.Unit(ops.seq_term_as(x, "int"))))
        from pyvc import lib
        h = lib.contains_hook(self, cont, x)
        if h is not NotImplemented:
            return h
        raise Unsupported("`in` on %r" % (cont,))

    def ev_Attribute(self, node, fr):
        base = self.ev(node.value, fr)
        return self.get_attr(base, node.attr)

    def get_attr(self, base, name):
        from pyvc import lib
        if isinstance(base, Obj):
            if name in base.fields:
                return base.fields[name]
            c = base.cls.lookup(name) if isinstance(base.cls, ClassVal) else None
            if c is None:
                h = lib.obj_attr_hook(self, base, name)
                if h is not NotImplemented:
                    return h
                raise PyRaise(ExcObj(AttributeError, (name,)))
            return self.bind(c, base)
        if isinstance(base, ExcObj):
            if name == "args":
                return tuple(base.args)
            if name in base.fields:
                return base.fields[name]
            if isinstance(base.cls, ClassVal):
                c = base.cls.lookup(name)
                if c is not None:
                    return self.bind(c, base)
            raise Unsupported("attribute %s of exception %r" % (name, base))
        if isinstance(base, ModuleNS):
            if name in base.ns:
                return base.ns[name]
            raise Unsupported("module attribute %s.%s" % (base.name, name))
        if isinstance(base, Ext):
            return Ext(base.name + "." + name)
        if isinstance(base, ClassVal):
            c = base.lookup(name)
            if c is None:
                raise Unsupported("class attribute %s.%s" % (base.name, name))
            if isinstance(c, Wrapped) and c.kind == "classmethod":
                return BoundMethod(c.func, base)
            if isinstance(c, Wrapped) and c.kind == "staticmethod":
                return c.func
            return c
        m = lib.method_for(self, base, name)
        if m is not None:
            return m
        raise Unsupported("attribute %s of %r" % (name, base))

    def bind(self, c, obj):
        if isinstance(c, PropertyVal):
            return self.call(c.fget, [obj])
        if isinstance(c, Wrapped):
            if c.kind == "staticmethod":
                return c.func
            if c.kind == "classmethod":
                return BoundMethod(c.func, obj.cls)
            return BoundMethod(c, obj)
        if isinstance(c, FuncVal):
            return BoundMethod(c, obj)
        return c

    def ev_Subscript(self, node, fr):
        base = self.ev(node.value, fr)
        if isinstance(node.slice, ast.Slice):
            lo = self.ev(node.slice.lower, fr) if node.slice.lower is not None else None
            hi = self.ev(node.slice.upper, fr) if node.slice.upper is not None else None
            if node.slice.step is not None:
                raise Unsupported("slice step")
            return self.get_slice(base, lo, hi)
        key = self.ev(node.slice, fr)
        return self.get_item(base, key)

    def get_slice(self, base, lo, hi):
        base, lo, hi = self.refine(base), self.refine(lo), self.refine(hi)
        if isinstance(base, ListObj):
            if base.items is not None and (lo is None or isinstance(lo, int)) and (hi is None or isinstance(hi, int)):
                return ListObj(items=base.items[lo:hi])
            if base.seq is not None:
                s = ops.seq_slice(base.seq, lo, hi)
                return ListObj(seq=SSeq(s.t, "list", base.seq.elem))
            raise Unsupported("symbolic slice of a concrete list")
        if isinstance(base, Obj):
            inner = base.fields.get("__tuple__")
            if inner is not None:
                from pyvc import lib
                return lib.wrap_like(self, base, self.get_slice(inner, lo, hi))
        if isinstance(base, SSeq):
            r = self.simple_slice(base, lo, hi)
            if r is not None:
                return r
        return ops.seq_slice(base, lo, hi)

    def simple_slice(self, s, lo, hi):
        """slice whose bounds the path condition places inside the sequence: no clamping terms are needed"""
        n = z3.Length(s.t)
        def norm(x, default):
            if x is None:
                return default
            xt = as_int_term(x)
            if isinstance(x, int) and x < 0:
                xt = n + x
            elif not isinstance(x, int):
                if self.implied(mk_bool(xt >= 0)):
                    pass
                elif self.implied(mk_bool(xt < 0)):
                    xt = n + xt
                else:
                    return None
            if self.implied(mk_bool(z3.And(xt >= 0, xt <= n))):
                return z3.simplify(xt)
            return None
        a = norm(lo, z3.IntVal(0))
        b = norm(hi, n)
        if a is None or b is None:
            return None
        if not self.implied(mk_bool(a <= b)):
            return None
        return SSeq(z3.simplify(z3.Extract(s.t, a, b - a)), s.kind, s.elem, rng=s.rng)

    def get_item(self, base, key):
        from pyvc import lib
        base = self.refine(base)
        if not isinstance(base, (DictObj, dict)):
            key = self.refine(key)
        if isinstance(base, DictObj):
            return self.dict_get(base, key)
        if isinstance(base, dict):
            return self.native_dict_get(base, key)
        if isinstance(base, ListObj) and base.items is not None:
            n = len(base.items)
            if isinstance(key, int):
                j, ok = ops.norm_index(key, n)
                if not ok:
                    self.raise_exc(IndexError, "list index out of range")
                return self.slot_read(base, j)
            j, ok = self.norm_list_index(key, n)
            if not self.decide(ok):
                self.raise_exc(IndexError, "list index out of range")
            from pyvc import lib
            h = lib.symbolic_slot_hook(self, base, j)
            if h is not NotImplemented:
                return h
            k = self.choose([mk_bool(j == p) for p in range(n)])
            return self.slot_read(base, k)
        if isinstance(base, (tuple, list)) and not isinstance(key, int):
            n = len(base)
            j, ok = ops.norm_index(key, n)
            if not self.decide(ok):
                self.raise_exc(IndexError, "index out of range")
            if all(ops.is_intlike(x) and not isinstance(x, (bool, SBool)) for x in base):
                return mk_int(as_seq_term(tuple(base))[j])
            k = self.choose([mk_bool(j == p) for p in range(n)])
            return base[k]
        if isinstance(base, (tuple, list, bytes)):
            try:
                return base[key]
            except IndexError:
                self.raise_exc(IndexError, "index out of range")
        if isinstance(base, ASeq):
            j, ok = ops.norm_index(key, mk_int(base.n))
            if not self.decide(ok):
                self.raise_exc(IndexError, "index out of range")
            return mk_int(z3.Select(base.arr, as_int_term(j) if not isinstance(j, z3.ExprRef) else j))
        if isinstance(base, (SSeq, ListObj)):
            s = base.seq if isinstance(base, ListObj) else base
            n = ops.length(s)
            j, ok = ops.norm_index(key, n)
            if not self.decide(ok):
                self.raise_exc(IndexError, "index out of range")
            jt = j if isinstance(j, z3.ExprRef) else z3.IntVal(j)
            return self.elem_read(s, s.t[jt])
        if isinstance(base, Obj):
            inner = base.fields.get("__tuple__")
            if inner is not None:
                return self.get_item(inner, key)
        h = lib.getitem_hook(self, base, key)
        if h is not NotImplemented:
            return h
        raise Unsupported("subscript of %r" % (base,))

    def norm_list_index(self, key, n):
        """(effective index, in-bounds condition) for a list of concrete length n; a symbolic index that the path
        places at >= 0 is used as it is (no negative-index normalisation term)"""
        if not isinstance(key, int) and self.implied(mk_bool(as_int_term(key) >= 0)):
            kt = z3.simplify(as_int_term(key))
            return kt, mk_bool(kt < n)
        return ops.norm_index(key, n)

    def slot_read(self, lst, j):
        v = lst.items[j]
        if hasattr(v, "with_origin"):
            return v.with_origin(lst, j)      # a lazily materialised slot remembers where it was read from
        return v

    def native_dict_get(self, d, key):
        """lookup in a module-level constant table; symbolic keys need a validated table summary"""
        if not isinstance(key, V) and not (isinstance(key, tuple) and any(isinstance(x, V) for x in key)):
            try:
                return d[key]
            except KeyError:
                self.raise_exc(KeyError, key)
        for tb in self.tables.values():
            if tb.get_table(self.loader) is d:
                return tb.lookup(self, key)
        raise Unsupported("symbolic lookup in a constant table without a validated summary")

    def ev_Call(self, node, fr):
        f = self.ev(node.func, fr)
        if isinstance(f, Builtin) and f.name == "next" and len(node.args) >= 1 and isinstance(node.args[0], ast.GeneratorExp) \
                and len(node.args[0].generators) == 1:
            # next(<genexp>): the generator is evaluated lazily, up to its first element
            ge = node.args[0]
            g = ge.generators[0]
            items = self.concrete_items(self.ev(g.iter, fr))
            if items is not None:
                sub = Frame(fr.func, fr.module, {}, fr)
                for x in items:
                    self.assign(g.target, x, sub)
                    if all(self.decide(self.ev(c, sub)) for c in g.ifs):
                        return self.ev(ge.elt, sub)
                if len(node.args) > 1:
                    return self.ev(node.args[1], fr)
                self.raise_exc(StopIteration)
        args = []
        for a in node.args:
            if isinstance(a, ast.Starred):
                items = self.concrete_items(self.ev(a.value, fr))
                if items is None:
                    raise Unsupported("starred symbolic argument")
                args.extend(items)
            else:
                args.append(self.ev(a, fr))
        kwargs = {}
        for k in node.keywords:
            if k.arg is None:
                raise Unsupported("**kwargs in call")
            kwargs[k.arg] = self.ev(k.value, fr)
        if isinstance(f, Ext) and f.name == "super":
            return _Super(fr)
        return self.call(f, args, kwargs)

    def ev_Yield(self, node, fr):
        val = self.ev(node.value, fr) if node.value is not None else None
        if fr.yield_cb is not None:
            return fr.yield_cb(val)
        if fr.gen_out is None:
            raise Unsupported("yield outside generator")
        fr.gen_out.append(val)
        return None

    def ev_YieldFrom(self, node, fr):
        val = self.ev(node.value, fr)
        if fr.gen_out is None:
            raise Unsupported("yield from outside eager generator")
        items = self.concrete_items(val)
        if items is None:
            if isinstance(fr.gen_out, _GenOut):
                fr.gen_out.extend_sym(self, val)
                return None
            if isinstance(fr.gen_out, list) and isinstance(val, (SSeq, _GenOutIter)):
                # what was yielded so far (concrete items) becomes the prefix of a symbolic accumulator
                v2 = val.seq if isinstance(val, _GenOutIter) else val
                elem = ops.seq_elem(v2) if isinstance(v2, SSeq) else "int"
                fr.gen_out = _GenOut(self, list(fr.gen_out), ("seq", "tuple", elem))
                fr.gen_out.extend_sym(self, val)
                return None
            raise Unsupported("yield from a symbolic iterable")
        for x in items:
            fr.gen_out.append(x)
        return None

    # comprehensions: concrete iterables are unrolled; symbolic ones go through lib summaries
    def comp_items(self, node, fr, elt_fn, cond_ok=False):
        out = []

        def rec(gi, frame):
            if gi == len(node.generators):
                out.append(elt_fn(frame))
                return
            g = node.generators[gi]
            it = self.ev(g.iter, frame)
            items = self.concrete_items(it)
            if items is None:
                raise _SymbolicComp(it, g)
            for x in items:
                self.assign(g.target, x, frame)
                ok = True
                for c in g.ifs:
                    cv = ops.truth(self.ev(c, frame))
                    if cond_ok and isinstance(cv, SBool) and len(node.generators) == 1 and len(g.ifs) == 1 \
                            and not self.implied(cv) and not self.implied(ops.s_not(cv)):
                        # a filter the path does not decide: keep the element under its condition instead of
                        # forking (the result becomes a sequence term built from conditional units)
                        conds.append((len(out), cv))
                        continue
                    if not self.decide(cv):
                        ok = False
                        break
                if ok:
                    rec(gi + 1, frame)
        sub = Frame(fr.func, fr.module, {}, fr)
        conds = []
        rec(0, sub)
        if conds:
            return self.conditional_seq(out, dict(conds))
        return out

    def conditional_seq(self, items, conds):
        """sequence value of [items[i] if conds[i]] (items without a condition are always present)"""
        kinds = set()
        for x in items:
            if ops.is_intlike(x) and not isinstance(x, (bool, SBool)):
                kinds.add("int")
            elif isinstance(x, bytes) or (isinstance(x, SSeq) and x.kind == "bytes" and x.elem == "int"):
                kinds.add("bytes")
            elif (isinstance(x, tuple) and ops.seq_elem(x) == "int") or (isinstance(x, SSeq) and x.kind == "tuple" and x.elem == "int"):
                kinds.add("tuple")
            else:
                raise Unsupported("conditional comprehension element %r" % (x,))
        if len(kinds) != 1:
            raise Unsupported("conditional comprehension with mixed elements")
        elem = kinds.pop()
        srt = SeqI if elem == "int" else SeqSeqI
        parts = []
        for i, x in enumerate(items):
            u = z3.Unit(as_int_term(x) if elem == "int" else ops.seq_term(x))
            parts.append(z3.If(as_bool_term(conds[i]), u, z3.Empty(srt)) if i in conds else u)
        t = parts[0] if len(parts) == 1 else (z3.Concat(*parts) if parts else z3.Empty(srt))
        return _CondSeq(SSeq(t, "tuple", elem))      # not simplified: z3 would hoist the conditions (2^n cases)

    def ev_ListComp(self, node, fr):
        try:
            r = self.comp_items(node, fr, lambda f: self.ev(node.elt, f), cond_ok=True)
            if isinstance(r, _CondSeq):
                return ListObj(seq=SSeq(r.seq.t, "list", r.seq.elem))
            return ListObj(items=r)
        except _SymbolicComp as sc:
            from pyvc import lib
            return lib.symbolic_comp(self, node, fr, sc, "list")

    def ev_GeneratorExp(self, node, fr):
        try:
            r = self.comp_items(node, fr, lambda f: self.ev(node.elt, f), cond_ok=True)
            if isinstance(r, _CondSeq):
                return _GenOutIter(r.seq)
            return GenIter(r)
        except _SymbolicComp as sc:
            from pyvc import lib
            return lib.symbolic_comp(self, node, fr, sc, "gen")

    def ev_SetComp(self, node, fr):
        try:
            return _SetLit(tuple(self.comp_items(node, fr, lambda f: self.ev(node.elt, f))))
        except _SymbolicComp as sc:
            from pyvc import lib
            return lib.symbolic_comp(self, node, fr, sc, "set")

    def ev_DictComp(self, node, fr):
        try:
            pairs = self.comp_items(node, fr, lambda f: (self.ev(node.key, f), self.ev(node.value, f)))
        except _SymbolicComp as sc:
            from pyvc import lib
            return lib.symbolic_comp(self, node, fr, sc, "dict")
        d = DictObj(None, None, None, None, None, name=self.fresh_name("dict"))
        for k, v in pairs:
            self.dict_store(d, k, v)
        return d


class _CondSeq:
    """result of a comprehension over a concrete iterable with filters the path does not decide"""

    def __init__(self, seq):
        self.seq = seq


class _SymbolicComp(Exception):
    def __init__(self, it, gen):
        self.it = it
        self.gen = gen


class _Unbound:
    def __repr__(self):
        return "<unbound>"


_UNBOUND = _Unbound()


class _SetLit:
    def __init__(self, items):
        self.items = tuple(items)


class _Reversed:
    def __init__(self, seq):
        self.seq = seq


class _Enumerate:
    def __init__(self, inner, start=0):
        self.inner = inner
        self.start = start


class _Zip:
    def __init__(self, parts):
        self.parts = parts


class _Range:
    def __init__(self, start, stop, step=1):
        self.start = start
        self.stop = stop
        self.step = step


class _Partition:
    """toolz.partition(n, s) / partition_all(n, s) with len(s) a multiple of n: tuples of n consecutive elements"""

    def __init__(self, n, seq):
        self.n = n
        self.seq = seq


class _Super:
    def __init__(self, fr):
        self.fr = fr


class _GenOutIter:
    """symbolic result of an eager generator: a sequence value"""

    def __init__(self, seq):
        self.seq = seq


class _GenOut:
    """accumulator of a generator whose yields happen inside a cut loop: a symbolic sequence"""

    def __init__(self, E, prefix_items, desc):
        self.desc = desc
        if desc[0] == "aseq":
            n = E.fresh_name("yield")
            self.val = ASeq(z3.Const(n + ".a", z3.ArraySort(IntS, IntS)), z3.IntVal(0), desc[1])
            for x in prefix_items:
                self.append(x)
        else:
            elem = desc[2]
            self.val = SSeq(z3.Empty(SeqI if elem == "int" else SeqSeqI), desc[1], elem)
            for x in prefix_items:
                self.append(x)

    def reset(self, E):
        self.val = E.fresh_of(self.desc, "yield")

    def append(self, x):
        if isinstance(self.val, ASeq):
            self.val = ASeq(z3.Store(self.val.arr, self.val.n, as_int_term(x)), z3.simplify(self.val.n + 1), self.val.kind)
        else:
            unit = z3.Unit(as_int_term(x) if self.val.elem == "int" else ops.seq_term_as(x, "int"))
            self.val = SSeq(z3.simplify(z3.Concat(self.val.t, unit)), self.val.kind, self.val.elem)

    def extend_sym(self, E, other):
        if isinstance(other, _GenOutIter):
            other = other.seq
        if isinstance(self.val, SSeq) and isinstance(other, SSeq):
            self.val = SSeq(z3.simplify(z3.Concat(self.val.t, other.t)), self.val.kind, self.val.elem)
            return
        raise Unsupported("yield from symbolic into this accumulator")

    def __bool__(self):
        return True


def _is_pure_atom(node):
    return node is not None and isinstance(node, (ast.Constant, ast.Name))


def _contains_yield(st):
    for n in ast.walk(st):
        if isinstance(n, (ast.Yield, ast.YieldFrom)):
            return True
    return False


def _as_load(t):
    if isinstance(t, ast.Name):
        return ast.Name(id=t.id, ctx=ast.Load())
    if isinstance(t, ast.Attribute):
        return ast.Attribute(value=t.value, attr=t.attr, ctx=ast.Load())
    if isinstance(t, ast.Subscript):
        return ast.Subscript(value=t.value, slice=t.slice, ctx=ast.Load())
    raise Unsupported("augmented assignment target")


def _kind_of(v):
    if isinstance(v, (bytes,)) or (isinstance(v, SSeq) and v.kind == "bytes" and v.elem == "int"):
        return "bytes"
    if isinstance(v, tuple) or (isinstance(v, SSeq) and v.kind == "tuple" and v.elem == "int"):
        return "tuple"
    if isinstance(v, (bool, SBool)):
        return "bool"
    if isinstance(v, (int, SInt)):
        return "int"
    return "py"
