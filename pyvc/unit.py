"""Contracts and the per-unit verification driver.

A contract is a set of behavioural *cases* over the pre-state:  when <guard> the call returns a value with
<ensures> / raises <class>, with <post> on the final state and a frame (`modifies`).  The same contract is used
in two ways:
  * unit mode  -- the real function body is executed symbolically on every path and each path's outcome is
    checked against every case whose guard it can satisfy (one obligation per clause and path);
  * callee mode -- a call to the function from another unit is replaced by the contract: the caller proves
    `requires`, forks over the feasible cases, havocs `modifies`, assumes `ensures`/`post`.
"""
import os as _os
import time
import traceback

import z3

from pyvc import ops
from pyvc.interp import Engine, Fork, PathEnd, Obligation, LoopSpec, BoundMethod, _Ret
from pyvc.sym import (SInt, SBool, SSeq, ASeq, SPy, Obj, ListObj, DictObj, ExcObj, PyRaise, V, EngineError, Unsupported,
                      as_bool_term, mk_bool, reset_oids)
from pyvc.modules import FuncVal, Wrapped, ClassVal


class Ctx:
    """arguments by name, pre-state snapshot, and (in unit mode) the outcome"""

    def __init__(self, E, args):
        self.E = E
        self.__dict__.update(args)
        self.args = dict(args)
        self.snap = Snapshot(args.values())

    def old_has(self, d):
        return self.snap.dicts[id(d)][0]

    def old_val(self, d):
        return self.snap.dicts[id(d)][1]

    def old_field(self, o, name):
        return self.snap.fields[id(o)].get(name)

    def old_items(self, lst):
        return self.snap.lists[id(lst)]


class Snapshot:
    def __init__(self, roots):
        self.dicts = {}
        self.fields = {}
        self.lists = {}
        self.objs = {}
        self.writes = {}
        seen = set()
        stack = list(roots)
        while stack:
            v = stack.pop()
            if id(v) in seen:
                continue
            if isinstance(v, DictObj):
                seen.add(id(v))
                self.dicts[id(v)] = (v.has, v.val)
                self.writes[id(v)] = v.writes
                self.objs[id(v)] = v
            elif isinstance(v, Obj):
                seen.add(id(v))
                self.fields[id(v)] = dict(v.fields)
                self.objs[id(v)] = v
                stack.extend(v.fields.values())
            elif isinstance(v, ListObj):
                seen.add(id(v))
                self.lists[id(v)] = (list(v.items) if v.items is not None else None, v.seq)
                self.objs[id(v)] = v
                if v.items is not None:
                    stack.extend(v.items)
            elif isinstance(v, tuple):
                stack.extend(v)


class Case:
    def __init__(self, name, when=True, returns=None, rtype=None, ensures=None, raises=None, exc=None, post=None,
                 modifies=None, make=None):
        self.name = name
        self.when = when            # cond (bool | SBool) over the pre-state
        self.returns = returns      # exact result: callable() -> value   (NORESULT: not specified)
        self.rtype = rtype          # type descriptor for a fresh result (callee mode) when `returns` is absent
        self.ensures = ensures      # callable(result) -> [(name, cond)]
        self.raises = raises        # exception class
        self.exc = exc              # callable(excobj) -> [(name, cond)]  /  in callee mode: exc args via make
        self.post = post            # callable() -> [(name, cond)] over the final state
        self.modifies = modifies    # list of heap objects / (obj, field) that may change (None = nothing)
        self.make = make            # callee mode: callable() -> value or ExcObj args, when not derivable


class Contract:
    def __init__(self, qualname, params, cases, requires=None, setup=None, props=(), loops=None, inline=(),
                 tables=(), note="", body_model=None, frame_roots=None, callee=True, target=None, verify=True,
                 justified_by=None):
        self.qualname = qualname          # id of the contract (= the function's qualname for callee contracts)
        self.target = target or qualname  # module:qualname of the function it is about
        self.params = params
        self.cases_fn = cases
        self.requires = requires
        self.setup = setup
        self.props = tuple(props)
        self.loops = loops or {}
        self.inline = set(inline)
        self.tables = tuple(tables)
        self.note = note
        self.body_model = body_model
        self.frame_roots = frame_roots
        self.as_context = None
        self.verify = verify        # False: callee-only contract, justified by the lemma named in justified_by
        self.justified_by = justified_by
        self.callee = callee        # False: the contract only describes the function under a unit-mode precondition

    # -- callee mode -----------------------------------------------------------------------------
    def apply(self, E, f, args, kwargs):
        names = list(self.params)
        vals = {}
        for n, v in zip(names, args):
            vals[n] = v
        for k, v in kwargs.items():
            vals[k] = v
        for n in names:
            if n not in vals:
                fn = f.func if isinstance(f, Wrapped) else f
                vals[n] = _default_of(E, fn, n)
        from pyvc import lib as _lib
        for n in list(vals):
            if isinstance(vals[n], SPy):
                try:
                    vals[n] = _lib.refine(E, vals[n])      # typed view when the path has established the type
                except _lib.UseBeforeValidation:
                    pass
        ctx = Ctx(E, vals)
        short = self.qualname.split(":")[1]
        if self.requires is not None:
            for (name, c) in self.requires(E, ctx):
                E.prove("call %s/requires:%s" % (short, name), c, kind="call")
        try:
            cases = self.cases_fn(E, ctx)
        except (KeyError, AttributeError, TypeError, IndexError) as e:
            # the contract was written for a different shape of arguments (e.g. another kind of store object):
            # the unit leaves the supported subset, it is not a verdict
            raise Unsupported("contract of %s does not apply to these arguments: %r" % (self.qualname, e))
        k = E.choose([c.when for c in cases])
        case = cases[k]
        for o in (case.modifies or []):
            if isinstance(o, tuple):
                obj, field = o
                obj.fields[field] = E.fresh_of(_desc_of(obj.fields.get(field)), field)
            else:
                E.check_mut(o)
                E.havoc_obj(o)
                if isinstance(o, DictObj):
                    o.writes += 1
        if case.raises is not None:
            ex = case.make() if case.make is not None else ExcObj(case.raises, ())
            if not isinstance(ex, ExcObj):
                ex = ExcObj(case.raises, tuple(ex))
            if case.post is not None:
                for (name, c) in case.post():
                    E.assume(c)
            raise PyRaise(ex)
        if case.returns is not None:
            res = _unwrap_is(case.returns())
        elif case.make is not None:
            res = case.make()
        elif case.rtype is not None:
            res = E.fresh_of(case.rtype, short.split(".")[-1] + ".r") if not callable(case.rtype) else case.rtype()
        else:
            res = None
        if case.ensures is not None:
            for (name, c) in case.ensures(res):
                E.assume(c)
        if case.post is not None:
            for (name, c) in case.post():
                E.assume(c)
        return res


def _unwrap_is(v):
    if isinstance(v, Is):
        return v.obj
    if isinstance(v, tuple):
        return tuple(_unwrap_is(x) for x in v)
    if v is NOTHING:
        return None
    return v


def _default_of(E, fn, name):
    a = fn.node.args
    params = [p.arg for p in a.posonlyargs + a.args]
    if name in params:
        i = params.index(name)
        k = i - (len(params) - len(a.defaults))
        if k >= 0:
            return E.eval_default(fn, a.defaults[k])
    for p, d in zip(a.kwonlyargs, a.kw_defaults):
        if p.arg == name and d is not None:
            return E.eval_default(fn, d)
    raise Unsupported("no value for parameter %s of %s" % (name, fn.qualname))


def _desc_of(v):
    if isinstance(v, (bool, SBool)):
        return "bool"
    if isinstance(v, (int, SInt)):
        return "int"
    if isinstance(v, (SSeq, bytes, tuple)):
        return ("seq", ops.seq_kind(v), ops.seq_elem(v) or "int")
    return "py"


# -------------------------------------------------------------------------------------------------
# unit mode

class UnitResult:
    def __init__(self, qualname):
        self.qualname = qualname
        self.obligations = []          # Obligation objects (all paths)
        self.paths = 0
        self.outcomes = 0
        self.infeasible = 0
        self.backedges = 0
        self.demoted = None            # reason string when the unit left the supported subset
        self.error = None              # engine crash (traceback)
        self.case_cover = {}
        self.code = {}                 # qualname -> fingerprint of the function bodies the unit executed
        self.seconds = 0.0
        self.solver_seconds = 0.0
        self.source = ""
        self.lineno = 0
        self.props = ()

    def clause_status(self):
        """obligation name -> aggregated status over paths"""
        agg = {}
        for o in self.obligations:
            cur = agg.get(o.name)
            rank = {"proved": 0, "unknown": 1, "refuted": 2}
            if cur is None or rank[o.status] > rank[cur]:
                agg[o.name] = o.status
        return agg


MAX_PATHS = 3000


def find_function(loader, qualname):
    modname, path = qualname.split(":")
    m = loader.load(modname)
    parts = path.split(".")
    v = m.ns.get(parts[0])
    for p in parts[1:]:
        if isinstance(v, ClassVal):
            v = v.lookup(p)
        else:
            v = None
    if v is None:
        raise Unsupported("function %s not found in the source" % qualname)
    return v


def verify_unit(loader, contract, registry, timeout_ms=20000, max_paths=MAX_PATHS, deadline=None, start=None,
                frontier=None):
    """symbolically execute the real function on every path and check it against its contract.
    start: list of (decisions, replay log) to explore instead of the root (a subtree handed to a worker);
    frontier: stop as soon as that many unexplored subtrees are pending and return them in res.pending
    (breadth-first), so that the driver can spread them over processes"""
    res = UnitResult(contract.qualname)
    res.pending = []
    res.props = contract.props
    t0 = time.time()
    try:
        target = find_function(loader, contract.target)
    except Unsupported as e:
        res.demoted = str(e)
        return res
    from pyvc.modules import PropertyVal
    fn = target
    if isinstance(fn, PropertyVal):
        fn = fn.fget
    base = fn
    while isinstance(base, Wrapped):
        base = base.func
    res.lineno = base.lineno
    res.source = "%s:%d" % (base.module.path, base.lineno)
    loops = dict(registry.loops)
    work = [([], [])] if start is None else list(start)
    only = _os.environ.get("PYVC_ONLY_PATH")
    if only is not None:
        work = [([int(c) for c in only], [])]
    while work:
        if frontier is not None and len(work) >= frontier:
            res.pending = work
            break
        if res.paths >= max_paths:
            res.demoted = "more than %d paths" % max_paths
            break
        if deadline is not None and time.time() > deadline:
            res.demoted = "time budget exhausted after %d paths" % res.paths
            break
        dec, replay = work.pop(0) if frontier is not None else work.pop()
        reset_oids()
        E = Engine(loader, dec, contracts=registry.contracts, loops=loops, unit=contract.target,
                   timeout_ms=timeout_ms, tables=registry.tables, inline=contract.inline, replay=replay)
        E.path_id = "".join(str(d) for d in dec)
        E.inner_pending = getattr(base, "wraps", None)
        try:
            run_path(E, contract, fn, res)
            res.paths += 1
        except Fork as f:
            if only is not None:
                print("  path %s forks %d ways" % (E.path_id, f.n))
                continue
            for k in reversed(range(f.n)):
                work.append((dec + [k], E.qlog))
            res.obligations.extend(E.obligations)       # obligations met before the fork: reported once, here
            continue
        except PathEnd as pe:
            res.paths += 1
            if pe.kind == "back-edge":
                res.backedges += 1
            else:
                res.infeasible += 1
        except Unsupported as e:
            # this path left the supported subset: the unit is demoted (not counted as proved), but the other paths
            # are still explored -- an obligation refuted there is still a finding
            res.demoted = "%s: %s" % (type(e).__name__, e)
            res.obligations.extend(E.obligations)
            res.unsupported_paths = getattr(res, "unsupported_paths", 0) + 1
            if res.unsupported_paths > 40:
                break
            continue
        except (PyRaise, _Ret) as e:
            res.error = "uncaught interpreter control flow: %r" % (e,)
            break
        except z3.Z3Exception as e:
            res.error = "z3: %s\n%s" % (e, traceback.format_exc())
            break
        except Exception:
            res.error = traceback.format_exc()
            break
        finally:
            res.solver_seconds += E.solver_seconds
            res.code.update(E.executed)
        res.obligations.extend(E.obligations)
    res.seconds = time.time() - t0
    return res


def run_path(E, contract, fn, res):
    short = contract.qualname.split(":")[1].split("#")[0]
    args = contract.setup(E)              # dict name -> value; assumes the precondition
    ctx = Ctx(E, args)
    if contract.requires is not None:
        for (name, c) in contract.requires(E, ctx):
            E.assume(c)
    argv = [args[p] for p in contract.params]
    outcome = None
    wf = getattr(contract, "witness", None)
    if wf is not None:
        E.witness_fn = lambda model: wf(E, ctx, model)
    E.depth = 0
    try:
        if contract.body_model is not None:
            value = contract.body_model(E, ctx, fn, argv)
        else:
            value = E.call(fn, argv)
        outcome = ("return", value)
    except PyRaise as pr:
        outcome = ("raise", pr.exc)
    res.outcomes += 1
    ctx.outcome = outcome
    cases = contract.cases_fn(E, ctx)
    # exhaustiveness of the case guards on this path
    cover = False
    for c in cases:
        cover = ops.s_or(cover, c.when if isinstance(c.when, (bool, SBool)) else ops.truth(c.when))
    E.prove("%s/cases-exhaustive" % short, cover, kind="contract")
    # The outcome of this path must be allowed: some case of the same kind (returns / raises a super-class of what
    # was raised) has a guard that holds.  Cases of the other kind may overlap ("may raise") and are not consulted.
    kind, val = outcome

    def compatible(c):
        if kind == "return":
            return c.raises is None
        return c.raises is not None and E.exc_matches(val, c.raises)
    comp = [c for c in cases if compatible(c)]
    allowed = False
    for c in comp:
        allowed = ops.s_or(allowed, c.when if isinstance(c.when, (bool, SBool)) else ops.truth(c.when))
    what = "returns" if kind == "return" else "raises-%s" % _cname(val.cls)
    E.prove("%s/outcome-allowed" % short, allowed, kind="contract",
            detail="the call %s %r where no case of the contract allows it (%s)"
                   % ("returned" if kind == "return" else "raised", val, what))
    for c in comp:
        if not E.feasible(c.when):
            continue
        res.case_cover[c.name] = res.case_cover.get(c.name, 0) + 1
        E.push()
        nfacts = len(E.facts)
        # the contracts memoise which unfoldings / lemma instances they have already added in E.ghost; the facts of
        # one case are withdrawn before the next case is checked, so the memo must be withdrawn with them
        ghost_saved = {k: (list(v) if isinstance(v, list) else dict(v) if isinstance(v, dict) else
                           set(v) if isinstance(v, set) else v) for k, v in E.ghost.items()}
        kt_saved = list(E.keccak_terms)
        try:
            E.assume(c.when)
            check_case(E, short, c, ctx, outcome)
        finally:
            del E.facts[nfacts:]
            del E.fact_small[nfacts:]
            E.pop()
            E.ghost.clear()
            E.ghost.update(ghost_saved)
            E.keccak_terms[:] = kt_saved


def check_case(E, short, c, ctx, outcome):
    kind, val = outcome
    tag = "%s/%s" % (short, c.name)
    if c.raises is not None:
        if kind != "raise":
            E.prove("%s:raises-%s" % (tag, _cname(c.raises)), False, kind="contract",
                    detail="returned %r instead of raising" % (val,))
            return
        ok = E.exc_matches(val, c.raises) and _same_class(val.cls, c.raises)
        E.prove("%s:raises-%s" % (tag, _cname(c.raises)), bool(ok), kind="contract",
                detail="raised %r" % (val,))
        if ok and c.exc is not None:
            for (name, cond) in c.exc(val):
                E.prove("%s:exc-%s" % (tag, name), cond, kind="contract")
    else:
        if kind != "return":
            E.prove("%s:returns" % tag, False, kind="contract", detail="raised %r" % (val,))
            return
        E.prove("%s:returns" % tag, True, kind="contract")
        if c.returns is not None:
            want = c.returns()
            E.prove("%s:result" % tag, result_eq(E, val, want), kind="contract",
                    detail="result %r, required %r" % (val, want))
        if c.ensures is not None:
            for (name, cond) in c.ensures(val):
                E.prove("%s:%s" % (tag, name), cond, kind="contract")
    if c.post is not None:
        for (name, cond) in c.post():
            E.prove("%s:%s" % (tag, name), cond, kind="contract")
    # frame: everything reachable from the arguments and not listed in `modifies` is unchanged
    allowed = set()
    for o in (c.modifies or []):
        allowed.add((id(o[0]), o[1]) if isinstance(o, tuple) else id(o))
    snap = ctx.snap
    for oid, (has, val_) in snap.dicts.items():
        d = snap.objs[oid]
        if oid in allowed:
            continue
        same = True
        if d.has is not has and not (d.has is not None and has is not None and d.has.eq(has)):
            same = mk_bool(d.has == has) if (d.has is not None and has is not None) else False
        if d.val is not val_ and not (d.val is not None and val_ is not None and d.val.eq(val_)):
            same = ops.s_and(same, mk_bool(d.val == val_) if (d.val is not None and val_ is not None) else False)
        if d.writes != snap.writes[oid]:
            same = False           # "never written": a write that restores the old content still counts
        E.prove("%s:frame-%s" % (tag, _objname(ctx, d)), same, kind="frame")
    for oid, fields in snap.fields.items():
        o = snap.objs[oid]
        changed = []
        for k in set(fields) | set(o.fields):
            if (oid, k) in allowed or oid in allowed:
                continue
            a, b = fields.get(k, _MISSING), o.fields.get(k, _MISSING)
            if a is b:
                continue
            changed.append((k, a, b))
        for (k, a, b) in changed:
            if a is _MISSING or b is _MISSING:
                cond = False
            else:
                try:
                    cond = result_eq(E, b, a)
                except Unsupported:
                    cond = False
            E.prove("%s:frame-%s.%s" % (tag, _objname(ctx, o), k), cond, kind="frame")
        if not changed:
            E.prove("%s:frame-%s" % (tag, _objname(ctx, o)), True, kind="frame")
    for oid, (items, seq) in snap.lists.items():
        lst = snap.objs[oid]
        if oid in allowed:
            continue
        if items is not None and lst.items is not None and len(items) == len(lst.items) and \
                all(x is y for x, y in zip(items, lst.items)):
            continue
        if seq is not None and lst.seq is not None and seq.t.eq(lst.seq.t):
            continue
        try:
            cond = ops.list_eq(lst, ListObj(items=items, seq=seq))
        except Unsupported:
            cond = False
        E.prove("%s:frame-list" % tag, cond, kind="frame")


_MISSING = object()


def _objname(ctx, o):
    for k, v in ctx.args.items():
        if v is o:
            return k
        if isinstance(v, Obj):
            for fk, fv in ctx.snap.fields.get(id(v), {}).items():
                if fv is o:
                    return "%s.%s" % (k, fk)
    return getattr(o, "name", "obj")


def _cname(c):
    return getattr(c, "__name__", None) or getattr(c, "name", str(c))


def _same_class(a, b):
    return True


def result_eq(E, got, want):
    """Python-level equality of a result with the required value, identity for heap objects"""
    if want is NOTHING:
        return True
    from pyvc import interp as _I
    if isinstance(got, _I.GenIter):
        got = tuple(got.items)                 # an (eagerly evaluated) generator is compared as the tuple it yields
    elif isinstance(got, _I._GenOutIter):
        got = got.seq
        if isinstance(got, SSeq) and got.kind != "tuple":
            got = SSeq(got.t, "tuple", got.elem, rng=got.rng)
    if isinstance(want, Is):
        if hasattr(want.obj, "t") and hasattr(got, "t") and type(got) is type(want.obj) and not isinstance(got, (SSeq, SInt, SBool)):
            return bool(got.t.eq(want.obj.t))      # an unexplored reference has no identity of its own: same term
        return got is want.obj
    if isinstance(got, tuple) and isinstance(want, tuple):
        if len(got) != len(want):
            return False
        r = True
        for a, b in zip(got, want):
            r = ops.s_and(r, result_eq(E, a, b))
        return r
    if (got is None) != (want is None) and not isinstance(got, SPy) and not isinstance(want, SPy):
        return False
    from pyvc import lib
    if isinstance(got, (lib.I._GenOutIter,)):
        got = got.seq
    r = ops.py_eq(got, want)
    # Python's == ignores the bytes/tuple distinction only through kinds, which py_eq checks
    return r


class Is:
    """required result: this very object (identity)"""

    def __init__(self, obj):
        self.obj = obj


NOTHING = object()


class Registry:
    def __init__(self):
        self.contracts = {}      # qualname -> Contract
        self.loops = {}          # (qualname, ordinal) -> LoopSpec
        self.tables = {}         # name -> TableSummary
        self.groups = {}         # group name -> [qualname]
        self.lemmas = {}         # name -> callable(E) (solver-level lemma obligations)

    def add_lemma(self, group, lemma):
        self.lemmas[lemma.qualname] = lemma
        self.groups.setdefault(group, []).append(lemma.qualname)
        return lemma

    def add(self, group, contract):
        self.contracts[contract.qualname] = contract
        self.groups.setdefault(group, []).append(contract.qualname)
        for k, v in contract.loops.items():
            self.loops[(contract.target, k)] = v
        return contract


class TableSummary:
    """closed form of a module-level constant table, validated exhaustively against the table that the real
    module builds (so a change to the table is seen) before it is used for a symbolic key.
    entries(table) must enumerate every (key, value) of the real table and `closed(key)` give the same value;
    lookup(E, key) returns the symbolic value, raising KeyError on the path where the key is outside the domain."""

    def __init__(self, module, const, closed, domain, lookup):
        self.module = module
        self.const = const
        self.closed = closed        # concrete key -> concrete value
        self.domain = domain        # list of all keys the table must have
        self.lookup_fn = lookup
        self._table = None

    def get_table(self, loader):
        if self._table is None:
            t = loader.load(self.module).ns.get(self.const)
            if not isinstance(t, dict):
                raise Unsupported("constant table %s.%s not found" % (self.module, self.const))
            dom = list(self.domain)
            if set(t.keys()) != set(dom) or any(t[k] != self.closed(k) for k in dom):
                raise Unsupported("table summary of %s.%s does not hold for the current source" % (self.module, self.const))
            self._table = t
        return self._table

    def lookup(self, E, key):
        return self.lookup_fn(E, key)


class Lemma:
    """a solver-level lemma over contracts / spec functions: fn(E) assumes hypotheses and calls E.prove(...)"""

    def __init__(self, name, props, fn, note=""):
        self.qualname = name
        self.props = tuple(props)
        self.fn = fn
        self.note = note

    def run(self, loader, registry, timeout_ms=20000):
        res = UnitResult(self.qualname)
        res.props = self.props
        res.source = "lemma"
        t0 = time.time()
        work = [([], [])]
        while work:
            dec, replay = work.pop()
            reset_oids()
            E = Engine(loader, dec, contracts=registry.contracts, loops=dict(registry.loops), unit=None,
                       timeout_ms=timeout_ms, tables=registry.tables, replay=replay)
            E.path_id = "".join(str(d) for d in dec)
            try:
                self.fn(E)
                res.paths += 1
                res.outcomes += 1
            except Fork as f:
                for k in reversed(range(f.n)):
                    work.append((dec + [k], E.qlog))
                res.obligations.extend(E.obligations)
                continue
            except PathEnd:
                res.paths += 1
                res.infeasible += 1
            except Unsupported as e:
                res.demoted = str(e)
                break
            except Exception:
                res.error = traceback.format_exc()
                break
            finally:
                res.solver_seconds += E.solver_seconds
                res.code.update(E.executed)
            res.obligations.extend(E.obligations)
        res.seconds = time.time() - t0
        return res
