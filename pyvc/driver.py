"""Deductive tier of one property check: verify every unit whose contract carries the property, compare with the
committed baseline, turn refuted baseline-proved obligations into violations (replayed on the real code where a
replay builder exists), and summarise for the evidence file."""
import json
import multiprocessing as mp
import os
import time
import traceback

from vtlib.env import VERIF, REPO

BASELINE = os.path.join(VERIF, "baseline", "obligations.json")

_STATE = {}


def _init():
    from pyvc import registry
    if "reg" not in _STATE:
        _STATE["reg"] = registry.build()
        _STATE["loader"] = registry.make_loader()
        # ordering hints only (which back end to ask first); they never change a verdict
        from pyvc import interp
        for u in load_baseline().values():
            interp._PREFER.update(u.get("backend_hints", {}))
    return _STATE["reg"], _STATE["loader"]


def _work(job):
    qual, timeout_ms, budget_s = job[:3]
    start = job[3] if len(job) > 3 else None
    t0 = time.time()
    try:
        reg, loader = _init()
        from pyvc.unit import verify_unit
        if qual in reg.lemmas:
            res = reg.lemmas[qual].run(loader, reg, timeout_ms)
        else:
            res = verify_unit(loader, reg.contracts[qual], reg, timeout_ms=timeout_ms, deadline=t0 + budget_s, start=start)
        return pack(res)
    except Exception:
        return {"unit": qual, "error": traceback.format_exc(), "obligations": [], "paths": 0, "outcomes": 0,
                "demoted": None, "seconds": time.time() - t0, "solver_seconds": 0.0, "source": "", "case_cover": {}, "code": {},
                "infeasible": 0, "backedges": 0}


def pack(res):
    return {
        "unit": res.qualname, "source": res.source, "paths": res.paths, "outcomes": res.outcomes,
        "infeasible": res.infeasible, "backedges": res.backedges, "demoted": res.demoted, "error": res.error,
        "seconds": round(res.seconds, 3), "solver_seconds": round(res.solver_seconds, 3),
        "case_cover": dict(res.case_cover), "code": dict(getattr(res, "code", {})),
        "obligations": [{"name": o.name, "status": o.status, "seconds": round(o.seconds, 4), "backend": o.backend,
                         "model": o.model, "path": o.path, "detail": o.detail, "kind": o.kind}
                        for o in res.obligations],
    }


def units_for(pid, reg):
    out = []
    for q, c in reg.contracts.items():
        if pid in c.props and c.verify:
            out.append(q)
    for q, l in reg.lemmas.items():
        if pid in l.props:
            out.append(q)
    return out


def load_baseline():
    if not os.path.exists(BASELINE):
        return {}
    with open(BASELINE) as f:
        return json.load(f).get("units", {})


def aggregate(obls):
    rank = {"proved": 0, "unknown": 1, "refuted": 2}
    agg = {}
    for o in obls:
        cur = agg.get(o["name"])
        if cur is None or rank[o["status"]] > rank[cur["status"]]:
            agg[o["name"]] = o
    return agg


HEAVY_FRONTIER = 24          # units are split into this many subtrees of their path tree


def _split(job):
    """explore the top of a unit's path tree breadth-first and return the partial result plus the pending subtrees"""
    qual, timeout_ms, budget_s = job
    t0 = time.time()
    try:
        reg, loader = _init()
        from pyvc.unit import verify_unit
        if qual in reg.lemmas:
            return pack(reg.lemmas[qual].run(loader, reg, timeout_ms)), []
        res = verify_unit(loader, reg.contracts[qual], reg, timeout_ms=timeout_ms, deadline=t0 + budget_s,
                          frontier=HEAVY_FRONTIER)
        return pack(res), res.pending
    except Exception:
        return {"unit": qual, "error": traceback.format_exc(), "obligations": [], "paths": 0, "outcomes": 0,
                "demoted": None, "seconds": time.time() - t0, "solver_seconds": 0.0, "source": "", "case_cover": {}, "code": {},
                "infeasible": 0, "backedges": 0}, []


def merge(parts):
    out = dict(parts[0])
    out["obligations"] = list(out["obligations"])
    out["case_cover"] = dict(out["case_cover"])
    out["code"] = dict(out.get("code", {}))
    for p in parts[1:]:
        out["obligations"].extend(p["obligations"])
        for k in ("paths", "outcomes", "infeasible", "backedges"):
            out[k] += p[k]
        out["solver_seconds"] = round(out["solver_seconds"] + p["solver_seconds"], 3)
        out["seconds"] = round(max(out["seconds"], p["seconds"]), 3)
        out["demoted"] = out["demoted"] or p["demoted"]
        out["error"] = out.get("error") or p.get("error")
        for k, v in p["case_cover"].items():
            out["case_cover"][k] = out["case_cover"].get(k, 0) + v
        out["code"].update(p.get("code", {}))
    return out


def run_units(quals, tier):
    """verify the units; a unit with many paths is split into subtrees of its path tree that are explored by
    different processes (every path is still explored exactly once)"""
    timeout_ms = 20000 if tier == "quick" else 120000
    budget = 600 if tier == "quick" else 3000
    jobs = [(q, timeout_ms, budget) for q in quals]
    if not jobs:
        return []
    if os.environ.get("PYVC_SERIAL"):
        return [_work(j) for j in jobs]
    ctx = mp.get_context("fork")
    nproc = 14
    with ctx.Pool(nproc) as pool:
        heads = list(pool.imap_unordered(_split, jobs))
        sub = []
        for (part, pending) in heads:
            for item in pending:
                sub.append((part["unit"], timeout_ms, budget, [item]))
        tails = list(pool.imap_unordered(_work, sub, chunksize=1)) if sub else []
    by_unit = {}
    for (part, _p) in heads:
        by_unit[part["unit"]] = [part]
    for t in tails:
        by_unit[t["unit"]].append(t)
    return [merge(v) for v in by_unit.values()]


def run_groups(pid, groups, tier, seed):
    reg, loader = _init()
    quals = units_for(pid, reg)
    t0 = time.time()
    results = run_units(quals, tier)
    base = load_baseline()
    # Second chance before rule (b) fires: a unit whose code changed and that has baseline-proved clauses the solvers
    # left open is run again with the long budget (a behaviour-preserving rewrite should not become an alarm just
    # because an obligation got slower).  Only what is still open after that is reported.
    if tier == "quick":
        again = []
        for r in results:
            u = r["unit"]
            if r.get("error") or not code_changes(base.get(u, {}).get("code"), r.get("code", {})):
                continue
            b = base.get(u, {}).get("clauses", {})
            agg = aggregate(r["obligations"])
            if any(o["status"] == "unknown" and b.get(n) == "proved" for n, o in agg.items()):
                again.append(u)
        if again:
            redo = {r["unit"]: r for r in run_units(again, "thorough")}
            results = [redo.get(r["unit"], r) for r in results]
    results.sort(key=lambda r: r["unit"])
    violations, errors = [], []
    n_ob = n_dis = 0
    by_backend = {}
    slow, undecided, refuted, demoted, units, samples = [], [], [], [], [], []
    vac = {"units": 0, "feasible_paths": 0, "uncovered_cases": []}
    solver_s = 0.0
    for r in results:
        u = r["unit"]
        if r.get("error"):
            changed = code_changes(base.get(u, {}).get("code"), r.get("code", {}))
            if changed:
                # the engine failed on code that differs from the baseline: it could not interpret the change -- the
                # unit leaves the supported subset (no verdict), it is not an error of the checker on this tree
                demoted.append({"unit": u, "reason": "engine failure on changed code (%s): %s"
                                % (", ".join(changed[:4]), r["error"].strip().splitlines()[-1][:200])})
                continue
            errors.append("pyvc engine error in %s:\n%s" % (u, r["error"]))
            continue
        agg = aggregate(r["obligations"])
        solver_s += r["solver_seconds"]
        n_ob += len(r["obligations"])
        n_dis += sum(1 for o in r["obligations"] if o["status"] == "proved")
        for o in r["obligations"]:
            if o["status"] == "proved":
                by_backend[o["backend"]] = by_backend.get(o["backend"], 0) + 1
            if o["seconds"] > 10:
                slow.append({"unit": u, "obligation": o["name"], "seconds": o["seconds"]})
        vac["units"] += 1
        vac["feasible_paths"] += r["outcomes"]
        units.append({"unit": u, "source": r["source"].replace(REPO + "/", ""), "paths": r["paths"],
                      "outcomes": r["outcomes"], "loop_back_edges": r["backedges"],
                      "obligations": len(r["obligations"]),
                      "discharged": sum(1 for o in r["obligations"] if o["status"] == "proved"),
                      "clauses": len(agg), "seconds": r["seconds"], "cases_reached": r["case_cover"]})
        if r["demoted"]:
            demoted.append({"unit": u, "reason": r["demoted"][:400]})
        if r["outcomes"] == 0 and not r["demoted"]:
            errors.append("pyvc: unit %s produced no outcome on any path (vacuous precondition?)" % u)
        if not r["obligations"] and not r["demoted"]:
            errors.append("pyvc: zero obligations generated for %s" % u)
        b = base.get(u, {}).get("clauses", {})
        for name, o in sorted(agg.items()):
            if len(samples) < 4 and o["status"] == "proved" and o["backend"] != "eval":
                samples.append({"obligation": "%s :: %s" % (u, name), "status": "proved", "backend": o["backend"],
                                "goal": o["detail"][:200]})
            if o["status"] == "unknown":
                undecided.append({"unit": u, "obligation": name, "path": o["path"], "why": o["detail"][-120:]})
                # undecided by the solvers, but a candidate counterexample that REPLAYS on the real code is a
                # demonstrated failure of a baseline-proved obligation
                rp = None
                if b.get(name) == "proved" and o.get("model") and o["model"].get("__candidate__"):
                    rp = try_replay(reg, u, name, o)
                    if rp:
                        violations.append({
                            "what": "obligation %s of %s (proved on the baseline tree) is no longer provable and the "
                                    "solver's candidate counterexample fails on the real code: %s" % (name, u, rp),
                            "case": {"unit": u, "obligation": name, "path": o["path"], "model": o["model"],
                                     "solver": "z3 (candidate model, validated by replay)", "detail": o["detail"],
                                     "replayed": rp},
                            "source": "deductive", "has_failing_input": True})
                # A clause discharged on the baseline tree that is no longer discharged *after the code this unit
                # executes has changed* is reported as a violation without a failing input (the weakest evidence
                # class: "passed on the unchanged tree and now fails").  The same `unknown` on unchanged code is a
                # solver flake and stays undecided.
                changed = code_changes(base.get(u, {}).get("code"), r.get("code", {}))
                if b.get(name) == "proved" and changed and not rp:
                    violations.append({
                        "what": "obligation %s of %s was discharged on the baseline tree and is no longer discharged "
                                "after a change to %s (solvers: unknown within the budget; no counterexample)"
                                % (name, u, ", ".join(changed[:6])),
                        "case": {"unit": u, "obligation": name, "path": o["path"], "model": None,
                                 "solver": "z3 / cvc5: unknown", "detail": o["detail"], "changed_code": changed},
                        "source": "deductive", "has_failing_input": False})
            elif o["status"] == "refuted":
                entry = {"unit": u, "obligation": name, "path": o["path"], "model": o["model"], "detail": o["detail"][:300],
                         "in_baseline": b.get(name) == "proved"}
                refuted.append(entry)
                if b.get(name) == "proved":
                    v = {"what": "obligation %s of %s, proved on the baseline tree, is refuted on the current source: %s"
                                 % (name, u, o["detail"][:200]),
                         "case": {"unit": u, "obligation": name, "path": o["path"], "model": o["model"],
                                  "solver": o["backend"], "detail": o["detail"]},
                         "source": "deductive", "has_failing_input": False}
                    rp = try_replay(reg, u, name, o)
                    if rp:
                        v["has_failing_input"] = True
                        v["case"]["replayed"] = rp
                        v["what"] += " -- replayed on the real code: " + rp
                    violations.append(v)
        # a baseline-proved clause that no longer exists because the unit was demoted is not a verdict
    ded = {
        "obligations": n_ob, "discharged": n_dis, "units": units, "by_backend": by_backend,
        "solver_seconds": round(solver_s, 2), "slow": slow[:20], "undecided": undecided[:50], "refuted": refuted[:50],
        "demoted": demoted, "vacuity": vac, "cross_checks": {}, "samples": samples,
        "wall_seconds": round(time.time() - t0, 1),
    }
    return ded, violations, errors


def code_changes(base_code, now_code):
    """names of the function bodies (executed by the unit) whose AST differs from the baseline's; None / empty when
    the baseline has no fingerprints or nothing changed"""
    if not base_code:
        return []
    out = []
    for k in sorted(set(base_code) | set(now_code)):
        if base_code.get(k) != now_code.get(k):
            out.append(k)
    return out


def try_replay(reg, unit, clause, o):
    c = reg.contracts.get(unit)
    fn = getattr(c, "replay", None) if c is not None else None
    if fn is None or not o.get("model"):
        return None
    try:
        return fn(o["model"], clause)
    except Exception:
        return None


def replay(pid, v):
    reg, loader = _init()
    case = v.get("case", {})
    u, name = case.get("unit"), case.get("obligation")
    if u is None:
        return None
    # re-run the unit and report whether the obligation is still refuted; then the concrete replay if there is one
    from pyvc.unit import verify_unit
    if u in reg.lemmas:
        res = reg.lemmas[u].run(loader, reg, 20000)
    else:
        res = verify_unit(loader, reg.contracts[u], reg)
    agg = res.clause_status()
    if agg.get(name) == "refuted":
        for o in res.obligations:
            if o.name == name and o.status == "refuted":
                rp = try_replay(reg, u, name, {"model": o.model})
                return "obligation %s of %s is refuted on the current tree%s" % (
                    name, u, (": " + rp) if rp else " (solver model: %s)" % (o.model,))
    return None


def write_baseline(properties):
    reg, loader = _init()
    quals = [q for q, c in reg.contracts.items() if c.verify] + list(reg.lemmas)
    results = run_units(quals, "quick")
    out = {}
    bad = 0
    for r in sorted(results, key=lambda r: r["unit"]):
        if r.get("error"):
            print("ERROR in %s: %s" % (r["unit"], r["error"].strip().splitlines()[-1]))
            bad += 1
            continue
        agg = aggregate(r["obligations"])
        hints = {}
        for o in r["obligations"]:
            if o["status"] == "proved" and o["backend"] in ("cvc5", "z3-ematch"):
                hints[o["name"]] = o["backend"]
        out[r["unit"]] = {"clauses": {k: v["status"] for k, v in sorted(agg.items()) if v["status"] == "proved"},
                          "paths": r["paths"], "obligations": len(r["obligations"]),
                          "backend_hints": hints, "code": r.get("code", {})}
        notp = [k for k, v in agg.items() if v["status"] != "proved"]
        print("%-60s %3d clauses proved, %d not proved%s" % (r["unit"], len(out[r["unit"]]["clauses"]), len(notp),
                                                             ("  DEMOTED " + r["demoted"][:80]) if r["demoted"] else ""))
        for k in notp:
            print("      %s: %s" % (agg[k]["status"], k))
    os.makedirs(os.path.dirname(BASELINE), exist_ok=True)
    with open(BASELINE, "w") as f:
        json.dump({"comment": "obligations (unit -> clause) proved on the tree as left (pinned tree + fix: commits); "
                              "regenerated by hand with ./vt baseline, never by a check", "units": out}, f, indent=1,
                  sort_keys=True)
        f.write("\n")
    print("baseline written: %d units" % len(out))
    return 0 if bad == 0 else 3
