"""All contracts, loop invariants and table summaries, grouped; built fresh for every run."""
import importlib

from vtlib.env import REPO
from pyvc.unit import Registry
from pyvc.modules import Loader

CONTRACT_MODULES = ["contracts.scratchdb_c", "contracts.reject_c", "contracts.nibbles_c", "contracts.binaries_c", "contracts.binnodes_c", "contracts.seqlemmas", "contracts.prefix_c", "contracts.binary_c", "contracts.branches_c", "contracts.hexary_c", "contracts.traverse_c", "contracts.fog_c", "contracts.iter_c", "contracts.smt_c", "contracts.getters_c"]


def make_loader():
    from pyvc.interp import Engine
    loader = Loader(REPO)
    loader.static_engine = Engine(loader)
    return loader


# pure functions (byte strings / tuples / ints in, value or exception out): a refuted obligation of one of these
# units is replayed on the real function with the solver's counterexample (pyvc/purereplay.py)
PURE_UNITS = [
    "trie.utils.nodes:encode_leaf_node", "trie.utils.nodes:encode_branch_node", "trie.utils.nodes:encode_kv_node",
    "trie.utils.nodes:parse_node", "trie.utils.nodes:get_common_prefix_length", "trie.utils.nodes:key_starts_with",
    "trie.utils.nibbles:encode_nibbles", "trie.utils.nibbles:decode_nibbles",
    "trie.utils.binaries:encode_from_bin_keypath", "trie.utils.binaries:decode_to_bin_keypath",
    "trie.validation:validate_is_bytes#refused", "trie.validation:validate_length#refused",
]


def build():
    reg = Registry()
    for name in CONTRACT_MODULES:
        mod = importlib.import_module(name)
        mod.register(reg)
    from pyvc import purereplay
    for q in PURE_UNITS:
        c = reg.contracts.get(q)
        if c is not None and getattr(c, "witness", None) is None and c.setup is not None:
            purereplay.attach(c)
    return reg
