"""All contracts, loop invariants and table summaries, grouped; built fresh for every run."""
import importlib

from vtlib.env import REPO
from pyvc.unit import Registry
from pyvc.modules import Loader

CONTRACT_MODULES = ["contracts.scratchdb_c", "contracts.reject_c", "contracts.nibbles_c", "contracts.binaries_c", "contracts.binnodes_c", "contracts.seqlemmas", "contracts.prefix_c", "contracts.binary_c", "contracts.branches_c", "contracts.hexary_c", "contracts.traverse_c", "contracts.fog_c", "contracts.iter_c", "contracts.smt_c"]


def make_loader():
    from pyvc.interp import Engine
    loader = Loader(REPO)
    loader.static_engine = Engine(loader)
    return loader


def build():
    reg = Registry()
    for name in CONTRACT_MODULES:
        mod = importlib.import_module(name)
        mod.register(reg)
    return reg
