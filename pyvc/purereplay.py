"""Generic counterexample replay for contracts of pure functions (arguments: byte strings, int tuples, ints, bools,
dynamically typed values of those kinds).

A refuted obligation comes with a solver model.  `witness` reads the argument values out of it; `replay` calls the
REAL function (CPython, the module imported from the tree under check) on those values and then evaluates the same
contract on the concrete arguments: the guards and the required result become ground terms that the solver decides at
once.  A disagreement between what the real function did and what the contract allows is reported with the input."""
import importlib
import json

import z3

from pyvc import model as M
from pyvc.sym import SSeq, SInt, SBool, SPy, ASeq, ExcObj, mk_bool, seq_const, to_pyval, Unsupported


def _enc(v):
    if isinstance(v, bytes):
        return {"b": v.hex()}
    if isinstance(v, tuple):
        return {"t": [_enc(x) for x in v]}
    if isinstance(v, bool) or v is None or isinstance(v, int):
        return {"v": v}
    return {"r": repr(v)}


def _dec(j):
    if "b" in j:
        return bytes.fromhex(j["b"])
    if "t" in j:
        return tuple(_dec(x) for x in j["t"])
    if "v" in j:
        return j["v"]
    raise ValueError("not replayable: %r" % (j,))


def witness(E, ctx, model):
    out = {}
    for name, v in ctx.args.items():
        if isinstance(v, (SSeq, SInt, SBool, SPy)):
            val = M.value(model, v)
        elif isinstance(v, (bytes, int, bool, tuple)) or v is None:
            val = v
        else:
            return None                    # heap objects / arrays: no generic replay
        e = _enc(val)
        if "r" in json.dumps(e) and '"r"' in json.dumps(e):
            return None
        out[name] = e
    return {"args": out}


def _real_function(target):
    mod, qual = target.split(":")
    obj = importlib.import_module(mod)
    for part in qual.split("."):
        obj = getattr(obj, part)
    return obj


def _concrete_like(proto, val):
    if isinstance(proto, SPy):
        return SPy(to_pyval(val))
    if isinstance(proto, SSeq):
        return SSeq(seq_const(val), proto.kind, proto.elem, rng=proto.rng)
    if isinstance(proto, (SInt, SBool)):
        return val
    return val


def make_replay(contract):
    def replay(model, clause):
        w = (model or {}).get("__witness__")
        if not w or "args" not in w:
            return None
        try:
            args = {k: _dec(v) for k, v in w["args"].items()}
        except ValueError:
            return None
        fn = _real_function(contract.target)
        try:
            got = ("return", fn(**args))
        except Exception as e:                       # the real function's own exception is the observation
            got = ("raise", e)
        # evaluate the contract on the concrete arguments
        from pyvc import registry, ops
        from pyvc.interp import Engine
        from pyvc.unit import Ctx, result_eq
        reg, loader = registry.build(), registry.make_loader()
        E = Engine(loader, [], contracts=reg.contracts, loops=dict(reg.loops), unit=None, timeout_ms=5000, tables=reg.tables)
        proto = contract.setup(E)
        cargs = {k: _concrete_like(proto.get(k), v) for k, v in args.items()}
        ctx = Ctx(E, cargs)
        cases = contract.cases_fn(E, ctx)
        live = [c for c in cases if c.when is True or (c.when is not False and E.implied(c.when))]
        if not live:
            return None
        allowed = []
        for c in live:
            if c.raises is not None:
                allowed.append("raise %s" % getattr(c.raises, "name", getattr(c.raises, "__name__", c.raises)))
                if got[0] == "raise" and _exc_is(got[1], c.raises):
                    return None
            else:
                if got[0] != "return":
                    allowed.append("return")
                    continue
                if c.returns is None:
                    return None
                want = c.returns()
                try:
                    eq = result_eq(E, _to_engine(got[1]), want)
                except Unsupported:
                    return None
                if eq is True or (eq is not False and E.implied(eq)):
                    return None
                if not (eq is False or E.implied(ops.s_not(eq))):
                    return None                         # could not decide: no replay
                allowed.append("return %s" % _show(E, want))
        shown = ", ".join("%s=%r" % kv for kv in args.items())
        what = ("returned %r" % (got[1],)) if got[0] == "return" else ("raised %s" % type(got[1]).__name__)
        return "real %s(%s) %s; the contract allows only: %s" % (contract.target.split(":")[1], shown, what,
                                                                  " | ".join(allowed) or "nothing")
    return replay


def _exc_is(exc, cls):
    want = getattr(cls, "name", getattr(cls, "__name__", str(cls)))
    return any(k.__name__ == want for k in type(exc).__mro__)


def _to_engine(v):
    return v


def _show(E, want):
    try:
        if isinstance(want, SSeq):
            t = z3.simplify(want.t)
            return str(t)[:120]
    except Exception:
        pass
    return repr(want)[:120]


def attach(contract):
    contract.witness = witness
    contract.replay = make_replay(contract)
