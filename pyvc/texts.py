"""Per-property wording for MANIFEST.json and the evidence files.  Kept next to the engine so that
what is claimed is edited together with what is built.  `proof_complete` is set only when every
clause of the property is carried by discharged obligations (plus Lean lemmas) with no bounded-only
unit in between; until then the level is `other` whatever the obligation count."""

from vtlib.registry import A_HASH, A_RLP, A_PY

COMMON_TECH = ("contract-based deductive verification: VCs generated from the real AST of /repo/trie on every run "
               "(pyvc), sidecar contracts, discharged by z3 with cvc5 as second back end")

_BOUNDED_NOTE = (" Units not (yet) under a discharged contract are decided only by the bounded stand-in (run-time "
                 "oracles on the real functions over the enumerated scope recorded in the evidence), which is labelled "
                 "bounded and never counted as proved.")


def _p(level, technique, level_text, level_note, explanation, assumptions, trusted, not_decided=(), complete=False):
    return dict(level=level, technique=technique, level_text=level_text, level_note=level_note,
                explanation=explanation, assumptions=list(assumptions), trusted_base=list(trusted),
                not_decided=list(not_decided), proof_complete=complete)


PROPERTY_TEXT = {}


def _default(pid, what):
    PROPERTY_TEXT[pid] = _p(
        "other",
        COMMON_TECH + "; spec-level lemmas in Lean 4; bounded run-time stand-in for units without a discharged contract",
        "Mixed: obligations generated from the current source of the units listed in the evidence are discharged "
        "for all inputs; the remaining units of the property are decided by the bounded stand-in only. " + what,
        "Trusted: " + A_HASH + "; " + A_RLP + "; " + A_PY + "." + _BOUNDED_NOTE,
        "Level `other` because the property is decided by a combination: discharged obligations on the units under "
        "contract (counted in obligations/discharged), Lean lemmas re-checked on this run, and a bounded stand-in "
        "(evaluations/distinct_nontrivial) for everything else. " + what,
        [A_HASH, A_RLP, A_PY],
        [A_HASH, A_RLP, A_PY, "z3 4.x/5.x and cvc5 as solvers; Lean 4 kernel for spec lemmas"],
    )


for _pid, _what in {
    "C01": "Map behaviour of HexaryTrie under every history.",
    "C02": "Root hash is the Yellow-Paper root; uniqueness of the canonical trie and `YP => canonical` are Lean theorems (H.lean).",
    "C03": "Merkle proofs complete and sound.",
    "C04": "Non-pruning tries only add content-addressed entries.",
    "C05": "squash_changes is all-or-nothing.",
    "C06": "Pruning is exact; reference counts are true.",
    "C07": "Missing nodes: atomic failure and truthful report.",
    "C08": "traverse / traverse_from describe the canonical node at every path.",
    "C09": "Fog-guided walk finds everything (safety); termination is observed by the bounded harness only.",
    "C10": "NodeIterator order and strict successor.",
    "C11": "HexaryTrieFog set semantics, immutability, queries.",
    "C12": "BinaryTrie map with canonical root; uniqueness of the canonical binary trie is a Lean theorem (B.lean).",
    "C13": "Binary branches and witnesses.",
    "C14": "SparseMerkleTree root and branches; frame / default / fold lemmas are Lean theorems (S.lean).",
    "C15": "SparseMerkleProof stays in sync; sibling lemmas are Lean theorems (S.lean).",
    "C16": "Encodings are exact bijections matching their specifications.",
    "C17": "ScratchDB buffers and commits atomically.",
    "C18": "Invalid arguments are rejected up front and change nothing.",
}.items():
    _default(_pid, _what)

PROPERTY_TEXT["C09"]["not_decided"] = [
    "termination of the walk ('always terminates with the fog complete'): liveness over all schedules is outside "
    "what function contracts express; observed by the bounded harness, not claimed"]

MANIFEST_NOTES = (
    "Technique family: contract-based deductive verification of the real code. pyvc re-reads /repo/trie/*.py with "
    "ast on every run, symbolically executes the functions under contract against sidecar contracts in "
    "/verif/contracts, and discharges one obligation per contract clause and path with z3 (cvc5 second). Spec-level "
    "lemmas (canonical-trie uniqueness, Yellow-Paper construction, fog ordering, sparse-Merkle frame) are Lean 4 "
    "theorems under /verif/spec/lean, re-checked by every check that uses them. Units outside the prover's reach are "
    "decided by a bounded stand-in that runs the real functions against independent oracles; it is labelled bounded "
    "in every evidence file and never counted as proved. Exit codes: 0 held / 1 violation / 3 checker error; an "
    "undecided obligation (unknown, timeout) never maps to 1. Genuine defects found on the pinned tree (D1-D3) were "
    "repaired by two fix: commits in /repo and are recorded as fixed in /verif/known_findings.json. "
    "VT_REPO=<dir> points the same checks at a scratch worktree (used only to test the machinery against seeded changes)."
)

NOT_APPLICABLE = []
