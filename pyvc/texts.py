"""Per-property wording for MANIFEST.json and the evidence files.  Kept next to the engine so that
what is claimed is edited together with what is built.  `proof_complete` is set only when every
clause of the property is carried by discharged obligations (plus Lean lemmas) with no bounded-only
unit in between; until then the level is `other` whatever the obligation count."""

from vtlib.registry import A_HASH, A_RLP, A_PY

COMMON_TECH = ("contract-based deductive verification: VCs generated from the real AST of /repo/trie on every run "
               "(pyvc), sidecar contracts, discharged by z3 with cvc5 as second back end")

_BOUNDED_NOTE = (" Units not (yet) under a discharged contract are decided only by the bounded stand-in (run-time "
                 "oracles on the real functions over the enumerated scope recorded in the evidence), which is labelled "
                 "bounded and never counted as proved.")


def _p(level, technique, level_text, level_note, explanation, assumptions, trusted, not_decided=(), complete=False):
    return dict(level=level, technique=technique, level_text=level_text, level_note=level_note,
                explanation=explanation, assumptions=list(assumptions), trusted_base=list(trusted),
                not_decided=list(not_decided), proof_complete=complete)


PROPERTY_TEXT = {}


def _default(pid, what):
    PROPERTY_TEXT[pid] = _p(
        "other",
        COMMON_TECH + "; spec-level lemmas in Lean 4; bounded run-time stand-in for units without a discharged contract",
        "Mixed: obligations generated from the current source of the units listed in the evidence are discharged "
        "for all inputs; the remaining units of the property are decided by the bounded stand-in only. " + what,
        "Trusted: " + A_HASH + "; " + A_RLP + "; " + A_PY + "." + _BOUNDED_NOTE,
        "Level `other` because the property is decided by a combination: discharged obligations on the units under "
        "contract (counted in obligations/discharged), Lean lemmas re-checked on this run, and a bounded stand-in "
        "(evaluations/distinct_nontrivial) for everything else. " + what,
        [A_HASH, A_RLP, A_PY],
        [A_HASH, A_RLP, A_PY, "z3 4.x/5.x and cvc5 as solvers; Lean 4 kernel for spec lemmas"],
    )


for _pid, _what in {
    "C01": "Map behaviour of HexaryTrie under every history.",
    "C02": "Root hash is the Yellow-Paper root; uniqueness of the canonical trie and `YP => canonical` are Lean theorems (H.lean).",
    "C03": "Merkle proofs complete and sound.",
    "C04": "Non-pruning tries only add content-addressed entries.",
    "C05": "squash_changes is all-or-nothing.",
    "C06": "Pruning is exact; reference counts are true.",
    "C07": "Missing nodes: atomic failure and truthful report.",
    "C08": "traverse / traverse_from describe the canonical node at every path.",
    "C09": "Fog-guided walk finds everything (safety); termination is observed by the bounded harness only.",
    "C10": "NodeIterator order and strict successor.",
    "C11": "HexaryTrieFog set semantics, immutability, queries.",
    "C12": "BinaryTrie map with canonical root; uniqueness of the canonical binary trie is a Lean theorem (B.lean).",
    "C13": "Binary branches and witnesses.",
    "C14": "SparseMerkleTree root and branches; frame / default / fold lemmas are Lean theorems (S.lean).",
    "C15": "SparseMerkleProof stays in sync; sibling lemmas are Lean theorems (S.lean).",
    "C16": "Encodings are exact bijections matching their specifications.",
    "C17": "ScratchDB buffers and commits atomically.",
    "C18": "Invalid arguments are rejected up front and change nothing.",
}.items():
    _default(_pid, _what)

_DED = {
    "C01": "Discharged for all inputs (non-pruning configuration; ideal-hash reading): the read path -- get_node, _traverse_extension, _traverse_from (loop invariant with a ghost key suffix), _traverse, _get, get, exists, __getitem__, __contains__: get(k) = hlk(root node, nibbles(k)) on every database, raising only MissingTrieNode; and the write path -- _set, _delete, _normalize_branch_node (helpers _set_kv_node / _set_branch_node / _delete_kv_node / _delete_branch_node executed inside those units), _set_root_node, set, delete, __setitem__, __delitem__: after the call the root denotes the old mapping with k -> v (k removed for delete / set-to-empty), for an arbitrary probe key. The induction over histories is the composition of these per-call contracts. Reference counting of pruning tries (C06) and iteration over batches are not part of these units: squash_changes is under contract with the client block abstracted (C05); what pruning removes is decided by the bounded stand-in.",
    "C02": "Discharged: the write path preserves the full canonical form hwfp (extension only over a branch, no empty paths, every branch has at least two entries, a child is embedded iff its rlp is shorter than 32 bytes) -- clauses `well-formed` of _set / _delete / _normalize_branch_node; the reference rule (_create_node_to_db_mapping), the root rule (_set_root_node / _set_raw_node: root always hashed, blank root = BLANK_NODE_HASH), _persist_node, hex-prefix encoding = Yellow-Paper HP with round trip. Lean (H.lean): a canonical trie is unique for its contents and the Yellow-Paper construction yields it; together: root = YP root of the contents. The link `hwfp + view => equals the YP trie` is the Lean theorem, not a pyvc obligation.",
    "C03": "Discharged: soundness of get_from_proof -- for an arbitrary finite list of well-formed nodes offered as proof (loop over the proof with the scratch database under the store invariant) and an arbitrary root, the call returns hlk(root node, nibbles(key)), the value the root denotes in the ideal-hash reading, or raises BadTrieProof; get (the lookup it evaluates) as in C01. The consumer's half of completeness: every offered node is in the scratch database when the lookup starts (loop invariant at an arbitrary ghost position of the proof), and BadTrieProof is raised only while handling a MissingTrieNode whose hash is the hash of *no* offered node and which sits on the key's path below the claimed root (view equation for an arbitrary continuation) -- so any proof that holds every hashed node of the key's path is accepted and yields get(key). The producer's half: get_proof / _get_proof (recursive, proof tuple as a ghost pair of sets) return a proof that holds the root node and every hashed node a walk of the key dereferences (hneed, arbitrary ghost hash) and to which *exactly* the nodes on the key's path were added (onpath, arbitrary ghost node; embedded nodes included) -- `only nodes on that key's path`; a missing path node surfaces as get_node's KeyError. The two halves meet in one notion of `on the key's path`: the lookup's failure report carries, besides the view equation of C07, the structural clause `the missing hash is the root or is dereferenced by a walk of the key (hneed), and is not the blank root` -- proved through _traverse_from (new loop-invariant clause `what is needed below the current node is needed from the start`, arbitrary ghost hash), _traverse, _get, get / exists, and handed on by get_from_proof's BadTrieProof. Lemma proof_composition (z3, over exactly these contract clauses closed over their ghosts, plus the meaning of the proof tuple's ghost hash set): when the offered tuple is the one get_proof returned, the bad-proof case is impossible, hence get_from_proof(root, key, get_proof(key)) = hlk(root, key) = get(key). Not discharged: the order of the nodes in the tuple (no clause of the property needs it); malformed node bodies -- bounded only.",
    "C04": 'Discharged: every store write of _persist_node / _set_raw_node / _set_root_node is content-addressed and leaves an existing entry unchanged (store-write obligations at every db[k] = v reached in _set / _delete / set / delete), `store-only-grows` postconditions of the write path, squash_changes on a non-pruning trie (commit applies no deletes; an aborted block or a failing write leaves every old entry), _complete_pruning is a no-op without pruning, ScratchDB never writes the wrapped store while a batch is open, at_root yields a non-pruning snapshot over the same database at the requested root and leaves the trie untouched. That old roots stay *readable* follows from `store only grows` and the ideal-hash reading (what a root denotes does not depend on the database); several tries sharing one database are bounded only.',
    "C05": "Discharged: squash_changes with the client block modelled as an arbitrary sequence of operations on the batch trie (havoc of the batch trie constrained by its own contracts): normal exit adopts the batch root and commits the buffered writes (deletes only when pruning), exceptional exit and a failing write during commit leave root, store entries and reference counts as before; ScratchDB.batch_commit all-or-nothing. `no node that served only intermediate states is added` is bounded only.",
    "C06": "Discharged (for an arbitrary node hash g, ghost): the exactness invariant of a pruning trie -- count(g) = RC(root, g) = [root = g] + hrefs(node(root), g) (the number of references to g in the tree unfolding of the trie, what regenerate_ref_count recomputes) and `g is stored <=> count(g) >= 1` -- is preserved by set and delete (units set#pruning / delete#pruning), through: count-delta contracts of the recursive write path (_set / _delete / _normalize_branch_node on a pruning trie: count - pending changes by hrefs(result) - hrefs(argument) - [argument is g]; a node enters the store exactly when it is counted), _set_root_node#pruning (new root counted, a too-small old root marked), _prune_node, _persist_node / _set_raw_node counting with frames, _complete_pruning (dictionary-loop invariant: every pending prune applied exactly), squash_changes adopting the batch's counts. A failing set / delete leaves the counts untouched. Not discharged: that hrefs is what regenerate_ref_count computes (its work-list loop is not under contract), exactness across squash_changes batches as a whole (the batch trie's own operations are the same units, the composition is bounded), the initial state.",
    "C07": "Discharged: _traverse_from / _traverse / _get / get / exists raise MissingTraversalNode / MissingTrieNode only with a hash absent from the database, with the consumed prefix of the key, and such that the named node lies on the requested path right after that prefix (view equation for an arbitrary continuation) and, structurally, is the root or a hashed node the walk of the key dereferences (hneed; never the blank root); get names the root and the key; lookups modify nothing (frame obligations). Write path (non-pruning): a failing _set / _delete / set / delete has written nothing to the database and left the root unchanged (reads precede writes: _delete returns blank exactly when nothing was written), and names an absent hash with root and key. A failing _set / set names the root or a hashed node that a walk of the key dereferences (hneed). For a failing *delete* (which may also need the sibling a collapsing branch is merged with) the on-path clause, reference counts on failure of pruning tries, and the retry-converges clause are bounded only.",
    "C08": 'Discharged: _traverse_from / _traverse (the node reached holds exactly the keys below the consumed prefix -- view equation for an arbitrary continuation --, the remainder is a suffix of the key, a non-empty remainder lies strictly inside a leaf / extension path); annotate_node (type, sub-segments, value, suffix are the spec functions of the raw node; the branch comprehension is handled without a 2^16 case split); traverse, traverse_from and root_node: the returned annotated node is the node at that position, a TraversedPartialPath carries pieces that make up the path, the enclosing leaf / extension, a tail that runs (properly) into its path and a simulated node that is that node with the tail cut off; missing-node reports as in C07. `blank exactly when no stored key starts with the path` (needs: a non-blank canonical node holds a key) and `at most one database entry per child hop` are bounded only.',
    "C12": "Discharged: BinaryTrie._get = blk; _set: view clause for insert / delete / delete-subtrie on all paths, refusal exactly when the walk says so (brefuse), store only grows by content-addressed writes, insert never yields the blank root; get / exists / set / delete / delete_subtrie wrappers (root unchanged on refusal); every node written is canonical -- well formed, no blank child, and a kv node never directly over another kv node (store-write obligation `canonical-node` at every _hash_and_save; the store invariant assumes the same of every node read) -- so every root the trie produces denotes a canonical trie. That a canonical trie is unique for its contents (history independence, root = hash of the canonical encoding) is the Lean theorem B.lean; the two are combined outside pyvc.",
    "C13": "Discharged: unforgeability of if_branch_valid -- for an arbitrary finite list of well-formed node bodies offered as branch (the database rebuilt by the dictionary comprehension is shown to satisfy the binary store invariant) a True answer implies blk(root, bits(key)) = value, the value the root denotes; get_branch / _get_branch against their specification (the node bodies on the key's path, root first), with: a refused key (InvalidKeyError) is not stored, and the branch suffices for the lookup (in any store that has the yielded nodes the lookup finds every node it dereferences); check_if_branch_exist and get_trie_nodes against their specification functions; get_trie_nodes and _get_witness_for_key_prefix suffice for every lookup below the root / below the key prefix (in any store that has the returned bodies such a lookup finds every node it dereferences); BinaryTrie._get / get, parse_node and the node encoders. That the witness holds *only* nodes of the trie, malformed node bodies, and the reading of the specification functions as `some stored key starts with p` / `exactly the reachable nodes` (lemmas over the model) are bounded only.",
    "C14": "Discharged for every key size and default: SparseMerkleTree._get (loop invariant: the walk follows the key bits, the branch holds the siblings root to leaf), get / branch / exists / [] / in (a blank value reads as absent), set (bottom-up loop invariant: for an arbitrary probe key the new subtree reads as the old one except at the written key; the store only grows by content-addressed writes; the tree stays well formed), delete / []= / del [] (= set with the default), __init__ (every key reads as the default, tree well formed, store content addressed), from_db (database, root, key size and default are taken over), calc_root (reproduces the root of a consistent tree). Well-formedness -- every inner node is a pair of 32-byte hashes -- is a representation invariant: assumed on entry, proved on exit of __init__ and set. set and delete return the new path hashes root to leaf (each the on-path child of its predecessor, the first of the new root, the last the hash of the value). Not discharged: root = Merkle root of the full depth-8*key_size tree and its history independence (Lean S.lean + bounded), and the step from `same low D bits` to `same key` (bit extensionality).",
    "C15": "Discharged: SparseMerkleProof.update -- wrong key size and too-short update lists are refused before any assignment, an update of the tracked key changes only the value, any other update changes only the sibling at the first differing bit and reads only node_updates[branch_point] (bit operations through testbit / bxor, DESIGN 6.3); calc_root reproduces the root of a consistent tree from the leaf content and the siblings on the key's path. The synchronisation invariant with the tree over a stream of updates and the root_hash / branch / value properties are Lean S.lean + bounded.",
    "C16": "Discharged for all lengths: bytes_to_nibbles / nibbles_to_bytes (element-wise, array encoding) and their inverse lemmas; encode_nibbles = HP and decode_nibbles with hp_roundtrip; encode_to_bin / decode_from_bin with bits_roundtrip; key-path packing round trip (the two real functions executed back to back); encode_kv/branch/leaf_node and parse_node with every rejection case; get_node_type, extract_key, is_leaf_node, is_extension_node, compute_*_key.",
    "C17": "Discharged: every clause of the property on the six methods of ScratchDB, including the commit loop (invariant over the set of processed keys).",
    "C18": 'Discharged: 53 entry points of HexaryTrie (incl. get_from_proof, traverse, traverse_from), BinaryTrie, SparseMerkleTree, calc_root, SparseMerkleProof, the fog and the branch helpers raise the stated exception on ill-typed / ill-sized arguments (and a reference count handed to a non-pruning trie, a snapshot from a pruning trie, a key size outside 1..32) before any field, database entry or reference count is written.',
    "C10": "Discharged: NodeIterator._get_next_key (recursive; through traverse_from and its one-hop clause) returns traversed ++ kmin(node) -- kmin: a leaf's path, () at a branch with a value, otherwise the extension path / the first occupied nibble followed by the first key of that child -- or None when the node holds no key; kmin(node) is a key the node really stores and it is the *least* one: for an arbitrary probe key, stored => not smaller (definitional unfolding of the lexicographic order, instances of the Lean theorems Fog.lt_irrefl and Fog.lt_append_left, lemma first_is_first); next() without a key returns the byte string whose nibbles are kmin(root), a stored key with no stored key smaller, and None on the empty trie. Lemmas first_child / branch_step / prefix_first / unit_first / first_is_first proved once. Not discharged: next(k) = strict successor (_get_key_after), keys / items / values / nodes generators -- bounded only; the order of byte keys equals the order of their nibble sequences is the Lean theorem Fog.nibs_lt.",
    "C11": 'Discharged: HexaryTrieFog.__init__ (only the root prefix is unexplored), is_complete (true exactly when nothing is left), mark_all_complete (loop invariant: exactly the listed prefixes are removed, from a copy -- the receiver is never modified; an unknown prefix is refused), nearest_right / nearest_unknown (the answer is a member of the unexplored set, for nearest_right the prefix containing the key or one to its right; PerfectVisibility / FullDirectionalVisibility exactly when nothing is left / nothing to the right), _prefix_distance (element-wise differences with 15 / 0 padding). sortedcontainers.SortedSet, itertools.zip_longest and map are modelled as assumed library contracts. explore() (with its nested validation loops), serialize / deserialize, the antichain invariant and order independence (Lean F.lean) are bounded only.',
    "C09": 'Discharged: the library functions a fog-guided walk calls -- traverse, traverse_from (incl. one hop from a cached node reaches exactly its child), annotate_node, TraversedPartialPath and its simulated node (a node that describes the remainder: the enclosing leaf / extension with the tail cut off, same lookups below it), HexaryTrieFog.nearest_right / nearest_unknown (the answer is an unexplored prefix), mark_all_complete, is_complete. Lean F.lean walk_step: one step of the walk preserves `every key is either met or under an unexplored prefix`. TrieFrontierCache.__init__ / get / add / delete against a map view (nibble tuple -> (node, segment), arbitrary probe key): get answers what the last add that listed the prefix stored, KeyError otherwise; add(P, n, segs) enters P + s -> (n, s) for every listed s (loop invariant), drops the own entry of P unless P is the root prefix or is listed again, leaves every other entry alone; delete removes exactly one entry; and the representation invariant `the cached segment is a suffix of its key` (what makes traverse_from(node, segment) end at the prefix of the key) is kept by all of them. Not discharged by this technique: explore(), the walk as a whole over a changing trie (a property of histories of client steps), and termination -- bounded only.',
}
for _pid, _t in _DED.items():
    PROPERTY_TEXT[_pid]["level_text"] = PROPERTY_TEXT[_pid]["level_text"] + " DEDUCTIVE PART: " + _t
    PROPERTY_TEXT[_pid]["explanation"] = PROPERTY_TEXT[_pid]["explanation"] + " DEDUCTIVE PART: " + _t

A_SLOTS = ("raw hexary nodes: a child list stored in its parent's slot is the only aliasing between node lists (nodes "
           "come from rlp.decode, which builds fresh lists; the lru_cache'd _cached_create_node_to_db_mapping is "
           "protected by tuplify / listify in the real code -- assumed, not proved)")
A_SOLVERS = ("z3 4.x / 5.1 and cvc5 as solvers (a `sat` answer is only accepted with a validated model; the z3 5.1 "
             "incremental-mode defect described in DESIGN section 0 is worked around); Lean 4 kernel for the spec lemmas")
A_BITS = ("integer bit operations are read through uninterpreted testbit / bxor / pow2 with the facts stated in "
          "contracts/smt_c.py (2**0 = 1, 2**e >= 1, 2**e >> 1 = 2**(e-1), x & 2**e <=> testbit(x, e), bxor(x, y) = 0 "
          "<=> x = y); bit extensionality (same bits => same key) is not used by any obligation")
A_SORTED = ("sortedcontainers.SortedSet (membership + ascending order, copy / remove / bisect / index / len / in), "
            "itertools.zip_longest and map are modelled as assumed library contracts (contracts/fog_c.py)")
A_WFNODES = ("if_branch_valid / get_from_proof are decided for arbitrary lists of *well-formed* node bodies; bodies "
             "altered into malformed encodings are covered by the bounded tier only")
A_PROOFSET = ("get_proof's tuple of unknown length is modelled by two ghost sets (hashes of its members, members in the "
              "datatype view) that `tuple + (node,)` extends; lemma proof_composition assumes that a hash is in the set "
              "only if some offered node has it (the meaning of the ghost set), and takes the contract clauses closed "
              "over their ghost constants as hypotheses (each is proved for an arbitrary value of its ghost)")
A_CACHE = ("TrieFrontierCache: the cached node body is an opaque Python value (only its identity as a value matters); "
           "dictionary values are pairs (node, segment) modelled as a z3 datatype")
_EXTRA = {
    "C01": [A_SLOTS], "C02": [A_SLOTS], "C03": [A_SLOTS, A_WFNODES, A_PROOFSET], "C04": [A_SLOTS], "C05": [A_SLOTS],
    "C06": [A_SLOTS], "C07": [A_SLOTS], "C08": [A_SLOTS], "C09": [A_SLOTS, A_SORTED, A_CACHE], "C10": [A_SLOTS],
    "C11": [A_SORTED], "C13": [A_WFNODES], "C14": [A_BITS], "C15": [A_BITS],
}
for _pid in PROPERTY_TEXT:
    PROPERTY_TEXT[_pid]["assumptions"] = PROPERTY_TEXT[_pid]["assumptions"] + _EXTRA.get(_pid, []) + [A_SOLVERS]

PROPERTY_TEXT["C09"]["not_decided"] = [
    "termination of the walk ('always terminates with the fog complete'): liveness over all schedules is outside "
    "what function contracts express; observed by the bounded harness, not claimed"]

MANIFEST_NOTES = (
    "Technique family: contract-based deductive verification of the real code. pyvc re-reads /repo/trie/*.py with "
    "ast on every run, symbolically executes the functions under contract against sidecar contracts in "
    "/verif/contracts, and discharges one obligation per contract clause and path with z3 (cvc5 second). Spec-level "
    "lemmas (canonical-trie uniqueness, Yellow-Paper construction, fog ordering, sparse-Merkle frame) are Lean 4 "
    "theorems under /verif/spec/lean, re-checked by every check that uses them. Units outside the prover's reach are "
    "decided by a bounded stand-in that runs the real functions against independent oracles; it is labelled bounded "
    "in every evidence file and never counted as proved. Exit codes: 0 held / 1 violation / 3 checker error; an "
    "undecided obligation (unknown, timeout) on unchanged code never maps to 1; a clause discharged on the committed baseline "
    "that is refuted -- or no longer discharged after the code its unit executes has changed -- is a violation (the latter "
    "ends with no-failing-input-found). Genuine defects found on the pinned tree (D1-D3) were "
    "repaired by two fix: commits in /repo and are recorded as fixed in /verif/known_findings.json. "
    "VT_REPO=<dir> points the same checks at a scratch worktree (used only to test the machinery against seeded changes)."
)

NOT_APPLICABLE = []
