"""Reading concrete values out of a z3 model (for replaying a counterexample on the real code)."""
import z3

from pyvc.sym import SInt, SBool, SSeq, SPy, DictObj, PyVal, Sentinel


def ev(model, t):
    return model.eval(t, model_completion=True)


def seq_ints(model, t):
    """Seq Int term -> list of ints"""
    v = ev(model, t)
    n = ev(model, z3.Length(v)).as_long()
    out = []
    for i in range(min(n, 4096)):
        out.append(ev(model, v[i]).as_long())
    return out


def value(model, v):
    """engine value -> plain Python value (bytes for byte strings, tuples for tuples)"""
    if isinstance(v, SInt):
        return ev(model, v.t).as_long()
    if isinstance(v, SBool):
        return z3.is_true(ev(model, v.t))
    if isinstance(v, SSeq):
        if v.elem == "int":
            xs = seq_ints(model, v.t)
            if v.kind == "bytes":
                return bytes(x % 256 for x in xs)
            return tuple(xs)
        m = ev(model, v.t)
        n = ev(model, z3.Length(m)).as_long()
        return tuple(bytes(x % 256 for x in seq_ints(model, m[i])) for i in range(min(n, 512)))
    if isinstance(v, SPy):
        return pyval(model, v.t)
    if isinstance(v, tuple):
        return tuple(value(model, x) for x in v)
    return v


def pyval(model, t):
    m = ev(model, t)
    name = m.decl().name()
    if name == "PNone":
        return None
    if name == "PBool":
        return z3.is_true(m.arg(0))
    if name == "PInt":
        return m.arg(0).as_long()
    if name == "PBytes":
        return bytes(x % 256 for x in seq_ints(model, m.arg(0)))
    if name == "PTup":
        return tuple(seq_ints(model, m.arg(0)))
    if name == "PSentinel":
        return ("<sentinel>", m.arg(0).as_long())
    if name == "PStr":
        return "str#%d" % m.arg(0).as_long()
    if name == "PTupB":
        v = m.arg(0)
        n = ev(model, z3.Length(v)).as_long()
        return tuple(bytes(x % 256 for x in seq_ints(model, v[i])) for i in range(min(n, 512)))
    return ("<other>", str(m))


def dict_at(model, has, val, key_terms, dec):
    """content of a symbolic dictionary at the given key terms"""
    out = {}
    for kt in key_terms:
        if z3.is_true(ev(model, z3.Select(has, kt))):
            out[bytes(x % 256 for x in seq_ints(model, kt))] = dec(model, z3.Select(val, kt))
    return out


def interesting_keys(model, arrays, extra=()):
    """key terms worth looking at: the indices of the store chains in the model's array values + extras"""
    keys = list(extra)
    for a in arrays:
        m = ev(model, a)
        while z3.is_app(m) and m.decl().kind() == z3.Z3_OP_STORE:
            keys.append(m.arg(1))
            m = m.arg(0)
    uniq = []
    for k in keys:
        if not any(k.eq(u) for u in uniq):
            uniq.append(k)
    return uniq
