"""Symbolic value domain of pyvc.

Engine values are either plain Python objects (concrete ints, bools, None, bytes, str, tuples of
engine values, functions/classes of the interpreted modules) or instances of the classes below, which
wrap z3 terms.  Heap objects (lists, dicts, instances) have identity and are mutated in place; a
path is one deterministic run of the interpreter, so no copying is needed.

Sorts:  Int, Bool, Seq(Int) (bytes / tuples of ints), Seq(Seq(Int)) (tuples / lists of byte strings),
PyVal (a tagged union for dynamically typed values: arguments whose type has not been validated yet,
dictionary values that may be a sentinel), arrays for dictionaries.
"""
import z3

IntS = z3.IntSort()
BoolS = z3.BoolSort()
SeqI = z3.SeqSort(IntS)
SeqSeqI = z3.SeqSort(SeqI)

# ------------------------------------------------------------------------------------------------
# dynamically typed values
_PyVal = z3.Datatype("PyVal")
_PyVal.declare("PNone")
_PyVal.declare("PBool", ("pbool", BoolS))
_PyVal.declare("PInt", ("pint", IntS))
_PyVal.declare("PBytes", ("pbytes", SeqI))
_PyVal.declare("PTup", ("ptup", SeqI))          # tuple of ints
_PyVal.declare("PStr", ("pstr", IntS))           # opaque string, identified by a number
_PyVal.declare("PTupB", ("ptupb", SeqSeqI))      # tuple / list of byte strings
_PyVal.declare("PSentinel", ("psent", IntS))     # module-level sentinel objects (identity)
_PyVal.declare("POther", ("pother", IntS))       # any other object (list, dict, float, ...): opaque
PyVal = _PyVal.create()

# value of a dictionary that maps a nibble tuple to a pair (opaque object, nibble tuple): TrieFrontierCache._cache
_Entry = z3.Datatype("CacheEntry")
_Entry.declare("Entry", ("enode", PyVal), ("eseg", SeqI))
EntryS = _Entry.create()


class EngineError(Exception):
    """The interpreter met something outside its subset (=> the unit is demoted, never a verdict)."""


class Unsupported(EngineError):
    pass


class V:
    """base class of symbolic values"""
    __slots__ = ()


class SInt(V):
    __slots__ = ("t",)

    def __init__(self, t):
        self.t = t

    def __repr__(self):
        return "SInt(%s)" % self.t


class SBool(V):
    __slots__ = ("t",)

    def __init__(self, t):
        self.t = t

    def __repr__(self):
        return "SBool(%s)" % self.t


class SSeq(V):
    """kind: 'bytes' | 'tuple' | 'list*' (immutable view); elem: 'int' | 'bytes';
    rng: optional (lo, hi) known to bound every element (a byte string always has (0, 255)); the bound is added as
    a quantifier-free fact about each element that is read"""
    __slots__ = ("t", "kind", "elem", "rng")

    def __init__(self, t, kind="bytes", elem="int", rng=None):
        self.t = t
        self.kind = kind
        self.elem = elem
        if rng is None and kind == "bytes" and elem == "int":
            rng = (0, 255)
        self.rng = rng

    def __repr__(self):
        return "SSeq<%s,%s>(%s)" % (self.kind, self.elem, self.t)


class ASeq(V):
    """array-encoded sequence of ints (element-wise reasoning): arr: Array Int Int, n: Int"""
    __slots__ = ("arr", "n", "kind")

    def __init__(self, arr, n, kind="bytes"):
        self.arr = arr
        self.n = n
        self.kind = kind

    def __repr__(self):
        return "ASeq<%s>(%s,%s)" % (self.kind, self.arr, self.n)


class SPy(V):
    """dynamically typed symbolic value (PyVal term)"""
    __slots__ = ("t",)

    def __init__(self, t):
        self.t = t

    def __repr__(self):
        return "SPy(%s)" % self.t


class Sentinel:
    """module-level `object()` sentinels, e.g. trie.utils.db.DELETED"""
    _n = 0

    def __init__(self, name):
        Sentinel._n += 1
        self.num = Sentinel._n
        self.name = name

    def __repr__(self):
        return "<sentinel %s>" % self.name


_oid = [0]


def new_oid():
    _oid[0] += 1
    return _oid[0]


def reset_oids():
    _oid[0] = 0


class Obj:
    """instance of an interpreted class"""

    def __init__(self, cls, fields=None):
        self.cls = cls
        self.fields = dict(fields or {})
        self.oid = new_oid()

    def __repr__(self):
        return "<%s#%d>" % (getattr(self.cls, "name", self.cls), self.oid)


class ListObj:
    """Python list with identity.  Either `items` (concrete length, engine values) or `seq` (SSeq)."""

    def __init__(self, items=None, seq=None, frozen=False):
        self.items = items
        self.seq = seq
        self.frozen = frozen
        self.oid = new_oid()

    def __repr__(self):
        return "<list#%d %r>" % (self.oid, self.items if self.items is not None else self.seq)


class DictObj:
    """dictionary: has: Array K Bool, val: Array K V.
    ksort / vsort: z3 sorts; vkind tells how a stored term is turned back into an engine value:
    'bytes' | 'int' | 'py' | 'tupleB'.  default: None or a Python int (defaultdict(int))."""

    def __init__(self, has, val, kkind="bytes", vkind="bytes", default=None, name="d"):
        self.has = has
        self.val = val
        self.kkind = kkind
        self.vkind = vkind
        self.default = default
        self.name = name
        self.oid = new_oid()
        self.writes = 0          # number of write operations executed on this path (frame checks)
        self.hooks = None        # data-structure invariant of a store: on_read assumes it for the entry read,
                                 # on_write emits the obligations that keep it

    def snapshot(self):
        return (self.has, self.val)

    def __repr__(self):
        return "<dict#%d %s>" % (self.oid, self.name)


class ExcObj:
    """exception instance"""

    def __init__(self, cls, args=(), fields=None):
        self.cls = cls
        self.args = tuple(args)
        self.fields = dict(fields or {})
        self.cause = None
        self.context = None

    def __repr__(self):
        return "<exc %s%r>" % (getattr(self.cls, "__name__", getattr(self.cls, "name", self.cls)), self.args)


class PyRaise(Exception):
    """a Python exception propagating through the interpreted program"""

    def __init__(self, exc):
        super().__init__(repr(exc))
        self.exc = exc


# ------------------------------------------------------------------------------------------------
# helpers to move between Python constants and terms


def seq_const(bs):
    """bytes / tuple of ints -> Seq Int term"""
    if len(bs) == 0:
        return z3.Empty(SeqI)
    units = [z3.Unit(z3.IntVal(int(b))) for b in bs]
    if len(units) == 1:
        return units[0]
    return z3.Concat(*units)


def seqseq_const(items):
    if len(items) == 0:
        return z3.Empty(SeqSeqI)
    units = [z3.Unit(as_seq_term(x)) for x in items]
    if len(units) == 1:
        return units[0]
    return z3.Concat(*units)


def as_seq_term(v):
    if isinstance(v, SSeq):
        return v.t
    if isinstance(v, (bytes, bytearray)):
        return seq_const(v)
    if isinstance(v, tuple) and all(isinstance(x, (int, SInt)) and not isinstance(x, bool) for x in v):
        if not v:
            return z3.Empty(SeqI)
        units = [z3.Unit(as_int_term(x)) for x in v]
        return units[0] if len(units) == 1 else z3.Concat(*units)
    raise Unsupported("not a sequence of ints: %r" % (v,))


def as_int_term(v):
    if isinstance(v, SInt):
        return v.t
    if isinstance(v, bool):
        return z3.IntVal(1 if v else 0)
    if isinstance(v, int):
        return z3.IntVal(v)
    if isinstance(v, SBool):
        return z3.If(v.t, z3.IntVal(1), z3.IntVal(0))
    raise Unsupported("not an int: %r" % (v,))


def as_bool_term(v):
    if isinstance(v, SBool):
        return v.t
    if isinstance(v, bool):
        return z3.BoolVal(v)
    raise Unsupported("not a bool: %r" % (v,))


def is_symbolic(v):
    return isinstance(v, V)


def simp(t):
    return z3.simplify(t)


def concrete_int(t):
    """z3 Int term -> Python int if it is a numeral after simplification, else None"""
    s = z3.simplify(t)
    if z3.is_int_value(s):
        return s.as_long()
    return None


def concrete_bool(t):
    s = z3.simplify(t)
    if z3.is_true(s):
        return True
    if z3.is_false(s):
        return False
    return None


def mk_int(t):
    c = concrete_int(t)
    return c if c is not None else SInt(z3.simplify(t))


def mk_bool(t):
    c = concrete_bool(t)
    return c if c is not None else SBool(z3.simplify(t))


def to_pyval(v):
    """engine value -> PyVal term"""
    if isinstance(v, SPy):
        return v.t
    if v is None:
        return PyVal.PNone
    if isinstance(v, (bool, SBool)):
        return PyVal.PBool(as_bool_term(v))
    if isinstance(v, (int, SInt)):
        return PyVal.PInt(as_int_term(v))
    if isinstance(v, bytes):
        return PyVal.PBytes(seq_const(v))
    if isinstance(v, SSeq):
        if v.elem == "bytes":
            return PyVal.PTupB(v.t)
        return PyVal.PBytes(v.t) if v.kind == "bytes" else PyVal.PTup(v.t)
    if isinstance(v, tuple):
        return PyVal.PTup(as_seq_term(v))
    if isinstance(v, Sentinel):
        return PyVal.PSentinel(z3.IntVal(v.num))
    raise Unsupported("cannot store %r as a dynamically typed value" % (v,))
