"""Loader: parses the real source files of /repo/trie on every run and builds module namespaces for the
interpreter.  Nothing is copied by hand: functions and classes are kept as their `ast` nodes.

What is dropped (exactly): type annotations, docstrings, comments.  Module-level constants are obtained by
evaluating the module's own assignment statements."""
import ast
import hashlib
import os

from pyvc.sym import Sentinel


class ModuleNS:
    def __init__(self, name, path):
        self.name = name
        self.path = path
        self.ns = {}
        self.source = ""
        self.tree = None

    def __repr__(self):
        return "<module %s>" % self.name


class Ext:
    """reference to something outside /repo/trie (library function, class, module), by dotted name"""

    def __init__(self, name):
        self.name = name

    def __repr__(self):
        return "<ext %s>" % self.name

    def __eq__(self, other):
        return isinstance(other, Ext) and other.name == self.name

    def __hash__(self):
        return hash(self.name)


class FuncVal:
    def __init__(self, name, node, module, cls=None, closure=None):
        self.name = name
        self.node = node
        self.module = module
        self.cls = cls
        self.closure = closure
        self.is_generator = _has_yield(node)
        self.wraps = None

    @property
    def qualname(self):
        f = self.wraps or self
        if f.cls is not None:
            return "%s:%s.%s" % (f.module.name, f.cls.name, f.name)
        return "%s:%s" % (f.module.name, f.name)

    @property
    def lineno(self):
        return getattr(self.node, "lineno", 0)

    def __repr__(self):
        return "<func %s>" % self.qualname


class ClassVal:
    def __init__(self, name, module, bases, node):
        self.name = name
        self.module = module
        self.bases = bases
        self.node = node
        self.attrs = {}

    def mro(self):
        out = [self]
        for b in self.bases:
            if isinstance(b, ClassVal):
                for c in b.mro():
                    if c not in out:
                        out.append(c)
            else:
                out.append(b)
        return out

    def lookup(self, name):
        for c in self.mro():
            if isinstance(c, ClassVal) and name in c.attrs:
                return c.attrs[name]
        return None

    def is_subclass_of(self, other):
        for c in self.mro():
            if c is other:
                return True
            if isinstance(c, type) and isinstance(other, type) and issubclass(c, other):
                return True
            if isinstance(c, Ext) and isinstance(other, Ext) and c == other:
                return True
        return False

    def is_exception(self):
        for c in self.mro():
            if isinstance(c, type) and issubclass(c, BaseException):
                return True
        return False

    def __repr__(self):
        return "<class %s.%s>" % (self.module.name, self.name)


class Wrapped:
    """result of applying a library decorator with a known meaning to a function"""

    def __init__(self, kind, func, arg=None):
        self.kind = kind        # to_tuple | to_list | to_dict | apply | property | staticmethod | classmethod |
        self.func = func        # contextmanager | lru_cache
        self.arg = arg

    @property
    def qualname(self):
        return getattr(self.func, "qualname", "?")

    def __repr__(self):
        return "<%s %r>" % (self.kind, self.func)


class PropertyVal:
    def __init__(self, fget, fset=None):
        self.fget = fget
        self.fset = fset


def _has_yield(node):
    for n in ast.walk(node):
        if isinstance(n, (ast.Yield, ast.YieldFrom)):
            # only yields that belong to this function (not to nested defs / lambdas / generator expressions)
            if _owner(node, n) is node:
                return True
    return False


def _owner(root, target):
    """innermost FunctionDef/Lambda of `root`'s tree that contains `target`"""
    owner = [None]

    def walk(n, cur):
        if n is target:
            owner[0] = cur
            return True
        for c in ast.iter_child_nodes(n):
            nxt = c if isinstance(c, (ast.FunctionDef, ast.Lambda, ast.AsyncFunctionDef)) else cur
            if walk(c, nxt):
                return True
        return False
    walk(root, root)
    return owner[0]


SAFE_BUILTINS = {
    "range": range, "tuple": tuple, "bytes": bytes, "set": set, "frozenset": frozenset, "dict": dict, "list": list,
    "reversed": reversed, "len": len, "int": int, "bool": bool, "enumerate": enumerate, "zip": zip, "min": min,
    "max": max, "sum": sum, "True": True, "False": False, "None": None, "str": str, "sorted": sorted,
}


class Loader:
    def __init__(self, repo):
        self.repo = repo
        self.modules = {}
        self.static_engine = None      # set by interp (used to apply repo-defined decorators at load time)

    def path_of(self, modname):
        rel = modname.replace(".", "/")
        p = os.path.join(self.repo, rel + ".py")
        if os.path.exists(p):
            return p
        p = os.path.join(self.repo, rel, "__init__.py")
        if os.path.exists(p):
            return p
        return None

    def load(self, modname):
        if modname in self.modules:
            return self.modules[modname]
        path = self.path_of(modname)
        if path is None:
            raise ImportError(modname)
        m = ModuleNS(modname, path)
        self.modules[modname] = m
        with open(path) as f:
            m.source = f.read()
        m.tree = ast.parse(m.source, filename=path)
        for st in m.tree.body:
            self._stmt(m, st)
        return m

    def source_hash(self, modname):
        return hashlib.sha256(self.load(modname).source.encode()).hexdigest()[:16]

    # -- module-level statements -------------------------------------------------------------
    def _stmt(self, m, st):
        if isinstance(st, ast.Import):
            for a in st.names:
                m.ns[a.asname or a.name.split(".")[0]] = Ext(a.name if a.asname else a.name.split(".")[0])
        elif isinstance(st, ast.ImportFrom):
            mod = st.module or ""
            if st.level:
                base = m.name.split(".")
                base = base[: len(base) - st.level]
                mod = ".".join(base + ([mod] if mod else []))
            for a in st.names:
                name = a.asname or a.name
                if mod == "trie" or mod.startswith("trie."):
                    try:
                        src = self.load(mod)
                    except ImportError:
                        m.ns[name] = Ext(mod + "." + a.name)
                        continue
                    if a.name in src.ns:
                        m.ns[name] = src.ns[a.name]
                    else:
                        try:
                            m.ns[name] = self.load(mod + "." + a.name)
                        except ImportError:
                            m.ns[name] = Ext(mod + "." + a.name)
                else:
                    m.ns[name] = Ext(mod + "." + a.name)
        elif isinstance(st, ast.FunctionDef):
            m.ns[st.name] = self._decorate(m, FuncVal(st.name, st, m), st)
        elif isinstance(st, ast.ClassDef):
            m.ns[st.name] = self._class(m, st)
        elif isinstance(st, (ast.Assign, ast.AnnAssign)):
            targets = st.targets if isinstance(st, ast.Assign) else [st.target]
            if getattr(st, "value", None) is None:
                return
            for t in targets:
                if isinstance(t, ast.Name):
                    m.ns[t.id] = self._const(m, st.value, t.id)
        elif isinstance(st, ast.Expr):
            pass          # docstring
        elif isinstance(st, ast.If):
            pass          # e.g. TYPE_CHECKING blocks
        else:
            pass

    def _const(self, m, expr, name):
        if isinstance(expr, ast.Call) and isinstance(expr.func, ast.Name) and expr.func.id == "object" and not expr.args:
            return Sentinel("%s.%s" % (m.name, name))
        ns = dict(SAFE_BUILTINS)
        for k, v in m.ns.items():
            if isinstance(v, (int, bytes, str, tuple, frozenset, dict, list, set, type(None), bool)):
                ns[k] = v
        try:
            code = compile(ast.Expression(expr), m.path, "eval")
            val = eval(code, {"__builtins__": {}}, ns)
        except Exception:
            return Ext("%s.%s" % (m.name, name))
        return val

    def _class(self, m, st):
        bases = []
        for b in st.bases:
            bases.append(self._static_expr(m, b))
        c = ClassVal(st.name, m, bases, st)
        for s in st.body:
            if isinstance(s, ast.FunctionDef):
                f = FuncVal(s.name, s, m, cls=c)
                c.attrs[s.name] = self._decorate(m, f, s, cls=c)
            elif isinstance(s, ast.Assign):
                for t in s.targets:
                    if isinstance(t, ast.Name):
                        c.attrs[t.id] = self._const(m, s.value, t.id)
            elif isinstance(s, ast.AnnAssign) and s.value is not None and isinstance(s.target, ast.Name):
                c.attrs[s.target.id] = self._const(m, s.value, s.target.id)
        return c

    def _static_expr(self, m, e, scope=None):
        """evaluate a base-class / decorator expression without a running path"""
        if isinstance(e, ast.Name):
            if scope is not None and e.id in scope:
                return scope[e.id]
            if e.id in m.ns:
                return m.ns[e.id]
            import builtins
            if hasattr(builtins, e.id):
                return getattr(builtins, e.id)
            return Ext(e.id)
        if isinstance(e, ast.Attribute):
            base = self._static_expr(m, e.value, scope)
            if isinstance(base, Ext):
                return Ext(base.name + "." + e.attr)
            if isinstance(base, ModuleNS):
                return base.ns.get(e.attr, Ext(base.name + "." + e.attr))
            if isinstance(base, ClassVal):
                return base.lookup(e.attr)
            if isinstance(base, PropertyVal) and e.attr == "setter":
                return ("property.setter", base)
            return Ext("?." + e.attr)
        if isinstance(e, ast.Subscript):
            return self._static_expr(m, e.value, scope)
        if isinstance(e, ast.Call):
            f = self._static_expr(m, e.func, scope)
            args = [self._static_expr(m, a, scope) for a in e.args]
            return ("call", f, args)
        if isinstance(e, ast.Constant):
            return e.value
        return Ext("?")

    DECOS = {
        "eth_utils.to_tuple": "to_tuple", "eth_utils.to_list": "to_list", "eth_utils.to_dict": "to_dict",
        "contextlib.contextmanager": "contextmanager", "staticmethod": "staticmethod", "classmethod": "classmethod",
        "property": "property",
    }

    def _decorate(self, m, f, st, cls=None):
        val = f
        for d in reversed(st.decorator_list):
            dv = self._static_expr(m, d, cls.attrs if cls is not None else None)
            val = self._apply_deco(m, dv, val, d)
        return val

    def _apply_deco(self, m, dv, val, node):
        if isinstance(dv, Ext) or isinstance(dv, type):
            name = dv.name if isinstance(dv, Ext) else dv.__name__
            kind = self.DECOS.get(name)
            if kind == "property":
                return PropertyVal(val)
            if kind is not None:
                return Wrapped(kind, val)
            raise NotImplementedError("decorator %s at %s:%d" % (name, m.path, node.lineno))
        if isinstance(dv, tuple) and dv[0] == "property.setter":
            return PropertyVal(dv[1].fget, val)
        if isinstance(dv, tuple) and dv[0] == "call":
            fn, args = dv[1], dv[2]
            if isinstance(fn, Ext):
                if fn.name == "eth_utils.apply_to_return_value":
                    return Wrapped("apply", val, args[0])
                if fn.name == "functools.lru_cache":
                    return Wrapped("lru_cache", val)
                if fn.name == "functools.wraps":
                    if isinstance(val, FuncVal) and isinstance(args[0], FuncVal):
                        val.wraps = args[0]
                    return val
            raise NotImplementedError("decorator call %r at %s:%d" % (fn, m.path, node.lineno))
        if isinstance(dv, FuncVal):
            # a decorator defined in the repository (prune_pending): run it
            if self.static_engine is None:
                raise NotImplementedError("repo decorator before engine is available")
            return self.static_engine.call(dv, [val], {})
        raise NotImplementedError("decorator %r at %s:%d" % (dv, m.path, node.lineno))
