"""Python operator semantics on engine values (pure part: no forking, no heap)."""
import z3

from pyvc.sym import (SInt, SBool, SSeq, ASeq, SPy, Sentinel, Obj, ListObj, DictObj, ExcObj, V, Unsupported,
                      as_int_term, as_bool_term, as_seq_term, seqseq_const, mk_int, mk_bool, SeqI, SeqSeqI,
                      PyVal, to_pyval, concrete_int)


def is_intlike(v):
    return isinstance(v, (int, SInt)) and not isinstance(v, bool) or isinstance(v, (bool, SBool))


def is_seq(v):
    return isinstance(v, (SSeq, bytes, tuple))


def seq_kind(v):
    if isinstance(v, SSeq):
        return v.kind
    if isinstance(v, bytes):
        return "bytes"
    if isinstance(v, tuple):
        return "tuple"
    if isinstance(v, ListObj):
        return "list"
    return None


def seq_elem(v):
    if isinstance(v, SSeq):
        return v.elem
    if isinstance(v, bytes):
        return "int"
    if isinstance(v, tuple):
        if all(isinstance(x, (int, SInt)) and not isinstance(x, bool) for x in v):
            return "int"
        if all(isinstance(x, bytes) or (isinstance(x, SSeq) and x.kind == "bytes" and x.elem == "int") for x in v):
            return "bytes"
        if all((isinstance(x, tuple) and all(isinstance(y, (int, SInt)) and not isinstance(y, bool) for y in x))
               or (isinstance(x, SSeq) and x.kind == "tuple" and x.elem == "int") for x in v):
            return "tuple"          # a tuple of int tuples (e.g. sub-segments: a tuple of nibble tuples)
        return "mixed"
    return None


def seq_term(v):
    """term of a homogeneous sequence value"""
    if isinstance(v, SSeq):
        return v.t
    if isinstance(v, bytes):
        return as_seq_term(v)
    if isinstance(v, tuple):
        e = seq_elem(v)
        if e == "int":
            return as_seq_term(v)
        if e in ("bytes", "tuple"):
            return seqseq_const(v)
    raise Unsupported("no sequence term for %r" % (v,))


def length(v):
    if isinstance(v, (bytes, tuple, str)):
        return len(v)
    if isinstance(v, SSeq):
        return mk_int(z3.Length(v.t))
    if isinstance(v, ASeq):
        return mk_int(v.n)
    if isinstance(v, ListObj):
        if v.items is not None:
            return len(v.items)
        return mk_int(z3.Length(v.seq.t))
    if isinstance(v, (dict, set, frozenset, list)):
        return len(v)
    raise Unsupported("len() of %r" % (v,))


def elem_value(t, elem):
    if elem == "int":
        return mk_int(t)
    if elem == "bytes":
        return SSeq(z3.simplify(t), "bytes", "int")
    if elem == "tuple":
        return SSeq(z3.simplify(t), "tuple", "int")
    raise Unsupported("element kind %r" % elem)


def py_eq(a, b):
    """Python `==` -> bool | SBool.  (bool/int identification is ignored: True == 1 is not modelled.)"""
    if a is b and not isinstance(a, float):
        return True
    if hasattr(a, "py_eq"):
        return a.py_eq(b)
    if hasattr(b, "py_eq"):
        return b.py_eq(a)
    if isinstance(a, SPy) or isinstance(b, SPy):
        try:
            return mk_bool(to_pyval(a) == to_pyval(b))
        except Unsupported:
            if isinstance(a, (ListObj, DictObj, Obj)) or isinstance(b, (ListObj, DictObj, Obj)):
                # a dynamically typed value is never one of our heap objects unless it is POther
                raise
            raise
    if a is None or b is None:
        return a is None and b is None
    if isinstance(a, Sentinel) or isinstance(b, Sentinel):
        return a is b
    ka, kb = seq_kind(a), seq_kind(b)
    if ka is not None or kb is not None:
        if ka != kb:
            return False
        if ka == "list":
            return list_eq(a, b)
        if isinstance(a, (bytes, tuple)) and isinstance(b, (bytes, tuple)):
            if isinstance(a, bytes) or (not any(isinstance(x, (V, ListObj)) for x in a + b)):
                return a == b
            if len(a) != len(b):
                return False
            res = True
            for x, y in zip(a, b):
                res = s_and(res, py_eq(x, y))
            return res
        ea, eb = seq_elem(a), seq_elem(b)
        if isinstance(a, tuple) and len(a) == 0:
            return mk_bool(z3.Length(b.t) == 0)
        if isinstance(b, tuple) and len(b) == 0:
            return mk_bool(z3.Length(a.t) == 0)
        if ea != eb:
            if ea == "mixed" or eb == "mixed":
                raise Unsupported("== between %r and %r" % (a, b))
            # same container kind, different element kinds: equal only if both empty
            return mk_bool(z3.And(z3.Length(seq_term(a)) == 0, z3.Length(seq_term(b)) == 0))
        return mk_bool(seq_term(a) == seq_term(b))
    if isinstance(a, (bool, SBool)) and isinstance(b, (bool, SBool)):
        return mk_bool(as_bool_term(a) == as_bool_term(b))
    if is_intlike(a) and is_intlike(b):
        if isinstance(a, int) and isinstance(b, int):
            return a == b
        return mk_bool(as_int_term(a) == as_int_term(b))
    if isinstance(a, str) and isinstance(b, str):
        return a == b
    if isinstance(a, (Obj, DictObj, ExcObj)) or isinstance(b, (Obj, DictObj, ExcObj)):
        return a is b
    if type(a) in (int, bool, str, bytes, tuple, frozenset) and type(b) in (int, bool, str, bytes, tuple, frozenset):
        return a == b
    if is_intlike(a) != is_intlike(b):
        return False
    raise Unsupported("== between %r and %r" % (a, b))


def list_eq(a, b):
    if a is b:
        return True
    if a.items is not None and b.items is not None:
        if len(a.items) != len(b.items):
            return False
        res = True
        for x, y in zip(a.items, b.items):
            res = s_and(res, py_eq(x, y))
        return res
    if a.seq is not None and b.seq is not None:
        return mk_bool(a.seq.t == b.seq.t)
    raise Unsupported("list == list with mixed representations")


def s_not(a):
    if isinstance(a, bool):
        return not a
    return mk_bool(z3.Not(as_bool_term(a)))


def s_and(a, b):
    if a is True:
        return b
    if b is True:
        return a
    if a is False or b is False:
        return False
    return mk_bool(z3.And(as_bool_term(a), as_bool_term(b)))


def s_or(a, b):
    if a is False:
        return b
    if b is False:
        return a
    if a is True or b is True:
        return True
    return mk_bool(z3.Or(as_bool_term(a), as_bool_term(b)))


def s_implies(a, b):
    return s_or(s_not(a), b)


def s_ite(c, a, b):
    """if-then-else on values of the same kind"""
    if c is True:
        return a
    if c is False:
        return b
    ct = as_bool_term(c)
    if is_intlike(a) and is_intlike(b) and not isinstance(a, (bool, SBool)):
        return mk_int(z3.If(ct, as_int_term(a), as_int_term(b)))
    if isinstance(a, (bool, SBool)) and isinstance(b, (bool, SBool)):
        return mk_bool(z3.If(ct, as_bool_term(a), as_bool_term(b)))
    if is_seq(a) and is_seq(b) and seq_kind(a) == seq_kind(b):
        ea = seq_elem(a) if length(a) != 0 else seq_elem(b)
        r = join_rng(seq_rng(a), seq_rng(b))
        return SSeq(z3.If(ct, seq_term_as(a, ea), seq_term_as(b, ea)), seq_kind(a), ea, rng=None if r == "empty" else r)
    return SPy(z3.If(ct, to_pyval(a), to_pyval(b)))


def seq_term_as(v, elem):
    if isinstance(v, (bytes, tuple)) and len(v) == 0:
        return z3.Empty(SeqI if elem == "int" else SeqSeqI)
    return seq_term(v)


def truth(v):
    """Python truthiness -> bool | SBool"""
    if isinstance(v, (bool, SBool)):
        return v
    if hasattr(v, "py_truth"):
        return v.py_truth()
    if v is None:
        return False
    if isinstance(v, int):
        return v != 0
    if isinstance(v, SInt):
        return mk_bool(v.t != 0)
    if isinstance(v, (bytes, tuple, str, dict, set, frozenset, list)):
        return len(v) > 0
    if isinstance(v, SSeq):
        return mk_bool(z3.Length(v.t) > 0)
    if isinstance(v, ASeq):
        return mk_bool(v.n > 0)
    if isinstance(v, ListObj):
        n = length(v)
        return n > 0 if isinstance(n, int) else mk_bool(n.t > 0)
    if isinstance(v, SPy):
        t = v.t
        return mk_bool(z3.Or(
            z3.And(PyVal.is_PBool(t), PyVal.pbool(t)),
            z3.And(PyVal.is_PInt(t), PyVal.pint(t) != 0),
            z3.And(PyVal.is_PBytes(t), z3.Length(PyVal.pbytes(t)) > 0),
            z3.And(PyVal.is_PTup(t), z3.Length(PyVal.ptup(t)) > 0),
            z3.And(PyVal.is_PTupB(t), z3.Length(PyVal.ptupb(t)) > 0),
            PyVal.is_PSentinel(t)))
    if isinstance(v, DictObj):
        # a symbolic dictionary is truthy iff it has a key
        if v.has is None:
            raise Unsupported("truth value of a dictionary without a symbolic domain")
        k = z3.Const("k!dictnonempty", v.has.sort().domain())
        return mk_bool(z3.Exists([k], z3.Select(v.has, k)))
    if isinstance(v, (Obj, Sentinel, ExcObj)):
        return True
    if callable(v) or hasattr(v, "__pyvc_callable__"):
        return True
    raise Unsupported("truth value of %r" % (v,))


def compare(op, a, b):
    """< <= > >= on ints and on sequences of ints (lexicographic)"""
    if isinstance(a, (int, bool)) and isinstance(b, (int, bool)):
        return {"<": a < b, "<=": a <= b, ">": a > b, ">=": a >= b}[op]
    if is_intlike(a) and is_intlike(b):
        x, y = as_int_term(a), as_int_term(b)
        return mk_bool({"<": x < y, "<=": x <= y, ">": x > y, ">=": x >= y}[op])
    if isinstance(a, (bytes, tuple)) and isinstance(b, (bytes, tuple)) and not any(
            isinstance(x, V) for x in tuple(a) + tuple(b)):
        return {"<": a < b, "<=": a <= b, ">": a > b, ">=": a >= b}[op]
    if is_seq(a) and is_seq(b) and seq_elem(a) in ("int", None) and seq_elem(b) in ("int", None):
        from pyvc import specfn
        x, y = seq_term_as(a, "int"), seq_term_as(b, "int")
        lt = specfn.lexlt
        if op == "<":
            return mk_bool(lt(x, y))
        if op == ">":
            return mk_bool(lt(y, x))
        if op == "<=":
            return mk_bool(z3.Not(lt(y, x)))
        return mk_bool(z3.Not(lt(x, y)))
    raise Unsupported("comparison %s between %r and %r" % (op, a, b))


def seq_concat(a, b):
    ka, kb = seq_kind(a), seq_kind(b)
    if ka != kb:
        raise Unsupported("concatenation of %r and %r" % (a, b))
    if isinstance(a, (bytes, tuple)) and isinstance(b, (bytes, tuple)):
        return a + b
    if isinstance(a, (bytes, tuple)) and len(a) == 0:
        return b
    if isinstance(b, (bytes, tuple)) and len(b) == 0:
        return a
    ea, eb = seq_elem(a), seq_elem(b)
    if ea != eb:
        raise Unsupported("concatenation with different element kinds: %r + %r" % (a, b))
    r = join_rng(seq_rng(a), seq_rng(b))
    return SSeq(z3.simplify(z3.Concat(seq_term(a), seq_term(b))), ka, ea, rng=None if r == "empty" else r)


def arith(op, a, b):
    if isinstance(a, (int, bool)) and isinstance(b, (int, bool)):
        if op == "+":
            return a + b
        if op == "-":
            return a - b
        if op == "*":
            return a * b
        if op == "//":
            return a // b
        if op == "%":
            return a % b
        if op == "**":
            return a ** b
        if op == "<<":
            return a << b
        if op == ">>":
            return a >> b
        if op == "&":
            return a & b
        if op == "|":
            return a | b
        if op == "^":
            return a ^ b
    if op == "+" and (is_seq(a) or is_seq(b)):
        return seq_concat(a, b)
    if op == "*" and is_seq(a) and isinstance(b, int):
        if isinstance(a, (bytes, tuple)):
            return a * b
    if not (is_intlike(a) and is_intlike(b)):
        raise Unsupported("arithmetic %s on %r, %r" % (op, a, b))
    x, y = as_int_term(a), as_int_term(b)
    if op == "+":
        return mk_int(x + y)
    if op == "-":
        return mk_int(x - y)
    if op == "*":
        if isinstance(a, int) or isinstance(b, int):
            return mk_int(x * y)
        return mk_int(x * y)    # nonlinear: left to the solver
    from pyvc import specfn
    if op in ("//", "%"):
        if isinstance(b, int) and b > 0:
            return mk_int(x / y if op == "//" else x % y)   # z3 Int div/mod = floor for positive divisor
        if specfn.is_pow2_term(y):
            return mk_int(x / y if op == "//" else x % y)
        raise Unsupported("division by a symbolic / non-positive divisor")
    if op == "<<":
        if isinstance(a, int) and a == 1:
            return mk_int(specfn.pow2(y))
        if specfn.is_pow2_term(x):
            return mk_int(specfn.pow2(z3.simplify(x.arg(0) + y)))         # 2**k << c = 2**(k+c)   (c >= 0)
        return mk_int(x * specfn.pow2(y))
    if op == ">>":
        if specfn.is_pow2_term(x) and isinstance(b, int) and b >= 0:
            k = x.arg(0)                                                    # 2**k >> c = 2**(k-c), 0 when c > k
            return mk_int(z3.If(k >= b, specfn.pow2(z3.simplify(k - b)), z3.IntVal(0)))
        if isinstance(b, int) and b >= 0:
            return mk_int(x / (2 ** b))
        return mk_int(x / specfn.pow2(y))
    if op == "&":
        return specfn.bit_and(a, b)
    if op == "^":
        return mk_int(specfn.bxor(x, y))
    if op == "**":
        if isinstance(a, int) and a == 2:
            return mk_int(specfn.pow2(y))
    raise Unsupported("arithmetic %s on %r, %r" % (op, a, b))


def norm_index(i, n):
    """Python index normalisation: (term of effective index, in-bounds condition)"""
    if isinstance(i, int) and isinstance(n, int):
        j = i + n if i < 0 else i
        return j, 0 <= j < n
    it, nt = as_int_term(i), as_int_term(n)
    if isinstance(i, int):
        j = it + nt if i < 0 else it
    else:
        j = z3.If(it < 0, it + nt, it)
    return z3.simplify(j), mk_bool(z3.And(j >= 0, j < nt))


def slice_bounds(lo, hi, n):
    """Python slice clamping for step 1: returns (start term, length term) as z3 Int terms / ints."""
    nt = as_int_term(n)

    def clamp(x, default):
        if x is None:
            return default
        if isinstance(x, int):
            if x >= 0:
                if isinstance(n, int):
                    return z3.IntVal(min(x, n))
                return z3.If(z3.IntVal(x) > nt, nt, z3.IntVal(x))
            v = nt + x
            return z3.If(v < 0, z3.IntVal(0), v)
        xt = as_int_term(x)
        v = z3.If(xt < 0, xt + nt, xt)
        return z3.If(v < 0, z3.IntVal(0), z3.If(v > nt, nt, v))
    s = clamp(lo, z3.IntVal(0))
    e = clamp(hi, nt)
    ln = z3.If(e > s, e - s, z3.IntVal(0))
    return z3.simplify(s), z3.simplify(ln)


def seq_rng(v):
    if isinstance(v, SSeq):
        return v.rng
    if isinstance(v, bytes):
        return (0, 255)
    if isinstance(v, tuple) and v and all(isinstance(x, int) and not isinstance(x, bool) for x in v):
        return (min(v), max(v))
    if isinstance(v, tuple) and not v:
        return "empty"
    return None


def join_rng(a, b):
    if a == "empty":
        return b
    if b == "empty":
        return a
    if a is None or b is None:
        return None
    return (min(a[0], b[0]), max(a[1], b[1]))


def seq_slice(v, lo, hi):
    if isinstance(v, (bytes, tuple)) and (lo is None or isinstance(lo, int)) and (hi is None or isinstance(hi, int)):
        return v[lo:hi]
    t = seq_term(v)
    n = length(v)
    s, ln = slice_bounds(lo, hi, n)
    kind, elem = seq_kind(v), seq_elem(v)
    r = seq_rng(v)
    return SSeq(z3.simplify(z3.Extract(t, s, ln)), kind, elem, rng=None if r == "empty" else r)
