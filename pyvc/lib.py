"""Builtins and library summaries for the pyvc interpreter.

Every entry here is an ASSUMED contract on something outside /repo/trie (Python builtins, eth_utils, toolz,
itertools, functools, contextlib).  They are listed in contracts/trusted.py and cross-checked against the real
libraries by vtlib/libcheck.py."""
import z3

from pyvc import ops, specfn
from pyvc.sym import (SInt, SBool, SSeq, ASeq, SPy, Sentinel, Obj, ListObj, DictObj, ExcObj, PyRaise, V,
                      EngineError, Unsupported, PyVal, SeqI, SeqSeqI, IntS, as_int_term, as_bool_term, as_seq_term,
                      mk_int, mk_bool, to_pyval, concrete_int)
from pyvc.modules import ModuleNS, Ext, FuncVal, ClassVal, Wrapped, PropertyVal
from pyvc import interp as I


class UseBeforeValidation(Unsupported):
    """an operation was applied to a dynamically typed value whose type the path has not established"""


def refine(E, v):
    """typed view of a dynamically typed value whose constructor is determined by the path condition"""
    if not isinstance(v, SPy):
        return v
    t = v.t
    w = E.from_pyval(t)
    if not isinstance(w, SPy):
        return w
    for rec, mk in ((PyVal.is_PBytes, lambda: SSeq(z3.simplify(PyVal.pbytes(t)), "bytes", "int")),
                    (PyVal.is_PInt, lambda: mk_int(PyVal.pint(t))),
                    (PyVal.is_PTup, lambda: SSeq(z3.simplify(PyVal.ptup(t)), "tuple", "int")),
                    (PyVal.is_PTupB, lambda: SSeq(z3.simplify(PyVal.ptupb(t)), "tuple", "bytes")),
                    (PyVal.is_PBool, lambda: mk_bool(PyVal.pbool(t)))):
        if E.implied(mk_bool(rec(t))):
            return mk()
    if E.implied(mk_bool(PyVal.is_PNone(t))):
        return None
    raise UseBeforeValidation("operation on a value whose type has not been validated: %s" % t)


# ---------------------------------------------------------------------------------------------------
# builtins

def b_len(E, v):
    v = refine(E, v)
    if isinstance(v, Obj) and "__tuple__" in v.fields:
        return ops.length(v.fields["__tuple__"])
    if isinstance(v, I._SetLit):
        raise Unsupported("len of a set display with symbolic members")
    if isinstance(v, DictObj):
        raise Unsupported("len of a symbolic dictionary")
    if isinstance(v, I.GenIter):
        raise PyRaise(ExcObj(TypeError, ("len of generator",)))
    if isinstance(v, SortedSetObj):
        return mk_int(z3.Length(v.seq))
    return ops.length(v)


TYPE_TESTS = {
    bytes: PyVal.is_PBytes, int: None, tuple: PyVal.is_PTup, bool: PyVal.is_PBool,
}


def b_isinstance(E, v, cls):
    if hasattr(v, "py_isinstance") and not isinstance(cls, tuple):
        return v.py_isinstance(cls)
    if isinstance(cls, tuple):
        r = False
        for c in cls:
            r = ops.s_or(r, b_isinstance(E, v, c))
        return r
    if isinstance(v, SPy):
        t = v.t
        if cls is bytes:
            return mk_bool(PyVal.is_PBytes(t))
        if cls is int:
            return mk_bool(z3.Or(PyVal.is_PInt(t), PyVal.is_PBool(t)))
        if cls is tuple:
            return mk_bool(z3.Or(PyVal.is_PTup(t), PyVal.is_PTupB(t)))
        if cls is bool:
            return mk_bool(PyVal.is_PBool(t))
        if cls is list or cls is dict or cls is str:
            # lists / dicts / strings that reach the engine as dynamically typed values are POther / PStr
            if cls is str:
                return mk_bool(PyVal.is_PStr(t))
            raise Unsupported("isinstance(list/dict) on a dynamically typed value")
        if isinstance(cls, ClassVal):
            return False
        raise Unsupported("isinstance(%r) on a dynamically typed value" % (cls,))
    if cls is bytes:
        return isinstance(v, bytes) or (isinstance(v, SSeq) and v.kind == "bytes")
    if cls is int:
        return isinstance(v, (int, SInt, bool, SBool))
    if cls is bool:
        return isinstance(v, (bool, SBool))
    if cls is tuple:
        return isinstance(v, tuple) or (isinstance(v, SSeq) and v.kind == "tuple") or \
            (isinstance(v, Obj) and "__tuple__" in v.fields)
    if cls is list:
        return isinstance(v, ListObj)
    if cls is dict:
        return isinstance(v, DictObj)
    if cls is str:
        return isinstance(v, str)
    if isinstance(cls, ClassVal):
        if isinstance(v, Obj) and isinstance(v.cls, ClassVal):
            return v.cls.is_subclass_of(cls)
        if isinstance(v, ExcObj) and isinstance(v.cls, ClassVal):
            return v.cls.is_subclass_of(cls)
        return False
    if isinstance(cls, type) and issubclass(cls, BaseException):
        return isinstance(v, ExcObj) and E.exc_matches(v, cls)
    raise Unsupported("isinstance(_, %r)" % (cls,))


def b_tuple(E, v=()):
    v = refine(E, v)
    if isinstance(v, tuple):
        return v
    if isinstance(v, I._GenOutIter):
        v = v.seq
    if isinstance(v, I._GenOut):
        v = v.val
    if isinstance(v, SSeq):
        return SSeq(v.t, "tuple", v.elem, rng=v.rng)
    if isinstance(v, ASeq):
        return ASeq(v.arr, v.n, "tuple")
    if isinstance(v, ListObj) and v.seq is not None:
        return SSeq(v.seq.t, "tuple", v.seq.elem, rng=v.seq.rng)
    if isinstance(v, Obj) and "__tuple__" in v.fields:
        return v.fields["__tuple__"]
    items = E.concrete_items(v)
    if items is not None:
        return tuple(items)
    if isinstance(v, I._Reversed):
        return seq_reverse(E, b_tuple(E, v.seq))
    raise Unsupported("tuple(%r)" % (v,))


def seqrev_fn(elem):
    sort = SeqI if elem == "int" else SeqSeqI
    return z3.Function("seqrev_" + elem, sort, sort)


def seq_reverse(E, s):
    """reversal of a symbolic sequence: rev(s) with |rev(s)| = |s| and rev(s)[i] = s[|s|-1-i] (pointwise fact,
    instantiated by the solver through the trigger rev(s)[i])"""
    if isinstance(s, tuple):
        return tuple(reversed(s))
    f = seqrev_fn(s.elem)
    r = f(s.t)
    E.assume(SBool(z3.Length(r) == z3.Length(s.t)))
    i = z3.Int(E.fresh_name("ri"))
    E.assume(SBool(z3.ForAll([i], z3.Implies(z3.And(i >= 0, i < z3.Length(s.t)),
                                              r[i] == s.t[z3.Length(s.t) - 1 - i]), patterns=[r[i]])))
    return SSeq(r, s.kind, s.elem)


def b_list(E, v=()):
    if isinstance(v, I._GenOutIter):
        return ListObj(seq=SSeq(v.seq.t, "list", v.seq.elem))
    if isinstance(v, SSeq):
        return ListObj(seq=SSeq(v.t, "list", v.elem))
    if isinstance(v, ListObj) and v.seq is not None:
        return ListObj(seq=v.seq)
    items = E.concrete_items(v)
    if items is not None:
        return ListObj(items=list(items))
    raise Unsupported("list(%r)" % (v,))


def b_bytes(E, v=b""):
    v = refine(E, v)
    if isinstance(v, bytes):
        return v
    if isinstance(v, int):
        return bytes(v)
    if isinstance(v, SInt):
        # bytes(n): n zero bytes.  A count that the path bounds by 8 is split into its possible values.
        if E.implied(mk_bool(z3.And(v.t >= 0, v.t <= 8))):
            k = E.choose([mk_bool(v.t == c) for c in range(9)])
            return bytes(k)
        r = E.fresh_seq("zeros", "bytes", "int")
        E.assume(SBool(z3.Length(r.t) == v.t))
        i = z3.Int(E.fresh_name("zi"))
        E.assume(SBool(z3.ForAll([i], z3.Implies(z3.And(i >= 0, i < v.t), r.t[i] == 0), patterns=[r.t[i]])))
        return r
    if isinstance(v, I._GenOutIter):
        v = v.seq
    if isinstance(v, I._GenOut):
        v = v.val
    if isinstance(v, SSeq) and v.elem == "int":
        return SSeq(v.t, "bytes", "int")
    if isinstance(v, ASeq):
        return ASeq(v.arr, v.n, "bytes")
    items = E.concrete_items(v)
    if items is not None:
        if all(isinstance(x, int) for x in items):
            return bytes(items)
        return SSeq(as_seq_term(tuple(items)), "bytes", "int")
    raise Unsupported("bytes(%r)" % (v,))


def b_range(E, *a):
    if len(a) == 1:
        lo, hi, st = 0, a[0], 1
    elif len(a) == 2:
        lo, hi, st = a[0], a[1], 1
    else:
        lo, hi, st = a
    if not isinstance(st, int):
        raise Unsupported("range with symbolic step")
    if isinstance(lo, int) and isinstance(hi, int):
        return range(lo, hi, st)
    return I._Range(lo, hi, st)


def b_reversed(E, v):
    v = refine(E, v)
    items = None
    if isinstance(v, (tuple, bytes, range)):
        return tuple(reversed(v))
    if isinstance(v, ListObj) and v.items is not None:
        return tuple(reversed(v.items))
    return I._Reversed(v)


def b_enumerate(E, v, start=0):
    items = E.concrete_items(v)
    if items is not None and isinstance(start, int):
        return [(start + k, x) for k, x in enumerate(items)]
    return I._Enumerate(v, start)


def b_zip(E, *parts):
    cs = [E.concrete_items(p) for p in parts]
    if all(c is not None for c in cs):
        return [tuple(x) for x in zip(*cs)]
    return I._Zip(list(parts))


def b_any(E, it):
    if isinstance(it, QuantIter):
        return it.any(E)
    items = E.concrete_items(it) if not isinstance(it, I.GenIter) else None
    if isinstance(it, I.GenIter):
        # stateful: consume up to and including the first truthy element
        while it.pos < len(it.items):
            x = it.items[it.pos]
            it.pos += 1
            if E.decide(ops.truth(x)):
                return True
        return False
    if items is None:
        raise Unsupported("any() over a symbolic iterable")
    for x in items:
        if E.decide(ops.truth(x)):
            return True
    return False


def b_all(E, it):
    if isinstance(it, QuantIter):
        return it.all(E)
    if isinstance(it, I.GenIter):
        while it.pos < len(it.items):
            x = it.items[it.pos]
            it.pos += 1
            if not E.decide(ops.truth(x)):
                return False
        return True
    items = E.concrete_items(it)
    if items is None:
        raise Unsupported("all() over a symbolic iterable")
    for x in items:
        if not E.decide(ops.truth(x)):
            return False
    return True


def b_iter(E, v):
    items = E.concrete_items(v)
    if items is None:
        raise Unsupported("iter() of a symbolic iterable")
    return I.GenIter(items)


_NODEFAULT = object()


def b_next(E, it, default=_NODEFAULT):
    if not isinstance(it, I.GenIter):
        raise Unsupported("next() of %r" % (it,))
    if it.pos < len(it.items):
        x = it.items[it.pos]
        it.pos += 1
        return x
    if default is not _NODEFAULT:
        return default
    E.raise_exc(StopIteration)


def b_min(E, *a):
    if len(a) == 1:
        a = E.concrete_items(a[0])
        if a is None:
            raise Unsupported("min of symbolic iterable")
    r = a[0]
    for x in a[1:]:
        if isinstance(r, int) and isinstance(x, int):
            r = min(r, x)
        else:
            r = mk_int(z3.If(as_int_term(x) < as_int_term(r), as_int_term(x), as_int_term(r)))
    return r


def b_max(E, *a):
    if len(a) == 1:
        a = E.concrete_items(a[0])
        if a is None:
            raise Unsupported("max of symbolic iterable")
    r = a[0]
    for x in a[1:]:
        if isinstance(r, int) and isinstance(x, int):
            r = max(r, x)
        else:
            r = mk_int(z3.If(as_int_term(x) > as_int_term(r), as_int_term(x), as_int_term(r)))
    return r


def b_sum(E, it, start=0):
    items = E.concrete_items(it)
    if items is None:
        raise Unsupported("sum over a symbolic iterable")
    r = start
    for x in items:
        r = ops.arith("+", r, x)
    return r


def b_bool(E, v=False):
    return ops.truth(refine(E, v) if isinstance(v, SPy) else v)


def b_int(E, v=0):
    if isinstance(v, (int, SInt)):
        return v
    if isinstance(v, (bool, SBool)):
        return mk_int(as_int_term(v))
    raise Unsupported("int(%r)" % (v,))


def b_type(E, v):
    if isinstance(v, Obj):
        return v.cls
    if isinstance(v, ExcObj):
        return v.cls
    if isinstance(v, SPy):
        return "<type of dynamically typed value>"
    if isinstance(v, (bytes,)) or (isinstance(v, SSeq) and v.kind == "bytes"):
        return bytes
    if isinstance(v, tuple) or (isinstance(v, SSeq) and v.kind == "tuple"):
        return tuple
    if isinstance(v, ListObj):
        return list
    if isinstance(v, (bool, SBool)):
        return bool
    if isinstance(v, (int, SInt)):
        return int
    if v is None:
        return type(None)
    return "<type>"


def b_set(E, v=()):
    if isinstance(v, I._SetLit):
        return v
    items = E.concrete_items(v)
    if items is None:
        raise Unsupported("set() of a symbolic iterable")
    return I._SetLit(tuple(items))


def b_dict(E, *a, **kw):
    if a or kw:
        raise Unsupported("dict(...) with arguments")
    return DictObj(None, None, None, None, None, name=E.fresh_name("dict"))


def b_map(E, f, it):
    items = E.concrete_items(it)
    if items is None:
        raise Unsupported("map over symbolic iterable")
    return I.GenIter([E.call(f, [x]) for x in items])


def b_defaultdict(E, factory=None):
    if factory is not int:
        raise Unsupported("defaultdict with factory %r" % (factory,))
    d = DictObj(z3.K(SeqI, z3.BoolVal(False)), z3.K(SeqI, z3.IntVal(0)), "bytes", "int", 0, name=E.fresh_name("dd"))
    if E.loop_guard is not None:
        d.born = id(E.loop_guard)
    return d


def b_sorted(E, v):
    items = E.concrete_items(v)
    if items is not None and not any(isinstance(x, V) for x in items):
        return ListObj(items=sorted(items))
    raise Unsupported("sorted of symbolic")


def b_repr(E, v):
    return "<repr>"


BUILTINS = {
    "len": I.Builtin("len", b_len), "isinstance": I.Builtin("isinstance", b_isinstance),
    "tuple": tuple, "bytes": bytes, "list": list, "int": int, "bool": bool, "str": str, "dict": dict, "set": set,
    "range": I.Builtin("range", b_range), "reversed": I.Builtin("reversed", b_reversed),
    "enumerate": I.Builtin("enumerate", b_enumerate), "zip": I.Builtin("zip", b_zip),
    "any": I.Builtin("any", b_any), "all": I.Builtin("all", b_all), "iter": I.Builtin("iter", b_iter),
    "next": I.Builtin("next", b_next), "min": I.Builtin("min", b_min), "max": I.Builtin("max", b_max),
    "sum": I.Builtin("sum", b_sum), "type": I.Builtin("type", b_type), "map": I.Builtin("map", b_map),
    "sorted": I.Builtin("sorted", b_sorted), "repr": I.Builtin("repr", b_repr),
    "super": Ext("super"), "object": object,
    "True": True, "False": False, "None": None,
    "Exception": Exception, "KeyError": KeyError, "IndexError": IndexError, "ValueError": ValueError,
    "TypeError": TypeError, "AssertionError": AssertionError, "StopIteration": StopIteration,
    "NotImplementedError": NotImplementedError, "AttributeError": AttributeError, "BaseException": BaseException,
    "RuntimeError": RuntimeError,
}

NATIVE = {
    tuple: b_tuple, bytes: b_bytes, list: b_list, int: b_int, bool: b_bool, set: b_set, dict: b_dict,
    str: lambda E, v="": "<str>",
}


def builtin_for_type(t):
    return I.Builtin(t.__name__, NATIVE[t])


# ---------------------------------------------------------------------------------------------------
# external library functions (assumed contracts)

def x_chain(E, *parts):
    out = []
    sym = None
    for p in parts:
        items = E.concrete_items(p)
        if items is None:
            sym = True
            break
        out.extend(items)
    if sym is None:
        return I.GenIter(out)
    # symbolic: concatenation of sequences of ints
    acc = ()
    for p in parts:
        p = refine(E, p)
        if isinstance(p, ListObj):
            p = tuple(p.items) if p.items is not None else SSeq(p.seq.t, "tuple", p.seq.elem)
        if isinstance(p, I.GenIter):
            p = tuple(E.concrete_items(p))
        if isinstance(p, bytes):
            p = tuple(p)
        if isinstance(p, SSeq):
            p = SSeq(p.t, "tuple", p.elem, rng=p.rng)
        acc = ops.seq_concat(acc, p)
    return acc


def x_to_int(E, v):
    v = refine(E, v)
    if isinstance(v, bytes):
        return int.from_bytes(v, "big")
    t = ops.seq_term(v)
    r = mk_int(specfn.to_int(t))
    E.assume(SBool(specfn.to_int(t) >= 0))
    E.assume(SBool(specfn.to_int(t) < specfn.pow2(8 * z3.Length(t))))
    return r


def x_keccak(E, v):
    v = refine(E, v)
    if not (isinstance(v, bytes) or (isinstance(v, SSeq) and v.kind == "bytes")):
        raise PyRaise(ExcObj(TypeError, ("keccak of non-bytes",)))
    return E.keccak(v)


def x_wraps(E, f):
    def deco(E2, g):
        if isinstance(g, FuncVal) and isinstance(f, (FuncVal, Wrapped)):
            g.wraps = f if isinstance(f, FuncVal) else f.func
        return g
    return I.Builtin("wraps", deco)


def x_cast(E, t, v):
    return v


def x_is_list_like(E, v):
    if isinstance(v, SPy):
        return mk_bool(z3.Or(PyVal.is_PTup(v.t), PyVal.is_PTupB(v.t)))
    if isinstance(v, (tuple, ListObj, range)):
        return True
    if isinstance(v, SSeq):
        return v.kind in ("tuple", "list")
    if isinstance(v, Obj) and "__tuple__" in v.fields:
        return True
    return False


def x_partition_all(E, n, seq):
    seq = refine(E, seq)
    items = E.concrete_items(seq)
    if items is None:
        ln = as_int_term(ops.length(seq))
        if not isinstance(n, int) or not E.implied(mk_bool(ln % n == 0)):
            raise Unsupported("partition_all over a symbolic sequence whose length is not known to be a multiple")
        return I._Partition(n, seq)
    return [tuple(items[i:i + n]) for i in range(0, len(items), n)]


def x_partition(E, n, seq):
    seq = refine(E, seq)
    items = E.concrete_items(seq)
    if items is None:
        if not isinstance(n, int):
            raise Unsupported("partition with symbolic chunk size")
        return I._Partition(n, seq)       # len div n complete chunks; an incomplete tail is dropped
    return [tuple(items[i:i + n]) for i in range(0, len(items) - n + 1, n)]


EXT = {
    "itertools.chain": x_chain,
    "eth_utils.to_int": x_to_int,
    "eth_utils.keccak": x_keccak,
    "eth_hash.auto.keccak": x_keccak,
    "functools.wraps": x_wraps,
    "typing.cast": x_cast,
    "eth_utils.is_list_like": x_is_list_like,
    "eth_utils.toolz.partition_all": x_partition_all,
    "eth_utils.toolz.partition": x_partition,
    "collections.defaultdict": b_defaultdict,
    "hexbytes.HexBytes": lambda E, v: v,          # a bytes subclass equal to its bytes
}

def ctor_nibbles(E, cls, nibbles):
    """trie.typing.Nibbles(x): the tuple of nibbles; TypeError for a non-sequence, ValueError for an element that
    is not a nibble.  (Nibbles objects are modelled as plain tuples of ints in 0..15.)"""
    from contracts.seqspec import allnib, allnib_of
    v = nibbles
    if isinstance(v, Obj) and "__tuple__" in v.fields:
        v = v.fields["__tuple__"]
    if isinstance(v, SPy):
        if not E.decide(x_is_list_like(E, v)):
            E.raise_exc(TypeError, "Must pass in a tuple of nibbles")
        v = refine(E, v)
    if isinstance(v, ListObj):
        v = b_tuple(E, v)
    if isinstance(v, tuple):
        for x in v:
            if not ops.is_intlike(x):
                E.raise_exc(ValueError, "not a nibble")
            if not E.decide(mk_bool(z3.And(as_int_term(x) >= 0, as_int_term(x) <= 15))):
                E.raise_exc(ValueError, "not a nibble")
        return v
    if isinstance(v, SSeq) and v.kind in ("tuple", "list") and v.elem == "int":
        if v.rng is not None and v.rng[0] >= 0 and v.rng[1] <= 15:
            return SSeq(v.t, "tuple", "int", rng=v.rng)
        side = []
        ok = allnib_of(v.t, side)
        for f in side:
            E.assume(mk_bool(f))
        if not E.decide(mk_bool(ok)):
            E.raise_exc(ValueError, "not a nibble")
        return SSeq(v.t, "tuple", "int", rng=(0, 15))
    if isinstance(v, (bytes, SSeq, str)):
        E.raise_exc(TypeError, "Must pass in a tuple of nibbles")
    raise Unsupported("Nibbles(%r)" % (v,))


def ctor_node_type(E, cls, v):
    """trie.typing.NodeType(x): an IntEnum member, modelled as the integer it equals; ValueError outside 0..3"""
    if not ops.is_intlike(v) or isinstance(v, (bool, SBool)):
        raise Unsupported("NodeType(%r)" % (v,))
    if isinstance(v, int):
        if v not in (0, 1, 2, 3):
            E.raise_exc(ValueError, "not a valid NodeType")
        return v
    if not E.decide(mk_bool(z3.And(v.t >= 0, v.t <= 3))):
        E.raise_exc(ValueError, "not a valid NodeType")
    return v


CLASS_CTORS = {"trie.typing:Nibbles": ctor_nibbles, "trie.typing:NodeType": ctor_node_type}


# ---------------------------------------------------------------------------------------------------
# quantified iterables (generator expressions over symbolic sequences, consumed by any()/all())

class QuantIter:
    """(f(x) for x in s) with symbolic s; body is evaluated on a bound index variable without forking"""

    def __init__(self, var, n, body):
        self.var = var
        self.n = n
        self.body = body

    def any(self, E):
        i = self.var
        return mk_bool(z3.Exists([i], z3.And(i >= 0, i < self.n, self.body)))

    def all(self, E):
        i = self.var
        return mk_bool(z3.ForAll([i], z3.Implies(z3.And(i >= 0, i < self.n), self.body)))


def symbolic_comp(E, node, fr, sc, kind):
    """comprehension / generator expression over a sequence of symbolic length.
    Supported: one generator, no filter, body evaluated on the element at a bound index.
      gen   -> QuantIter when the element is a condition (for any()/all()), else pointwise sequence
      list / gen of ints or byte strings -> fresh sequence r with |r| = |s| and r[i] = f(s[i])"""
    import ast as _ast
    if len(node.generators) != 1 or node.generators[0].ifs:
        raise Unsupported("comprehension over symbolic data with filter / several generators")
    g = node.generators[0]
    it = sc.it
    n = _iter_len(E, it)
    i = z3.Int(E.fresh_name("q"))
    sub = I.Frame(fr.func, fr.module, {}, fr)
    prev_dec, prev_pos = E.decisions, E.dpos
    E.assign(g.target, E.iter_elem(it, SInt(i)), sub)
    # the body must be pure and fork-free: evaluate with forking disabled
    saved = E.next_decision
    def nofork(n_):
        raise Unsupported("comprehension body over symbolic data needs a case split")
    E.next_decision = nofork
    pushed = False
    try:
        E.push()
        pushed = True
        E.scoped_add(z3.And(i >= 0, i < as_int_term(n)))
        if kind == "dict":
            kval = E.ev(node.key, sub)
            vval = E.ev(node.value, sub)
            val = None
        else:
            val = E.ev(node.elt, sub)
    finally:
        if pushed:
            E.pop()
        E.next_decision = saved
    if kind == "dict":
        return _dict_comp(E, i, as_int_term(n), kval, vval)
    if isinstance(val, (bool, SBool)):
        return QuantIter(i, as_int_term(n), as_bool_term(val))
    if kind == "set":
        raise Unsupported("set comprehension over symbolic data")
    if ops.is_intlike(val) and _is_array_source(it):
        nm = E.fresh_name("comp")
        arr = z3.Const(nm + ".a", z3.ArraySort(IntS, IntS))
        E.assume(SBool(z3.ForAll([i], z3.Implies(z3.And(i >= 0, i < as_int_term(n)),
                                                  z3.Select(arr, i) == as_int_term(val)), patterns=[z3.Select(arr, i)])))
        r = ASeq(arr, z3.simplify(as_int_term(n)), "tuple")
        return I._GenOutIter(r) if kind == "gen" else r
    if ops.is_intlike(val):
        r = E.fresh_seq("comp", "tuple" if kind == "gen" else "list", "int")
        E.assume(SBool(z3.Length(r.t) == as_int_term(n)))
        E.assume(SBool(z3.ForAll([i], z3.Implies(z3.And(i >= 0, i < as_int_term(n)), r.t[i] == as_int_term(val)),
                                 patterns=[r.t[i]])))
        return I._GenOutIter(r) if kind == "gen" else ListObj(seq=r)
    if isinstance(val, (bytes, SSeq)) and ops.seq_kind(val) == "bytes":
        r = E.fresh_seq("comp", "tuple" if kind == "gen" else "list", "bytes")
        E.assume(SBool(z3.Length(r.t) == as_int_term(n)))
        E.assume(SBool(z3.ForAll([i], z3.Implies(z3.And(i >= 0, i < as_int_term(n)),
                                                  r.t[i] == ops.seq_term_as(val, "int")), patterns=[r.t[i]])))
        return I._GenOutIter(r) if kind == "gen" else ListObj(seq=r)
    raise Unsupported("comprehension element %r over symbolic data" % (val,))


def _dict_comp(E, i, n, kval, vval):
    """{K(x): V(x) for x in s} over a sequence of symbolic length n, K and V terms in the bound index i: a fresh
    dictionary d with  has[k] => k = K(j) and val[k] = V(j) for some j < n,  and has[K(j)] for every j < n.
    (Which of several elements with the same key wins is left open: an over-approximation.)"""
    def kind_term(v):
        if isinstance(v, (bytes, SSeq)) and ops.seq_kind(v) == "bytes":
            return "bytes", ops.seq_term_as(v, "int")
        if ops.is_intlike(v) and not isinstance(v, (bool, SBool)):
            return "int", as_int_term(v)
        raise Unsupported("dict comprehension over symbolic data with key / value %r" % (v,))
    kk, kt = kind_term(kval)
    vk, vt = kind_term(vval)
    d = E.fresh_dict("dictcomp", kk, vk)
    ks = d.has.sort().domain()
    x = z3.Const(E.fresh_name("k"), ks)
    w = z3.Function(E.fresh_name("dictcomp.idx"), ks, IntS)
    wx = w(x)
    E.assume(SBool(z3.ForAll([x], z3.Implies(z3.Select(d.has, x), z3.And(
        wx >= 0, wx < n, x == z3.substitute(kt, (i, wx)), z3.Select(d.val, x) == z3.substitute(vt, (i, wx)))),
        patterns=[z3.Select(d.has, x)])))
    j = z3.Int(E.fresh_name("j"))
    E.assume(SBool(z3.ForAll([j], z3.Implies(z3.And(j >= 0, j < n), z3.Select(d.has, z3.substitute(kt, (i, j)))))))
    hook = E.ghost.get("dictcomp_hook")
    if hook is not None:
        hook(E, d, i, n, kt, vt)
    return d


def _is_array_source(it):
    if isinstance(it, ASeq):
        return True
    if isinstance(it, (I._Partition, I._Reversed)):
        return _is_array_source(it.seq)
    if isinstance(it, I._Enumerate):
        return _is_array_source(it.inner)
    if isinstance(it, I._Zip):
        return any(_is_array_source(p) for p in it.parts)
    return False


def _iter_len(E, it):
    if hasattr(it, "py_iter_len"):
        return it.py_iter_len(E)
    if isinstance(it, I._Zip):
        ls = [_iter_len(E, p) for p in it.parts]
        r = ls[0]
        for x in ls[1:]:
            r = b_min(E, r, x)
        return r
    if isinstance(it, I._Enumerate):
        return _iter_len(E, it.inner)
    if isinstance(it, I._Reversed):
        return _iter_len(E, it.seq)
    if isinstance(it, I._Partition):
        return mk_int(as_int_term(ops.length(it.seq)) / it.n)
    if isinstance(it, I._Range):
        d = ops.arith("-", it.stop, it.start)
        return mk_int(z3.If(as_int_term(d) > 0, as_int_term(d), 0))
    return ops.length(it)


# ---------------------------------------------------------------------------------------------------
# methods of builtin types

class SortedSetObj:
    """placeholder for sortedcontainers.SortedSet (fog.py); filled in by contracts/fog_c.py"""

    def __init__(self, seq):
        self.seq = seq


def method_for(E, base, name):
    base_r = base
    if isinstance(base, ListObj):
        if name == "append":
            def append(E2, x):
                E2.check_mut(base)
                if base.items is not None:
                    base.items.append(x)
                else:
                    unit = z3.Unit(as_int_term(x) if base.seq.elem == "int" else ops.seq_term_as(x, "int"))
                    base.seq = SSeq(z3.simplify(z3.Concat(base.seq.t, unit)), "list", base.seq.elem)
                return None
            return I.Builtin("list.append", append)
        if name == "extend":
            def extend(E2, xs):
                E2.check_mut(base)
                items = E2.concrete_items(xs)
                if base.items is not None and items is not None:
                    base.items.extend(items)
                    return None
                raise Unsupported("list.extend with symbolic data")
            return I.Builtin("list.extend", extend)
        if name == "pop":
            def pop(E2, idx=-1):
                E2.check_mut(base)
                if base.items is None:
                    raise Unsupported("pop on symbolic list")
                if not base.items:
                    E2.raise_exc(IndexError, "pop from empty list")
                return base.items.pop(idx)
            return I.Builtin("list.pop", pop)
        if name == "copy":
            return I.Builtin("list.copy", lambda E2: ListObj(items=list(base.items)) if base.items is not None
                             else ListObj(seq=base.seq))
        if name == "index":
            def index(E2, x):
                if base.items is None:
                    raise Unsupported("index on symbolic list")
                for k, y in enumerate(base.items):
                    if E2.decide(ops.py_eq(x, y)):
                        return k
                E2.raise_exc(ValueError, "not in list")
            return I.Builtin("list.index", index)
    if isinstance(base, list):
        if name == "index":
            def index(E2, x):
                for k, y in enumerate(base):
                    if E2.decide(ops.py_eq(x, y)):
                        return k
                E2.raise_exc(ValueError, "not in list")
            return I.Builtin("list.index", index)
    if isinstance(base, DictObj):
        if name == "pop":
            def pop(E2, key, *default):
                E2.check_mut(base)
                if base.has is None:
                    if default:
                        return default[0]
                    E2.raise_exc(KeyError, key)
                kt = E2.dict_key(base, key)
                present = E2.decide(mk_bool(z3.Select(base.has, kt)))
                if present:
                    v = E2.dict_dec(base, z3.Select(base.val, kt))
                    base.has = z3.Store(base.has, kt, z3.BoolVal(False))
                    base.writes += 1
                    E2.heap_log.append(("pop", base, key))
                    return v
                base.writes += 1            # a pop() call on the store counts as a write operation
                E2.heap_log.append(("pop", base, key))
                if default:
                    return default[0]
                E2.raise_exc(KeyError, key)
            return I.Builtin("dict.pop", pop)
        if name == "get":
            def get(E2, key, default=None):
                if base.has is None:
                    return default
                kt = E2.dict_key(base, key)
                if E2.decide(mk_bool(z3.Select(base.has, kt))):
                    return E2.dict_dec(base, z3.Select(base.val, kt))
                return default
            return I.Builtin("dict.get", get)
        if name == "items":
            return I.Builtin("dict.items", lambda E2: DictItems(base))
        if name == "keys":
            return I.Builtin("dict.keys", lambda E2: DictItems(base, keys_only=True))
        if name == "copy":
            def copy(E2):
                d = DictObj(base.has, base.val, base.kkind, base.vkind, base.default, name=E2.fresh_name(base.name + ".copy"))
                if E2.loop_guard is not None:
                    d.born = id(E2.loop_guard)
                return d
            return I.Builtin("dict.copy", copy)
    if isinstance(base, (bytes, SSeq)) and ops.seq_kind(base) == "bytes":
        if name == "startswith":
            def startswith(E2, p):
                return mk_bool(z3.PrefixOf(ops.seq_term_as(p, "int"), ops.seq_term_as(base, "int")))
            return I.Builtin("bytes.startswith", startswith)
        if name == "decode":
            return I.Builtin("bytes.decode", lambda E2, *a: _StrOf(base))
    if isinstance(base, str):
        if name == "encode":
            return I.Builtin("str.encode", lambda E2, *a: _encode_str(E2, base))
    if isinstance(base, I._Super):
        return super_attr(E, base, name)
    return None


class DictItems:
    def __init__(self, d, keys_only=False):
        self.d = d
        self.keys_only = keys_only          # `for k in d` / d.keys(): the loop variable is the key alone


class _StrOf:
    def __init__(self, b):
        self.b = b


def _encode_str(E, s):
    if s == "<f-string>":
        return E.fresh_seq("fstr", "bytes", "int")
    return s.encode()


def super_attr(E, sup, name):
    fr = sup.fr
    f = fr.func.wraps or fr.func
    cls = f.cls
    self_val = fr.locals.get(f.node.args.args[0].arg) if f.node.args.args else None
    if cls is None:
        raise Unsupported("super() outside a method")
    mro = cls.mro()
    for c in mro[1:]:
        if isinstance(c, ClassVal):
            a = c.attrs.get(name)
            if a is not None:
                return I.BoundMethod(a, self_val) if isinstance(a, (FuncVal, Wrapped)) else a
        elif isinstance(c, type) and issubclass(c, BaseException):
            if name == "__init__":
                def exc_init(E2, *args):
                    self_val.args = tuple(args)
                    return None
                return I.Builtin("Exception.__init__", exc_init)
        elif c is tuple or (isinstance(c, Ext) and c.name.startswith("typing.Tuple")):
            if name == "__add__":
                def tuple_add(E2, other):
                    inner = self_val.fields["__tuple__"]
                    o = other.fields["__tuple__"] if isinstance(other, Obj) and "__tuple__" in other.fields else other
                    return ops.seq_concat(inner, refine(E2, o))
                return I.Builtin("tuple.__add__", tuple_add)
    raise Unsupported("super().%s in %s" % (name, cls.name))


def symbolic_slot_hook(E, lst, j):
    """value of lst[j] for a symbolic index j without a case split, when a model provides one"""
    for h in SLOT_HOOKS:
        r = h(E, lst, j)
        if r is not NotImplemented:
            return r
    return NotImplemented


SLOT_HOOKS = []
SLOT_STORE_HOOKS = []


def symbolic_slot_store_hook(E, lst, j, val):
    for h in SLOT_STORE_HOOKS:
        if h(E, lst, j, val):
            return True
    return False


def contains_hook(E, cont, x):
    return NotImplemented


def obj_attr_hook(E, obj, name):
    return NotImplemented


def getitem_hook(E, base, key):
    return NotImplemented


def wrap_like(E, obj, inner):
    o = Obj(obj.cls)
    o.fields["__tuple__"] = inner
    return o
