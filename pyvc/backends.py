"""Second back end for obligations z3 left open: the same assertions as SMT-LIB 2 text, handed to cvc5
(`/usr/bin/cvc5 --strings-exp`), and to z3 again with E-matching only (mbqi off).  A definitive answer from
either is accepted; `sat` from one and `unsat` from the other is a checker error."""
import os
import re
import subprocess
import tempfile
import time

import z3

CVC5 = "/usr/bin/cvc5"


def to_smt2(facts, goal):
    s = z3.Solver()
    for f in facts:
        s.add(f)
    s.add(z3.Not(goal))
    txt = s.to_smt2()
    # z3 prints some internal symbols that are not SMT-LIB; map the ones with a standard spelling
    txt = txt.replace("seq.nth_i", "seq.nth").replace("seq.nth_u", "seq.nth")
    txt = re.sub(r"\(set-info :status [a-z]+\)\n?", "", txt)
    return "(set-logic ALL)\n" + txt


def run_cvc5(txt, timeout_ms):
    if not os.path.exists(CVC5):
        return "unknown"
    with tempfile.NamedTemporaryFile("w", suffix=".smt2", delete=False) as f:
        f.write(txt)
        path = f.name
    try:
        p = subprocess.run([CVC5, "--strings-exp", "--tlimit=%d" % timeout_ms, path], capture_output=True, text=True,
                           timeout=timeout_ms / 1000.0 + 5)
        out = p.stdout.strip().splitlines()
        if out and out[0] in ("sat", "unsat"):
            return out[0]
        return "unknown"
    except Exception:
        return "unknown"
    finally:
        try:
            os.unlink(path)
        except OSError:
            pass


def run_cvc5_api(txt, timeout_ms):
    """cvc5 through its Python API (the wheel in the overlay venv), same SMT-LIB text"""
    try:
        import cvc5
    except Exception:
        return run_cvc5(txt, timeout_ms)
    try:
        tm = cvc5.TermManager() if hasattr(cvc5, "TermManager") else None
        slv = cvc5.Solver(tm) if tm is not None else cvc5.Solver()
        slv.setOption("strings-exp", "true")
        slv.setOption("tlimit-per", str(int(timeout_ms)))
        p = cvc5.InputParser(slv)
        p.setStringInput(cvc5.InputLanguage.SMT_LIB_2_6, txt, "vc")
        sm = p.getSymbolManager()
        res = "unknown"
        while True:
            cmd = p.nextCommand()
            if cmd.isNull():
                break
            out = cmd.invoke(slv, sm).strip()
            if out in ("sat", "unsat", "unknown"):
                res = out
        return res
    except Exception:
        return "unknown"


def run_z3_ematch(facts, goal, timeout_ms):
    s = z3.Solver()
    s.set("timeout", timeout_ms)
    s.set("smt.mbqi", False)
    s.set("smt.auto_config", False)
    for f in facts:
        s.add(f)
    s.add(z3.Not(goal))
    r = s.check()
    if r == z3.unsat:
        return "unsat"
    return "unknown"          # without MBQI a `sat` is not trustworthy on quantified input


def second_opinion(facts, goal, timeout_ms):
    """cvc5 on the same assertions (it is markedly stronger than z3 on sequence equalities), then z3 with
    E-matching only.  Only `unsat` is taken from here: a cvc5 `sat` has no model we could validate or replay."""
    t0 = time.time()
    if os.environ.get("PYVC_NO_SECOND"):
        return "unknown", "", 0.0
    try:
        txt = to_smt2(facts, goal)
        r = run_cvc5_api(txt, timeout_ms)
    except Exception:
        r = "unknown"
    if r == "unsat":
        return "proved", "cvc5", time.time() - t0
    r = run_z3_ematch(facts, goal, min(timeout_ms, 5000))
    if r == "unsat":
        return "proved", "z3-ematch", time.time() - t0
    return "unknown", "", time.time() - t0


# ---------------------------------------------------------------------------------------------------
# arithmetic pre-pass: obligations about lengths and integers only

def _pure_arith(t, cache):
    """True if t mentions sequences only through Length(x) -- such facts survive replacing every Length(x) by an
    integer variable"""
    key = t.get_id()
    if key in cache:
        return cache[key]
    ok = True
    if z3.is_quantifier(t):
        ok = False
    elif z3.is_app(t):
        k = t.decl().kind()
        if k == z3.Z3_OP_SEQ_LENGTH:
            ok = True                      # whatever is inside becomes an opaque integer
        else:
            srt = t.sort()
            if srt.kind() in (z3.Z3_SEQ_SORT, z3.Z3_ARRAY_SORT, z3.Z3_DATATYPE_SORT) :
                ok = False
            elif k == z3.Z3_OP_UNINTERPRETED and t.num_args() > 0:
                ok = False
            else:
                for c in t.children():
                    if not _pure_arith(c, cache):
                        ok = False
                        break
    cache[key] = ok
    return ok


def _abstract(t, table):
    if z3.is_app(t) and t.decl().kind() == z3.Z3_OP_SEQ_LENGTH:
        key = t.get_id()
        if key not in table:
            v = z3.Int("len!%d" % len(table))
            table[key] = (v, t)
        return table[key][0]
    if z3.is_app(t) and t.num_args() > 0:
        return t.decl()(*[_abstract(c, table) for c in t.children()])
    return t


def arith_prepass(facts, goal, timeout_ms=2000):
    """try to prove the goal from the purely arithmetic facts, with lengths abstracted to non-negative integers.
    Sound: hypotheses are only dropped or weakened.  Returns True if proved."""
    cache = {}
    if not _pure_arith(goal, cache):
        return False
    table = {}
    s = z3.Solver()
    s.set("timeout", timeout_ms)
    for f in facts:
        if _pure_arith(f, cache):
            s.add(_abstract(f, table))
    s.add(z3.Not(_abstract(goal, table)))
    for (v, _) in list(table.values()):
        s.add(v >= 0)
    return s.check() == z3.unsat
